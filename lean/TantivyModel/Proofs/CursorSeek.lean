import TantivyModel.Proofs.Cursor
/-! advance / skip-reader seek / seek preserve the cursor invariant; programs -/
namespace TantivyModel.Postings
open TantivyModel.Invert (RecOpt)

/-! ### advance -/

theorem posP_add (o : RecOpt) (a b : Nat) : posP o a + posP o b = posP o (a + b) := by
  unfold posP; split <;> simp

theorem tfSum_eq (c : Cfg) (o : RecOpt) (tfs : List Nat) (hfit : BlockSumsFit c tfs) (m : Nat) :
    (if o = RecOpt.positions then ((tfs.drop m).take c.B).sum % 2 ^ 32 else 0) =
      posP o ((tfs.drop m).take c.B).sum := by
  unfold posP; split
  · exact Nat.mod_eq_of_lt (hfit m)
  · rfl

theorem advance_inv (c : Cfg) (o : RecOpt) (docs tfs : List Nat) (H : Hyp c docs tfs)
    (hfit : BlockSumsFit c tfs) (s : Cursor) (m : Nat) (I : Inv c o docs tfs s m) :
    ∃ m', Inv c o docs tfs (advance c s) m' ∧
      min (m' + (advance c s).cur) docs.length = min (min (m + s.cur) docs.length + 1) docs.length := by
  unfold advance
  by_cases hc : s.cur = c.B - 1
  · simp only [hc, if_true]
    unfold blockAdvance
    rcases chunk_cases c o H.hB docs tfs m with ⟨hlt, h⟩ | ⟨hlen, h⟩
    · -- tail block: becomes the empty tail
      rw [I.blocks, h]
      simp only [tailB, Bool.false_eq_true, if_false]
      refine ⟨docs.length, ⟨?_, Nat.le_refl _, H.hB, fun h => absurd h (Nat.lt_irrefl _)⟩, ?_⟩
      · simp [chunkBlocks, emptyTail, H.hv.len]
      · have := I.le
        simp only [Nat.add_zero]
        omega
    · -- full block: next block
      rw [I.blocks, h]
      simp only [fullB, if_true]
      have hm : m < docs.length := by have := H.hB; omega
      refine ⟨m + c.B, ⟨rfl, by omega, H.hB, fun _ => ?_⟩, ?_⟩
      · simp only
        rw [I.pos hm, take_add_sum, tfSum_eq c o tfs hfit m, posP_add]
      · simp only [Nat.add_zero]
        have := H.hB
        omega
  · simp only [hc, if_false]
    refine ⟨m, ⟨I.blocks, I.le, ?_, I.pos⟩, ?_⟩
    · have := I.cur; simp only; omega
    · show min (m + (s.cur + 1)) docs.length = _; omega

/-! ### skip-reader seek -/

theorem rank_ge_of_prefix_lt (docs : List Nat) (hs : docs.Pairwise (· < ·)) (t m : Nat)
    (hm : m ≤ docs.length) (h : ∀ j, j < m → docs.getD j 0 < t) : m ≤ docs.countP (· < t) := by
  rcases Nat.eq_zero_or_pos m with h0 | hpos
  · omega
  · have := h (m - 1) (by omega)
    have := (sorted_lt_iff docs (sorted_le_of_lt docs hs) t (m - 1) (by omega)).mp this
    omega

theorem skipSeek_spec (c : Cfg) (o : RecOpt) (docs tfs : List Nat) (H : Hyp c docs tfs)
    (hfit : BlockSumsFit c tfs) (t : Nat) (ht : t ≤ c.T) (k : Nat) :
    ∀ (m p : Nat), k = (docs.length - m) / c.B → m ≤ docs.length →
      (m < docs.length → p = posP o (tfs.take m).sum) → (∀ j, j < m → docs.getD j 0 < t) →
      ∃ m', m ≤ m' ∧ m' ≤ docs.length ∧
        (skipSeek c t (chunkBlocks c o k (docs.drop m) (tfs.drop m)) p).1 =
          chunkBlocks c o ((docs.length - m') / c.B) (docs.drop m') (tfs.drop m') ∧
        (m' < docs.length → (skipSeek c t (chunkBlocks c o k (docs.drop m) (tfs.drop m)) p).2 =
          posP o (tfs.take m').sum) ∧
        (∀ j, j < m' → docs.getD j 0 < t) ∧
        (c.B ≤ docs.length - m' → t ≤ docs.getD (m' + c.B - 1) 0) := by
  induction k with
  | zero =>
    intro m p hk hm hp hpre
    refine ⟨m, Nat.le_refl _, hm, ?_, ?_, hpre, ?_⟩
    · rw [← hk]; simp [chunkBlocks, skipSeek, ht]
    · intro h; simp only [chunkBlocks, skipSeek, ht, if_true]; exact hp h
    · intro h
      have : (docs.length - m) / c.B ≥ 1 := (Nat.one_le_div_iff H.hB).mpr h
      omega
  | succ k ih =>
    intro m p hk hm hp hpre
    have hlen : c.B ≤ docs.length - m := by
      rcases Nat.lt_or_ge (docs.length - m) c.B with h | h
      · rw [Nat.div_eq_of_lt h] at hk; omega
      · exact h
    have hB := H.hB
    have hmlt : m < docs.length := by omega
    have hlast : ((docs.drop m).take c.B).getLastD 0 = docs.getD (m + c.B - 1) 0 := by
      rw [getLastD_take _ _ hB (by simp; omega), getD_drop']
      congr 1; omega
    simp only [chunkBlocks, skipSeek]
    rw [hlast]
    by_cases hle : t ≤ docs.getD (m + c.B - 1) 0
    · simp only [hle, if_true]
      refine ⟨m, Nat.le_refl _, hm, ?_, fun h => hp h, hpre, fun _ => hle⟩
      rw [← hk]; simp only [chunkBlocks]; rw [hlast]
    · simp only [hle, if_false, if_true]
      have hk' : k = (docs.length - (m + c.B)) / c.B := by
        have e1 : docs.length - m = (docs.length - (m + c.B)) + c.B := by omega
        rw [e1, Nat.add_div_right _ hB] at hk
        omega
      have hp' : m + c.B < docs.length →
          p + (if o = RecOpt.positions then ((tfs.drop m).take c.B).sum % 2 ^ 32 else 0) =
            posP o (tfs.take (m + c.B)).sum := by
        intro _
        rw [hp hmlt, take_add_sum, tfSum_eq c o tfs hfit m, posP_add]
      have hpre' : ∀ j, j < m + c.B → docs.getD j 0 < t := by
        intro j hj
        rcases Nat.lt_or_ge j (m + c.B - 1) with h1 | h1
        · have := sorted_getD_lt docs H.hv.sorted j (m + c.B - 1) 0 h1 (by omega)
          omega
        · have : j = m + c.B - 1 := by omega
          subst this; omega
      have := ih (m + c.B) _ hk' (by omega) hp' hpre'
      simp only [List.drop_drop] at this ⊢
      obtain ⟨m', h1, h2, h3, h4, h5, h6⟩ := this
      exact ⟨m', by omega, h2, h3, h4, h5, h6⟩

/-! ### seek -/

theorem rank_le_of_ge (c : Cfg) (docs tfs : List Nat) (H : Hyp c docs tfs) (t j : Nat)
    (h : t ≤ docs.getD j c.T) : docs.countP (· < t) ≤ min j docs.length := by
  have hle : docs.countP (· < t) ≤ docs.length := List.countP_le_length
  rcases Nat.lt_or_ge j docs.length with hj | hj
  · have := sorted_lt_iff docs (sorted_le_of_lt docs H.hv.sorted) t j hj
    rw [getD_default_irrel docs j c.T 0 hj] at h
    omega
  · omega

theorem padded_sorted (c : Cfg) (o : RecOpt) (docs tfs : List Nat) (H : Hyp c docs tfs)
    (s : Cursor) (m : Nat) (I : Inv c o docs tfs s m) : (curDocs c s).Pairwise (· ≤ ·) := by
  rw [List.pairwise_iff_getElem]
  intro i j hi hj hij
  have hlen := curDocs_length c o docs tfs H s m I
  have e1 := curDocs_getD c o docs tfs H s m I i (by omega)
  have e2 := curDocs_getD c o docs tfs H s m I j (by omega)
  simp only [List.getD_eq_getElem?_getD, List.getElem?_eq_getElem hi, List.getElem?_eq_getElem hj,
    Option.getD_some] at e1 e2
  rw [e1, e2]
  rcases Nat.lt_or_ge (m + j) docs.length with h | h
  · have := sorted_getD_lt docs H.hv.sorted (m + i) (m + j) c.T (by omega) h
    simp only [List.getD_eq_getElem?_getD] at this
    omega
  · have e3 : docs[m + j]?.getD c.T = c.T := by
      have := getD_of_le docs (m + j) c.T h
      simpa [List.getD_eq_getElem?_getD] using this
    rw [e3]
    rcases Nat.lt_or_ge (m + i) docs.length with h' | h'
    · have := H.hT _ (getD_mem docs (m + i) c.T h')
      simp only [List.getD_eq_getElem?_getD] at this
      omega
    · have := getD_of_le docs (m + i) c.T h'
      simp only [List.getD_eq_getElem?_getD] at this
      omega

/-- the in-block search on the block the skip reader landed on finds the global rank -/
theorem search_landed (c : Cfg) (o : RecOpt) (docs tfs : List Nat) (H : Hyp c docs tfs)
    (s : Cursor) (m : Nat) (I : Inv c o docs tfs s m) (t : Nat) (ht : t ≤ c.T)
    (hpre : ∀ j, j < m → docs.getD j 0 < t)
    (hlast : c.B ≤ docs.length - m → t ≤ docs.getD (m + c.B - 1) 0) :
    m + searchBlock c (curDocs c s) t = docs.countP (· < t) ∧ searchBlock c (curDocs c s) t < c.B := by
  have hlen := curDocs_length c o docs tfs H s m I
  have hB := H.hB
  rw [H.hsearch _ t hlen (padded_sorted c o docs tfs H s m I)]
  have hrank_ge := rank_ge_of_prefix_lt docs H.hv.sorted t m I.le hpre
  have hrank_le : docs.countP (· < t) ≤ docs.length := List.countP_le_length
  have hsl := sorted_le_of_lt docs H.hv.sorted
  rw [countP_eq_range _ _ c.T, hlen]
  have hcongr : (List.range c.B).countP (fun i => decide ((curDocs c s).getD i c.T < t)) =
      (List.range c.B).countP (fun i => decide (i < docs.countP (· < t) - m)) := by
    apply List.countP_congr
    intro i hi
    have hi' : i < c.B := List.mem_range.mp hi
    rw [curDocs_getD c o docs tfs H s m I i hi']
    simp only [decide_eq_true_eq]
    rcases Nat.lt_or_ge (m + i) docs.length with h | h
    · rw [getD_default_irrel docs (m + i) c.T 0 h]
      have := sorted_lt_iff docs hsl t (m + i) h
      omega
    · rw [getD_of_le docs (m + i) c.T h]
      omega
  rw [hcongr, countP_range_lt]
  have hin : docs.countP (· < t) - m < c.B := by
    rcases Nat.lt_or_ge (docs.length - m) c.B with h | h
    · omega
    · have h1 := hlast h
      have hidx : m + c.B - 1 < docs.length := by omega
      have := sorted_lt_iff docs hsl t (m + c.B - 1) hidx
      omega
  omega

theorem seek_inv (c : Cfg) (o : RecOpt) (docs tfs : List Nat) (H : Hyp c docs tfs)
    (hfit : BlockSumsFit c tfs) (s : Cursor) (m : Nat) (I : Inv c o docs tfs s m)
    (t : Nat) (ht : t ≤ c.T) :
    ∃ m', Inv c o docs tfs (seek c s t) m' ∧
      min (m' + (seek c s t).cur) docs.length =
        max (min (m + s.cur) docs.length) (docs.countP (· < t)) := by
  have hB := H.hB
  have hrank_le : docs.countP (· < t) ≤ docs.length := List.countP_le_length
  have hsl := sorted_le_of_lt docs H.hv.sorted
  unfold seek
  by_cases h0 : t ≤ doc c s
  · simp only [h0, if_true]
    refine ⟨m, I, ?_⟩
    rw [doc_eq c o docs tfs H s m I] at h0
    have := rank_le_of_ge c docs tfs H t (m + s.cur) h0
    omega
  · simp only [h0, if_false]
    rw [doc_eq c o docs tfs H s m I] at h0
    have hidx : m + s.cur < docs.length := by
      rcases Nat.lt_or_ge (m + s.cur) docs.length with h | h
      · exact h
      · rw [getD_of_le docs _ c.T h] at h0; omega
    have hcur_lt : docs.getD (m + s.cur) 0 < t := by
      rw [getD_default_irrel docs _ c.T 0 hidx] at h0; omega
    have hrank_gt : m + s.cur < docs.countP (· < t) :=
      (sorted_lt_iff docs hsl t (m + s.cur) hidx).mp hcur_lt
    have hpre : ∀ j, j < m → docs.getD j 0 < t := by
      intro j hj
      exact (sorted_lt_iff docs hsl t j (by omega)).mpr (by omega)
    have I1 : Inv c o docs tfs { s with cur := min (s.cur + 1) (c.B - 1) } m :=
      ⟨I.blocks, I.le, by simp only; omega, I.pos⟩
    by_cases h1 : t ≤ doc c { s with cur := min (s.cur + 1) (c.B - 1) }
    · simp only [h1, if_true]
      refine ⟨m, I1, ?_⟩
      rw [doc_eq c o docs tfs H _ m I1] at h1
      have := rank_le_of_ge c docs tfs H t _ h1
      simp only at this ⊢
      omega
    · simp only [h1, if_false]
      have hk : (docs.length - m) / c.B = (docs.length - m) / c.B := rfl
      obtain ⟨m', hmm, hm'le, hbl, hpo, hpre', hlast'⟩ :=
        skipSeek_spec c o docs tfs H hfit t ht _ m s.posOffset hk I.le I.pos hpre
      rw [← I.blocks] at hbl hpo
      have I2 : Inv c o docs tfs
          { blocks := (skipSeek c t s.blocks s.posOffset).1, cur := 0,
            posOffset := (skipSeek c t s.blocks s.posOffset).2 } m' :=
        ⟨hbl, hm'le, hB, hpo⟩
      have hs := search_landed c o docs tfs H _ m' I2 t ht hpre' hlast'
      refine ⟨m', ⟨hbl, hm'le, hs.2, hpo⟩, ?_⟩
      have := hs.1
      show min (m' + searchBlock c _ t) docs.length = _
      omega

/-! ### programs -/

theorem run_eq_specRun_gen (c : Cfg) (o : RecOpt) (docs tfs : List Nat) (H : Hyp c docs tfs)
    (hfit : BlockSumsFit c tfs) (ops : List Op) :
    ∀ (s : Cursor) (m : Nat), Inv c o docs tfs s m → (∀ t, Op.seek t ∈ ops → t ≤ c.T) →
      run c o s ops = specRun c.T o docs (obsTfs o tfs) ⟨min (m + s.cur) docs.length⟩ ops := by
  induction ops with
  | nil => intro s m _ _; rfl
  | cons op ops ih =>
    intro s m I hops
    have hops' : ∀ t, Op.seek t ∈ ops → t ≤ c.T := fun t ht => hops t (List.mem_cons_of_mem _ ht)
    cases op with
    | advance =>
      obtain ⟨m', I', hidx⟩ := advance_inv c o docs tfs H hfit s m I
      simp only [run, specRun, step, specStep]
      rw [observe_eq c o docs tfs H _ m' I', ih _ m' I' hops', hidx]
    | seek t =>
      have ht := hops t (by simp)
      obtain ⟨m', I', hidx⟩ := seek_inv c o docs tfs H hfit s m I t ht
      simp only [run, specRun, step, specStep]
      rw [observe_eq c o docs tfs H _ m' I', ih _ m' I' hops', hidx]

theorem run_eq_specRun (o : RecOpt) (docs tfs : List Nat) (hv : ValidList docs tfs)
    (hT : ∀ d ∈ docs, d < cfg.T) (hsum : BlockSumsFit cfg tfs)
    (ops : List Op) (hops : ∀ t, Op.seek t ∈ ops → t ≤ cfg.T) :
    run cfg o (Cursor.init (chunkBlocks cfg o (docs.length / cfg.B) docs tfs)) ops =
      specRun cfg.T o docs (obsTfs o tfs) ⟨0⟩ ops := by
  have H : Hyp cfg docs tfs := ⟨by decide, hv, hT, searchBlock_eq⟩
  have I : Inv cfg o docs tfs (Cursor.init (chunkBlocks cfg o (docs.length / cfg.B) docs tfs)) 0 :=
    ⟨by simp [Cursor.init], Nat.zero_le _, H.hB, fun _ => by simp [Cursor.init, posP]⟩
  have := run_eq_specRun_gen cfg o docs tfs H hsum ops _ 0 I hops
  simpa [Cursor.init] using this

end TantivyModel.Postings
