import TantivyModel.Model.Positions
import TantivyModel.Proofs.PostingsBasic
/-! the position stream of a term decodes to what was written; a document's positions are a slice -/
namespace TantivyModel.Positions
open TantivyModel.Postings

theorem encBlocks_widths_length (c : Cfg) (k : Nat) (l : List Nat) : (encBlocks c k l).1.length = k := by
  induction k generalizing l with
  | zero => simp [encBlocks]
  | succ k ih => simp [encBlocks, ih]

theorem decBlocks_encBlocks (c : Cfg) (hS : 2 ≤ c.S) (hP : GoodPacker c.B c.P) (k : Nat) :
    ∀ l : List Nat, k * c.B ≤ l.length →
      decBlocks c (encBlocks c k l).1 (encBlocks c k l).2 = some l := by
  induction k with
  | zero =>
    intro l _
    simp [encBlocks, decBlocks, VInt.decAll_encList c.S hS]
  | succ k ih =>
    intro l hl
    have hlen : c.B ≤ l.length := by
      have : (k + 1) * c.B = k * c.B + c.B := by rw [Nat.add_mul, Nat.one_mul]
      omega
    have htake : (l.take c.B).length = c.B := by simp; omega
    have hrest : k * c.B ≤ (l.drop c.B).length := by
      have : (k + 1) * c.B = k * c.B + c.B := by rw [Nat.add_mul, Nat.one_mul]
      simp; omega
    have ih' := ih (l.drop c.B) hrest
    have hpl := hP.pack_length (numBits (l.take c.B)) _ htake
    simp only [encBlocks, decBlocks, List.length_append]
    rw [if_neg (by omega)]
    have hdrop : (c.P.pack (numBits (l.take c.B)) (l.take c.B) ++ (encBlocks c k (l.drop c.B)).2).drop
        (numBits (l.take c.B) * c.B / 8) = (encBlocks c k (l.drop c.B)).2 := by
      rw [← hpl]; simp
    rw [hdrop, ih', hP.unpack_pack _ _ _ htake (lt_two_pow_numBits _)]
    simp

theorem decode_encode (c : Cfg) (hB : 0 < c.B) (hS : 2 ≤ c.S) (hP : GoodPacker c.B c.P) (ds : List Nat) :
    decode c (encode c ds) = some ds := by
  unfold decode encode
  simp only [List.append_assoc]
  rw [VInt.dec_enc c.S hS]
  simp only [List.length_append]
  rw [if_neg (by omega)]
  simp only [List.take_left', List.drop_left']
  exact decBlocks_encBlocks c hS hP _ ds (Nat.div_mul_le_self _ _)

theorem slice_flatten (L : List (List Nat)) (i : Nat) :
    (L.flatten.drop (((L.take i).map List.length).sum)).take (L.getD i []).length = L.getD i [] := by
  induction L generalizing i with
  | nil => simp
  | cons a t ih =>
    cases i with
    | zero => simp
    | succ i =>
      have := ih i
      simp only [List.take_succ_cons, List.map_cons, List.sum_cons, List.flatten_cons,
        List.getD_cons_succ]
      rw [List.drop_append, List.drop_eq_nil_of_le (by omega), List.nil_append]
      have e : a.length + ((t.take i).map List.length).sum - a.length = ((t.take i).map List.length).sum := by
        omega
      rw [e]; exact this

theorem read_slice (c : Cfg) (hB : 0 < c.B) (hS : 2 ≤ c.S) (hP : GoodPacker c.B c.P)
    (perDoc : List (List Nat)) (i : Nat) (_hi : i < perDoc.length) :
    read c (encode c perDoc.flatten) (((perDoc.take i).map List.length).sum)
      (perDoc.getD i []).length = some (perDoc.getD i []) := by
  unfold read
  rw [decode_encode c hB hS hP]
  simp only [Option.map_some, slice_flatten]

end TantivyModel.Positions
