import TantivyModel.Model.Storage
/-!
Soundness of the crash-image enumerator of the quick tier (`quickImages ⊆ CrashImage`).
-/
namespace TantivyModel.Storage

/-- every path that is visible was recorded in `paths`, every atomic path that has a version
was recorded in `apaths` (true of `Dir.empty`, preserved by every step) -/
structure Cover (s : Dir) : Prop where
  files : ∀ p, p ∉ s.paths → (s.file p).vis = false ∧ (s.file p).dur = false
  atoms : ∀ p, p ∉ s.apaths → (s.atom p).dur = none ∧ (s.atom p).pend = []

theorem mem_addPath (l : List Path) (p q : Path) : q ∈ addPath l p ↔ q = p ∨ q ∈ l := by
  unfold addPath
  by_cases h : l.contains p = true
  · have h' : p ∈ l := by simpa using h
    simp only [h, if_true]
    constructor
    · intro hq; exact Or.inr hq
    · rintro (rfl | hq)
      · exact h'
      · exact hq
  · have h' : p ∉ l := by simpa using h
    simp [h']

theorem cover_empty : Cover Dir.empty := ⟨fun _ _ => ⟨rfl, rfl⟩, fun _ _ => ⟨rfl, rfl⟩⟩

theorem Cover.step {s : Dir} (h : Cover s) (op : Op) : Cover (s.step op) := by
  cases op with
  | create q =>
    refine ⟨?_, h.atoms⟩
    intro p hp
    simp only [Dir.step, mem_addPath, not_or] at hp
    simpa [Dir.step, upd_other _ _ _ _ hp.1] using h.files p hp.2
  | write q n =>
    refine ⟨?_, h.atoms⟩
    intro p hp
    by_cases hq : p = q
    · subst hq; simpa [Dir.step] using h.files p hp
    · simpa [Dir.step, upd_other _ _ _ _ hq] using h.files p hp
  | flush q =>
    refine ⟨?_, h.atoms⟩
    intro p hp
    by_cases hq : p = q
    · subst hq; simpa [Dir.step] using h.files p hp
    · simpa [Dir.step, upd_other _ _ _ _ hq] using h.files p hp
  | terminate q =>
    refine ⟨?_, h.atoms⟩
    intro p hp
    by_cases hq : p = q
    · subst hq; simpa [Dir.step] using h.files p hp
    · simpa [Dir.step, upd_other _ _ _ _ hq] using h.files p hp
  | delete q =>
    refine ⟨?_, h.atoms⟩
    intro p hp
    by_cases hq : p = q
    · subst hq; simpa [Dir.step] using (h.files p hp).2
    · simpa [Dir.step, upd_other _ _ _ _ hq] using h.files p hp
  | syncDir =>
    refine ⟨?_, ?_⟩
    · intro p hp
      have := h.files p hp
      simp [Dir.step, FileSt.sync, this.1]
    · intro p hp
      have := h.atoms p hp
      simp [Dir.step, AtomSt.sync, AtomSt.visible, this.1, this.2]
  | atomicWrite q b =>
    refine ⟨h.files, ?_⟩
    intro p hp
    simp only [Dir.step, mem_addPath, not_or] at hp
    simpa [Dir.step, upd_other _ _ _ _ hp.1] using h.atoms p hp.2
  | ack c => exact h

theorem Cover.run {s : Dir} (h : Cover s) (t : List Op) : Cover (s.run t) := by
  induction t generalizing s with
  | nil => exact h
  | cons op t ih => exact ih (h.step op)

/-! ### tables built from a function -/

def tab {α : Type} (l : List Path) (f : Path → Option α) : List (Path × Option α) := l.map (fun p => (p, f p))

theorem lookupD_tab {α : Type} (l : List Path) (f : Path → Option α) (p : Path) :
    lookupD (tab l f) p = if p ∈ l then f p else none := by
  induction l with
  | nil => simp [tab, lookupD]
  | cons q t ih =>
    unfold tab lookupD at *
    simp only [List.map_cons, List.lookup_cons]
    by_cases hq : p = q
    · subst hq; simp
    · have : (p == q) = false := by simpa using hq
      simp only [this, List.mem_cons, hq, false_or]
      exact ih

theorem setEntry_tab {α : Type} (l : List Path) (f : Path → Option α) (q : Path) (v : Option α) :
    setEntry (tab l f) q v = tab l (fun p => if p = q then v else f p) := by
  unfold setEntry tab
  simp only [List.map_map]
  apply List.map_congr_left
  intro p _
  by_cases h : p = q <;> simp [h]

/-- an image given by per-path choices that are allowed on the touched paths is a crash image -/
theorem crashImage_of_tab (s : Dir) (hc : Cover s) (fi : Path → Option (Nat × Bool)) (ai : Path → Option Payload)
    (hf : ∀ p ∈ s.paths, (s.file p).outcome (fi p) = true)
    (ha : ∀ p ∈ s.apaths, ai p ∈ (s.atom p).options) :
    CrashImage s (LImage.toImage { files := tab s.paths fi, atoms := tab s.apaths ai }) := by
  constructor
  · intro p
    simp only [LImage.toImage, lookupD_tab]
    by_cases hp : p ∈ s.paths
    · simp only [hp, if_true]; exact hf p hp
    · have := hc.files p hp
      simp [hp, FileSt.outcome, this.1]
  · intro p
    simp only [LImage.toImage, lookupD_tab]
    by_cases hp : p ∈ s.apaths
    · simp only [hp, if_true]; exact ha p hp
    · have := hc.atoms p hp
      simp [hp, AtomSt.options, this.1]

/-! ### the per-path choices of the quick images are allowed -/

def fApplied (s : Dir) (p : Path) : Option (Nat × Bool) :=
  if (s.file p).vis then some ((s.file p).written, (s.file p).term) else none

def fLost (s : Dir) (p : Path) : Option (Nat × Bool) :=
  if (s.file p).dur then some (if (s.file p).term then (s.file p).written else 0, (s.file p).term) else none

theorem allApplied_eq (s : Dir) :
    s.allApplied = { files := tab s.paths (fApplied s), atoms := tab s.apaths (fun p => (s.atom p).visible) } := rfl

theorem allLost_eq (s : Dir) :
    s.allLost = { files := tab s.paths (fLost s), atoms := tab s.apaths (fun p => (s.atom p).dur) } := rfl

theorem outcome_applied (st : FileSt) :
    st.outcome (if st.vis then some (st.written, st.term) else none) = true := by
  cases hv : st.vis <;> cases ht : st.term <;> simp [FileSt.outcome, hv, ht]

theorem outcome_lost (st : FileSt) :
    st.outcome (if st.dur then some (if st.term then st.written else 0, st.term) else none) = true := by
  cases hd : st.dur <;> cases ht : st.term <;> simp [FileSt.outcome, hd, ht]

theorem outcome_none (st : FileSt) (h : (st.dur && st.vis && !st.churn) = false) : st.outcome none = true := by
  simp [FileSt.outcome, h]

theorem outcome_full (st : FileSt) (h : (st.dur || st.vis || st.churn) = true) :
    st.outcome (some (st.written, st.term)) = true := by
  cases ht : st.term <;> simp [FileSt.outcome, h, ht]

theorem outcome_trunc (st : FileSt) (n : Nat) (hv : st.vis = true) (ht : st.term = false) (hn : n < st.written) :
    st.outcome (some (n, false)) = true := by
  simp [FileSt.outcome, hv, ht]
  omega

theorem visible_mem_options (a : AtomSt) : a.visible ∈ a.options := by
  unfold AtomSt.visible AtomSt.options
  cases h : a.pend.getLast? with
  | none => simp
  | some b =>
    simp only [List.mem_cons, List.mem_map]
    exact Or.inr ⟨b, List.mem_of_getLast? h, rfl⟩

theorem dur_mem_options (a : AtomSt) : a.dur ∈ a.options := by simp [AtomSt.options]

theorem mem_enumFrom {α : Type} (l : List α) (k i : Nat) (x : α) (h : (i, x) ∈ enumFrom k l) : x ∈ l := by
  induction l generalizing k with
  | nil => simp [enumFrom] at h
  | cons a t ih =>
    simp only [enumFrom, List.mem_cons, Prod.mk.injEq] at h
    rcases h with ⟨_, rfl⟩ | h
    · simp
    · exact List.mem_cons_of_mem _ (ih _ h)

theorem mem_truncPoints (n k : Nat) (h : k ∈ truncPoints n) : k < n := by
  unfold truncPoints at h
  have := List.mem_eraseDups.mp h
  simpa using (List.mem_filter.mp this).2

end TantivyModel.Storage

namespace TantivyModel.Storage

theorem mem_ite_singleton {α : Type} (c : Bool) (x y : α) (h : y ∈ (if c = true then [x] else [])) :
    c = true ∧ y = x := by
  cases c with
  | true => simpa using h
  | false => simp at h

theorem upd_allowed (s : Dir) (f : Path → Option (Nat × Bool))
    (hf : ∀ p ∈ s.paths, (s.file p).outcome (f p) = true) (q : Path) (v : Option (Nat × Bool))
    (hv : (s.file q).outcome v = true) :
    ∀ p ∈ s.paths, (s.file p).outcome ((fun p => if p = q then v else f p) p) = true := by
  intro p hp
  by_cases h : p = q
  · subst h; simpa using hv
  · simpa [h] using hf p hp

theorem upd_allowed_atom (s : Dir) (g : Path → Option Payload)
    (hg : ∀ p ∈ s.apaths, g p ∈ (s.atom p).options) (q : Path) (v : Option Payload)
    (hv : v ∈ (s.atom q).options) :
    ∀ p ∈ s.apaths, (fun p => if p = q then v else g p) p ∈ (s.atom p).options := by
  intro p hp
  by_cases h : p = q
  · subst h; simpa using hv
  · simpa [h] using hg p hp

/-- **soundness of the quick-tier enumerator**: every image `quickImages` produces is one the
fault model allows (`CrashImage`), for every directory state reached from the empty directory -/
theorem quickImages_sound (s : Dir) (hc : Cover s) (ni : NamedImage) (h : ni ∈ quickImages s) :
    CrashImage s ni.img.toImage := by
  have hA : ∀ p ∈ s.paths, (s.file p).outcome (fApplied s p) = true := fun p _ => outcome_applied _
  have hL : ∀ p ∈ s.paths, (s.file p).outcome (fLost s p) = true := fun p _ => outcome_lost _
  have aA : ∀ p ∈ s.apaths, (s.atom p).visible ∈ (s.atom p).options := fun p _ => visible_mem_options _
  have aL : ∀ p ∈ s.apaths, (s.atom p).dur ∈ (s.atom p).options := fun p _ => dur_mem_options _
  unfold quickImages at h
  simp only [allApplied_eq, allLost_eq, setEntry_tab, List.mem_append, List.mem_cons, List.mem_flatMap,
    List.not_mem_nil, or_false, List.mem_map] at h
  rcases h with ((rfl | rfl) | ⟨p, _, hp⟩) | ⟨p, _, ⟨i, o⟩, hio, hp⟩
  · exact crashImage_of_tab s hc _ _ hA aA
  · exact crashImage_of_tab s hc _ _ hL aL
  · rcases hp with (((h2 | h3) | h5) | h6) | hn
    · obtain ⟨hcnd, rfl⟩ := mem_ite_singleton _ _ _ h2
      simp only [Bool.and_eq_true, Bool.not_eq_true'] at hcnd
      exact crashImage_of_tab s hc _ _ (upd_allowed s _ hA p none (outcome_none _ (by
        have := hcnd.2; cases hd : (s.file p).dur <;> cases hch : (s.file p).churn <;> simp_all))) aA
    · obtain ⟨hcnd, rfl⟩ := mem_ite_singleton _ _ _ h3
      simp only [Bool.and_eq_true, Bool.not_eq_true'] at hcnd
      exact crashImage_of_tab s hc _ _ (upd_allowed s _ hA p _ (outcome_full _ (by
        have := hcnd.2; cases hd : (s.file p).dur <;> cases hch : (s.file p).churn <;> simp_all))) aA
    · obtain ⟨hcnd, rfl⟩ := mem_ite_singleton _ _ _ h5
      simp only [Bool.and_eq_true, Bool.not_eq_true'] at hcnd
      exact crashImage_of_tab s hc _ _ (upd_allowed s _ hL p _ (outcome_full _ (by
        have := hcnd.2; cases hd : (s.file p).vis <;> cases hch : (s.file p).churn <;> simp_all))) aL
    · obtain ⟨hcnd, rfl⟩ := mem_ite_singleton _ _ _ h6
      simp only [Bool.and_eq_true, Bool.not_eq_true'] at hcnd
      exact crashImage_of_tab s hc _ _ (upd_allowed s _ hL p none (outcome_none _ (by
        have := hcnd.2; cases hd : (s.file p).vis <;> cases hch : (s.file p).churn <;> simp_all))) aL
    · by_cases hcnd : ((s.file p).vis && !(s.file p).term) = true
      · simp only [hcnd, if_true, List.mem_map] at hn
        obtain ⟨k, hk, rfl⟩ := hn
        simp only [Bool.and_eq_true, Bool.not_eq_true'] at hcnd
        exact crashImage_of_tab s hc _ _ (upd_allowed s _ hA p _
          (outcome_trunc _ k hcnd.1 hcnd.2 (mem_truncPoints _ _ hk))) aA
      · simp [hcnd] at hn
  · have ho : o ∈ (s.atom p).options := mem_enumFrom _ _ _ _ hio
    rcases hp with h4 | h7
    · obtain ⟨_, rfl⟩ := mem_ite_singleton _ _ _ h4
      exact crashImage_of_tab s hc _ _ hA (upd_allowed_atom s _ aA p o ho)
    · obtain ⟨_, rfl⟩ := mem_ite_singleton _ _ _ h7
      exact crashImage_of_tab s hc _ _ hL (upd_allowed_atom s _ aL p o ho)

/-! ### the full enumerator -/

theorem outcomes_allowed (st : FileSt) (o : Option (Nat × Bool)) (h : o ∈ st.outcomes) : st.outcome o = true := by
  unfold FileSt.outcomes at h
  rcases List.mem_append.mp h with h | h
  · by_cases hc : (st.dur && st.vis && !st.churn) = true
    · simp [hc] at h
    · simp only [hc, Bool.false_eq_true, if_false, List.mem_singleton] at h
      subst h
      have hc' : (st.dur && st.vis && !st.churn) = false := by simpa using hc
      simp [FileSt.outcome, hc']
  · by_cases hp : (st.dur || st.vis || st.churn) = true
    · simp only [hp, if_true] at h
      by_cases ht : st.term = true
      · simp only [ht, if_true, List.mem_singleton] at h
        subst h
        simp [FileSt.outcome, hp, ht]
      · have ht' : st.term = false := by simpa using ht
        simp only [ht', Bool.false_eq_true, if_false, List.mem_append, List.mem_map, List.mem_range,
          List.mem_singleton] at h
        rcases h with ⟨n, hn, rfl⟩ | rfl
        · simp [FileSt.outcome, hp, ht']; omega
        · simp [FileSt.outcome, hp, ht']
    · simp [hp] at h

theorem prodOutcomes_entries {α : Type} (tbl : List (Path × List α)) (l : List (Path × α))
    (h : l ∈ prodOutcomes tbl) : ∀ e ∈ l, ∃ os, (e.1, os) ∈ tbl ∧ e.2 ∈ os := by
  induction tbl generalizing l with
  | nil =>
    simp only [prodOutcomes, List.mem_singleton] at h
    subst h
    intro e he; cases he
  | cons t rest ih =>
    obtain ⟨p, os⟩ := t
    simp only [prodOutcomes, List.mem_flatMap, List.mem_map] at h
    obtain ⟨o, ho, r, hr, rfl⟩ := h
    intro e he
    rcases List.mem_cons.mp he with rfl | he
    · exact ⟨os, by simp, ho⟩
    · obtain ⟨os', h1, h2⟩ := ih r hr e he
      exact ⟨os', List.mem_cons_of_mem _ h1, h2⟩

theorem prodOutcomes_keys {α : Type} (tbl : List (Path × List α)) (l : List (Path × α))
    (h : l ∈ prodOutcomes tbl) : l.map Prod.fst = tbl.map Prod.fst := by
  induction tbl generalizing l with
  | nil =>
    simp only [prodOutcomes, List.mem_singleton] at h
    subst h; rfl
  | cons t rest ih =>
    obtain ⟨p, os⟩ := t
    simp only [prodOutcomes, List.mem_flatMap, List.mem_map] at h
    obtain ⟨o, _, r, hr, rfl⟩ := h
    simp [ih r hr]

theorem lookupD_mem {α : Type} (l : List (Path × Option α)) (p : Path) :
    (∃ v, (p, v) ∈ l ∧ lookupD l p = v) ∨ (p ∉ l.map Prod.fst ∧ lookupD l p = none) := by
  induction l with
  | nil => right; simp [lookupD]
  | cons e t ih =>
    obtain ⟨q, w⟩ := e
    by_cases hq : p = q
    · subst hq
      left
      exact ⟨w, by simp, by simp [lookupD]⟩
    · have hb : (p == q) = false := by simpa using hq
      rcases ih with ⟨v, hv, hl⟩ | ⟨hn, hl⟩
      · left
        refine ⟨v, List.mem_cons_of_mem _ hv, ?_⟩
        unfold lookupD at hl ⊢
        simpa [List.lookup_cons, hb] using hl
      · right
        refine ⟨by simpa [hq] using hn, ?_⟩
        unfold lookupD at hl ⊢
        simpa [List.lookup_cons, hb] using hl

/-- **soundness of the full enumerator**: every element of `crashImages s` is a crash image -/
theorem crashImages_sound (s : Dir) (hc : Cover s) (img : LImage) (h : img ∈ crashImages s) :
    CrashImage s img.toImage := by
  unfold crashImages at h
  simp only [List.mem_flatMap, List.mem_map] at h
  obtain ⟨fs, hfs, as, has, rfl⟩ := h
  constructor
  · intro p
    simp only [LImage.toImage]
    rcases lookupD_mem fs p with ⟨v, hv, hl⟩ | ⟨hn, hl⟩
    · rw [hl]
      obtain ⟨os, h1, h2⟩ := prodOutcomes_entries _ fs hfs (p, v) hv
      simp only [List.mem_map, Prod.mk.injEq] at h1
      obtain ⟨q, _, rfl, rfl⟩ := h1
      exact outcomes_allowed _ _ h2
    · rw [hl]
      rw [prodOutcomes_keys _ fs hfs] at hn
      have hp : p ∉ s.paths := by
        intro hp
        apply hn
        simp only [List.map_map, List.mem_map, Function.comp]
        exact ⟨p, hp, rfl⟩
      have := hc.files p hp
      simp [FileSt.outcome, this.1]
  · intro p
    simp only [LImage.toImage]
    rcases lookupD_mem as p with ⟨v, hv, hl⟩ | ⟨hn, hl⟩
    · rw [hl]
      obtain ⟨os, h1, h2⟩ := prodOutcomes_entries _ as has (p, v) hv
      simp only [List.mem_map, Prod.mk.injEq] at h1
      obtain ⟨q, _, rfl, rfl⟩ := h1
      exact h2
    · rw [hl]
      rw [prodOutcomes_keys _ as has] at hn
      have hp : p ∉ s.apaths := by
        intro hp
        apply hn
        simp only [List.map_map, List.mem_map, Function.comp]
        exact ⟨p, hp, rfl⟩
      have := hc.atoms p hp
      simp [AtomSt.options, this.1]

end TantivyModel.Storage
