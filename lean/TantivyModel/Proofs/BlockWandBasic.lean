import TantivyModel.Model.BlockWand
import TantivyModel.Proofs.WandRun
/-!
Basic facts about the `TermScorer` model with `Nat` scores: every move of a scorer is a `seekP`
of its remaining postings; totals of a scorer array.
-/
namespace TantivyModel.BlockWand
open List TantivyModel.Wand

abbrev S := TS Nat

theorem sc_add (a b : Nat) : Sc.add a b = a + b := rfl
theorem sc_zero : (Sc.zero : Nat) = 0 := rfl
theorem sc_gt (a b : Nat) : Sc.gt a b = decide (b < a) := rfl

/-- the remaining postings of the scorers -/
def posts (arr : List S) : List Postings := arr.map (·.rest)
/-- total score of a document over the array -/
def tot (arr : List S) (d : Nat) : Nat := unionTotal (posts arr) d

/-- static well-formedness of a scorer, including the bound hypotheses `UB_max` and `UB_block` -/
structure WF (s : S) : Prop where
  asc : Asc s.rest
  lt : ∀ p, p ∈ s.rest → p.1 < T
  ubMax : ∀ p, p ∈ s.rest → p.2 ≤ s.maxScore
  ubBlk : ∀ p, p ∈ s.rest → (∀ l bm, s.blocks[s.blockIdx p.1]? = some (l, bm) → p.2 ≤ bm) ∧
    (s.blocks[s.blockIdx p.1]? = none → p.2 ≤ s.tailMax)
  blocksAsc : s.blocks.Pairwise (fun a b => a.1 < b.1)

theorem doc_le_of_mem {s : S} (h : Asc s.rest) {p : Nat × Nat} (hp : p ∈ s.rest) : s.doc ≤ p.1 := by
  unfold TS.doc
  cases hr : s.rest with
  | nil => rw [hr] at hp; cases hp
  | cons x xs =>
    obtain ⟨d, sc⟩ := x
    rw [hr] at hp h
    simp only
    unfold Asc at h
    rw [pairwise_cons] at h
    rcases mem_cons.mp hp with rfl | hp
    · exact Nat.le_refl _
    · exact Nat.le_of_lt (h.1 p hp)

theorem doc_lt_T {s : S} (h : ∀ p, p ∈ s.rest → p.1 < T) (hne : s.rest ≠ []) : s.doc < T := by
  unfold TS.doc
  cases hr : s.rest with
  | nil => exact absurd hr hne
  | cons x xs => obtain ⟨d, sc⟩ := x; exact h (d, sc) (by rw [hr]; simp)

theorem doc_eq_T_of_nil {s : S} (h : s.rest = []) : s.doc = T := by unfold TS.doc; rw [h]

theorem rest_nil_of_doc_T {s : S} (hlt : ∀ p, p ∈ s.rest → p.1 < T) (h : s.doc = T) : s.rest = [] := by
  cases hr : s.rest with
  | nil => rfl
  | cons x xs =>
    exfalso
    have := doc_lt_T hlt (by rw [hr]; simp)
    omega

/-- on ascending postings starting at `d < t ≤ next`, dropping the head is `seekP` -/
theorem tail_eq_seekP {p : Postings} (h : Asc p) {d sc : Nat} {tl : Postings} (hp : p = (d, sc) :: tl)
    (t : Nat) (hd : d < t) (hnext : ∀ x, x ∈ tl → t ≤ x.1) : tl = seekP p t := by
  subst hp
  unfold seekP
  rw [dropWhile_cons_of_pos (by simpa using hd)]
  cases tl with
  | nil => rfl
  | cons y ys =>
    rw [dropWhile_cons_of_neg]
    have := hnext y (by simp)
    simpa using this

theorem seek_rest (s : S) (h : Asc s.rest) (t : Nat) : (s.seek t).rest = seekP s.rest t := by
  unfold TS.seek
  split
  · -- already there: nothing before t
    rename_i hle
    unfold seekP
    cases hr : s.rest with
    | nil => rfl
    | cons x xs =>
      have hd : s.doc = x.1 := by unfold TS.doc; rw [hr]
      rw [dropWhile_cons_of_neg]
      simp only [decide_eq_true_eq]; omega
  · rename_i hlt
    split
    · rename_i hnext
      simp only [Bool.and_eq_true, Bool.not_eq_true', decide_eq_true_eq] at hnext
      cases hr : s.rest with
      | nil => simp [seekP]
      | cons x xs =>
        obtain ⟨d, sc⟩ := x
        have hd : s.doc = d := by unfold TS.doc; rw [hr]
        show xs = seekP ((d, sc) :: xs) t
        rw [hr] at h
        apply tail_eq_seekP h rfl t (by omega)
        intro y hy
        have hn := hnext.2
        unfold TS.nextDoc at hn
        rw [hr] at hn
        simp only [tail_cons] at hn
        cases xs with
        | nil => cases hy
        | cons z zs =>
          simp only at hn
          unfold Asc at h
          rw [pairwise_cons, pairwise_cons] at h
          rcases mem_cons.mp hy with rfl | hy
          · exact hn
          · have := h.2.1 y hy; omega
    · rfl

theorem seekBlock_rest (s : S) (t : Nat) : (s.seekBlock t).rest = s.rest := by
  unfold TS.seekBlock; dsimp only; split <;> rfl
theorem seekBlock_maxScore (s : S) (t : Nat) : (s.seekBlock t).maxScore = s.maxScore := by
  unfold TS.seekBlock; dsimp only; split <;> rfl
theorem seekBlock_blocks (s : S) (t : Nat) : (s.seekBlock t).blocks = s.blocks := by
  unfold TS.seekBlock; dsimp only; split <;> rfl
theorem seekBlock_tailMax (s : S) (t : Nat) : (s.seekBlock t).tailMax = s.tailMax := by
  unfold TS.seekBlock; dsimp only; split <;> rfl
theorem seek_maxScore (s : S) (t : Nat) : (s.seek t).maxScore = s.maxScore := by
  unfold TS.seek; split
  · rfl
  · split
    · rfl
    · exact seekBlock_maxScore s t
theorem seek_blocks (s : S) (t : Nat) : (s.seek t).blocks = s.blocks := by
  unfold TS.seek; split
  · rfl
  · split
    · rfl
    · exact seekBlock_blocks s t
theorem seek_tailMax (s : S) (t : Nat) : (s.seek t).tailMax = s.tailMax := by
  unfold TS.seek; split
  · rfl
  · split
    · rfl
    · exact seekBlock_tailMax s t

theorem advance_rest (s : S) : s.advance.rest = s.rest.tail := by
  unfold TS.advance; split <;> rfl

theorem advance_rest_seekP (s : S) (h : Asc s.rest) (hne : s.rest ≠ []) :
    s.advance.rest = seekP s.rest (s.doc + 1) := by
  rw [advance_rest]
  cases hr : s.rest with
  | nil => exact absurd hr hne
  | cons x xs =>
    obtain ⟨d, sc⟩ := x
    have hd : s.doc = d := by unfold TS.doc; rw [hr]
    rw [hr] at h
    simp only [tail_cons]
    apply tail_eq_seekP h rfl _ (by omega)
    intro y hy
    unfold Asc at h
    rw [pairwise_cons] at h
    have := h.1 y hy
    simp only at this
    omega

/-! ### well-formedness is preserved by every move -/

theorem WF.of_rest_sublist {s s' : S} (h : WF s) (hr : s'.rest.Sublist s.rest) (hm : s'.maxScore = s.maxScore)
    (hb : s'.blocks = s.blocks) (ht : s'.tailMax = s.tailMax) : WF s' where
  asc := Pairwise.sublist hr h.asc
  lt p hp := h.lt p (hr.subset hp)
  ubMax p hp := by rw [hm]; exact h.ubMax p (hr.subset hp)
  ubBlk p hp := by
    have := h.ubBlk p (hr.subset hp)
    unfold TS.blockIdx at this ⊢
    rw [hb, ht]; exact this
  blocksAsc := by rw [hb]; exact h.blocksAsc

theorem WF.seek {s : S} (h : WF s) (t : Nat) : WF (s.seek t) :=
  h.of_rest_sublist (by rw [seek_rest s h.asc]; exact seekP_sublist _ _) (seek_maxScore s t)
    (seek_blocks s t) (seek_tailMax s t)

theorem WF.seekBlock {s : S} (h : WF s) (t : Nat) : WF (s.seekBlock t) :=
  h.of_rest_sublist (by rw [seekBlock_rest]; exact Sublist.refl _) (seekBlock_maxScore s t)
    (seekBlock_blocks s t) (seekBlock_tailMax s t)

theorem WF.advance {s : S} (h : WF s) : WF s.advance := by
  apply h.of_rest_sublist
  · rw [advance_rest]; exact tail_sublist _
  all_goals (unfold TS.advance; split <;> rfl)

/-! ### totals -/

theorem tot_cons (s : S) (arr : List S) (d : Nat) : tot (s :: arr) d = scoreIn s.rest d + tot arr d := by
  simp [tot, posts, unionTotal_cons]

theorem tot_append (a b : List S) (d : Nat) : tot (a ++ b) d = tot a d + tot b d := by
  induction a with
  | nil => simp [tot, posts, unionTotal]
  | cons x xs ih => simp only [cons_append, tot_cons, ih]; omega

theorem tot_perm {a b : List S} (h : a ~ b) (d : Nat) : tot a d = tot b d := by
  induction h with
  | nil => rfl
  | cons x _ ih => simp only [tot_cons, ih]
  | swap x y l => simp only [tot_cons]; omega
  | trans _ _ ih₁ ih₂ => exact ih₁.trans ih₂

/-- a scorer none of whose postings is `d` contributes nothing at `d` -/
theorem tot_eq_zero (arr : List S) (d : Nat) (h : ∀ s, s ∈ arr → ∀ p, p ∈ s.rest → p.1 ≠ d) :
    tot arr d = 0 := by
  unfold tot
  apply unionTotal_eq_zero
  intro p hp x hx
  obtain ⟨s, hs, rfl⟩ := mem_map.mp hp
  exact h s hs x hx

theorem tot_le_sum_max (arr : List S) (hub : ∀ s, s ∈ arr → ∀ p, p ∈ s.rest → p.2 ≤ s.maxScore) (d : Nat) :
    tot arr d ≤ (arr.map (·.maxScore)).sum := by
  induction arr with
  | nil => simp [tot, posts, unionTotal]
  | cons s arr ih =>
    rw [tot_cons]
    have h1 : scoreIn s.rest d ≤ s.maxScore := by
      unfold scoreIn
      cases hf : s.rest.find? (·.1 == d) with
      | none => exact Nat.zero_le _
      | some p => exact hub s (by simp) p (mem_of_find?_eq_some hf)
    have := ih fun s' hs' => hub s' (by simp [hs'])
    simp only [map_cons, sum_cons]
    omega

theorem sumBy_eq (f : S → Nat) (l : List S) : sumBy f l = (l.map f).sum := by
  unfold sumBy
  have : ∀ acc, l.foldl (fun acc s => Sc.add acc (f s)) acc = acc + (l.map f).sum := by
    induction l with
    | nil => intro acc; simp
    | cons x xs ih =>
      intro acc
      simp only [foldl_cons, map_cons, sum_cons]
      rw [ih]; simp only [sc_add]; omega
  rw [this, sc_zero]; omega

end TantivyModel.BlockWand
