import TantivyModel.Proofs.WriterRefine2
import TantivyModel.Model.WriterHistory
/-!
The hypotheses of the refinement theorem read off the API history alone: a scan of the history
with three flags decides them, and the flags bound the state (`FlagInv`), so that the
history-level conditions imply the state-level ones (`cleanState`, no delete stamped with the
commit opstamp) at every step of every run with that history.
-/
namespace TantivyModel.Writer
open TantivyModel.WriterSpec

variable {α : Type} [DecidableEq α]

/-- the history-level hypotheses -/
def okOp (f : HFlags) : Op α → Prop
  | .deleteAll => f.txDirty = false ∧ f.sessDel = false
  | .del _ => f.fresh = false
  | .batch items => f.fresh = false ∨ firstIsDel items = false
  | _ => True

def okHist (f : HFlags) : List (Op α) → Prop
  | [] => True
  | op :: ops => okOp f op ∧ okHist (hstepOp f op) ops

omit [DecidableEq α] in
theorem okOpB_iff (f : HFlags) (op : Op α) : okOpB f op = true ↔ okOp f op := by
  cases op <;> simp [okOpB, okOp]

omit [DecidableEq α] in
/-- the executable scan the driver answers with decides exactly the hypothesis of the theorem -/
theorem okHistB_iff (f : HFlags) (h : List (Op α)) : okHistB f h = true ↔ okHist f h := by
  induction h generalizing f with
  | nil => simp [okHistB, okHist]
  | cons op ops ih => simp [okHistB, okHist, okOpB_iff, ih]

def flagsAfter (f : HFlags) (e : Event α) : HFlags :=
  match e.toOp with
  | some op => hstepOp f op
  | none => f

/-- what the flags say about a state -/
structure FlagInv (f : HFlags) (s : WState α) : Prop where
  tx : f.txDirty = false →
    s.channel = [] ∧ s.inflight = [] ∧ s.uncommitted = [] ∧ ∀ w ∈ s.workers, w.seg = none
  sess : f.sessDel = false → s.log = []
  stamp : s.committed = [] ∨ (s.metas.opstamp ≤ s.stamper ∧ (f.fresh = true ∨ s.metas.opstamp < s.stamper))

theorem batchDels_nil_of_noDel (items : List (Item α)) (st : Nat) (h : hasDel items = false) :
    batchDels (stampItems st items) = [] := by
  induction items generalizing st with
  | nil => rfl
  | cons it rest ih =>
    cases it with
    | add d =>
      have h' : hasDel rest = false := by simpa [hasDel] using h
      simp only [stampItems, batchDels, List.filterMap_cons]
      exact ih (st + 1) h'
    | del q => simp [hasDel] at h

theorem flag_init (n : Nat) : FlagInv HFlags.init (WState.init n : WState α) := by
  refine ⟨fun _ => ⟨rfl, rfl, rfl, ?_⟩, fun _ => rfl, Or.inl rfl⟩
  intro w hw
  simp only [WState.init, List.mem_replicate] at hw
  rw [hw.2]

/-- the two sub-steps of a producer call (the theorems of this file are about atomic calls) -/
def isSubstep : Event α → Bool
  | .stamp _ => true
  | .publish _ => true
  | _ => false

theorem flag_step (s s' : WState α) (f : HFlags) (e : Event α) (r : Nat) (hf : FlagInv f s) (hm : MInv s)
    (hns : isSubstep e = false) (hstep : step s e = some (s', r)) : FlagInv (flagsAfter f e) s' := by
  obtain ⟨f1, f2, f3⟩ := hf
  have grow3 : ∀ (n : Nat) (b : Bool), s.committed = [] ∨ (s.metas.opstamp ≤ s.stamper + n + 1 ∧ (b = true ∨ s.metas.opstamp < s.stamper + n + 1)) := by
    intro n b
    rcases f3 with h | ⟨h, _⟩
    · exact Or.inl h
    · exact Or.inr ⟨by omega, Or.inr (by omega)⟩
  cases e with
  | add d =>
    simp only [step, Option.some.injEq, Prod.mk.injEq] at hstep
    obtain ⟨rfl, _⟩ := hstep
    exact ⟨fun h => by simp [flagsAfter, Event.toOp, hstepOp] at h, f2, by simpa using grow3 0 _⟩
  | del q =>
    simp only [step, Option.some.injEq, Prod.mk.injEq] at hstep
    obtain ⟨rfl, _⟩ := hstep
    exact ⟨fun h => by simp [flagsAfter, Event.toOp, hstepOp] at h,
      fun h => by simp [flagsAfter, Event.toOp, hstepOp] at h, by simpa using grow3 0 _⟩
  | batch items =>
    simp only [step, batch_fold, List.nil_append, Option.some.injEq, Prod.mk.injEq] at hstep
    obtain ⟨rfl, _⟩ := hstep
    refine ⟨?_, ?_, ?_⟩
    · intro h
      simp only [flagsAfter, Event.toOp, hstepOp, Bool.or_eq_false_iff, Bool.not_eq_false'] at h
      have he : items = [] := List.isEmpty_iff.mp h.2
      subst he
      simpa [stampItems, batchAdds] using f1 h.1
    · intro h
      simp only [flagsAfter, Event.toOp, hstepOp, Bool.or_eq_false_iff] at h
      show s.log ++ batchDels (stampItems s.stamper items) = []
      rw [batchDels_nil_of_noDel items s.stamper h.2, List.append_nil]
      exact f2 h.1
    · exact grow3 items.length _
  | deleteAll =>
    simp only [step, Option.some.injEq, Prod.mk.injEq] at hstep
    obtain ⟨rfl, _⟩ := hstep
    refine ⟨fun h => ?_, f2, Or.inl rfl⟩
    obtain ⟨a, b, _, d⟩ := f1 h
    exact ⟨a, b, rfl, d⟩
  | commit p =>
    simp only [step] at hstep
    split at hstep
    · rename_i hq
      simp only [Option.some.injEq, Prod.mk.injEq] at hstep
      obtain ⟨rfl, _⟩ := hstep
      obtain ⟨hch, _, hin⟩ := quiescent_iff s hq
      refine ⟨fun _ => ⟨hch, hin, rfl, ?_⟩, f2, Or.inr ⟨?_, Or.inr ?_⟩⟩
      · intro w hw
        simp only [saveMetas, List.mem_map] at hw
        obtain ⟨_, _, rfl⟩ := hw
        rfl
      · show s.stamper ≤ s.stamper + 1; omega
      · show s.stamper < s.stamper + 1; omega
    · cases hstep
  | rollback =>
    simp only [step, Option.some.injEq, Prod.mk.injEq] at hstep
    obtain ⟨rfl, _⟩ := hstep
    refine ⟨fun _ => ⟨rfl, rfl, rfl, ?_⟩, fun _ => rfl, Or.inr ⟨Nat.le_refl _, Or.inl rfl⟩⟩
    intro w hw
    simp only [List.mem_map] at hw
    obtain ⟨_, _, rfl⟩ := hw
    rfl
  | prepare =>
    simp only [step] at hstep
    split at hstep
    · simp only [Option.some.injEq, Prod.mk.injEq] at hstep
      obtain ⟨rfl, _⟩ := hstep
      refine ⟨fun h => ?_, f2, by simpa using grow3 0 _⟩
      obtain ⟨a, b, c, _⟩ := f1 h
      refine ⟨a, b, c, ?_⟩
      intro w hw
      simp only [List.mem_map] at hw
      obtain ⟨_, _, rfl⟩ := hw
      rfl
    · cases hstep
  | recv w =>
    simp only [step] at hstep
    split at hstep
    · rename_i b rest wk hc hwk
      have hdirty : f.txDirty = true := by
        cases h : f.txDirty
        · have := (f1 h).1; rw [hc] at this; cases this
        · rfl
      split at hstep
      · split at hstep
        · cases hstep
        · simp only [Option.some.injEq, Prod.mk.injEq] at hstep
          obtain ⟨rfl, _⟩ := hstep
          exact ⟨fun h => by simp [flagsAfter, Event.toOp, hdirty] at h, f2, f3⟩
      · simp only [Option.some.injEq, Prod.mk.injEq] at hstep
        obtain ⟨rfl, _⟩ := hstep
        exact ⟨fun h => by simp [flagsAfter, Event.toOp, hdirty] at h, f2, f3⟩
    · cases hstep
  | cut w =>
    simp only [step] at hstep
    split at hstep
    · rename_i wk hwk
      split at hstep
      · rename_i sg hseg
        have hdirty : f.txDirty = true := by
          cases h : f.txDirty
          · have := (f1 h).2.2.2 wk (List.mem_of_getElem? hwk); rw [hseg] at this; cases this
          · rfl
        simp only [Option.some.injEq, Prod.mk.injEq] at hstep
        obtain ⟨rfl, _⟩ := hstep
        exact ⟨fun h => by simp [flagsAfter, Event.toOp, hdirty] at h, f2, f3⟩
      · cases hstep
    · cases hstep
  | register =>
    simp only [step] at hstep
    split at hstep
    · rename_i sg rest hi
      have hdirty : f.txDirty = true := by
        cases h : f.txDirty
        · have := (f1 h).2.1; rw [hi] at this; cases this
        · rfl
      simp only [Option.some.injEq, Prod.mk.injEq] at hstep
      obtain ⟨rfl, _⟩ := hstep
      exact ⟨fun h => by simp [flagsAfter, Event.toOp, hdirty] at h, f2, f3⟩
    · cases hstep
  | tick =>
    simp only [step, Option.some.injEq, Prod.mk.injEq] at hstep
    obtain ⟨rfl, _⟩ := hstep
    refine ⟨f1, f2, ?_⟩
    rcases f3 with h | ⟨h, _⟩
    · exact Or.inl h
    · exact Or.inr ⟨by show s.metas.opstamp ≤ s.stamper + 1; omega, Or.inr (by show s.metas.opstamp < s.stamper + 1; omega)⟩
  | flush =>
    simp only [step, Option.some.injEq, Prod.mk.injEq] at hstep
    obtain ⟨rfl, _⟩ := hstep
    exact ⟨f1, f2, f3⟩
  | mergeStart ids policy =>
    simp only [step] at hstep
    split at hstep
    · cases hstep
    · split at hstep
      · simp only [Option.some.injEq, Prod.mk.injEq] at hstep
        obtain ⟨rfl, _⟩ := hstep
        refine ⟨f1, f2, ?_⟩
        rcases f3 with h | ⟨h, _⟩
        · exact Or.inl h
        · exact Or.inr ⟨by show s.metas.opstamp ≤ s.stamper + 1; omega, Or.inr (by show s.metas.opstamp < s.stamper + 1; omega)⟩
      · split at hstep
        · simp only [Option.some.injEq, Prod.mk.injEq] at hstep
          obtain ⟨rfl, _⟩ := hstep
          exact ⟨f1, f2, f3⟩
        · cases hstep
  | mergeEnd k =>
    simp only [step] at hstep
    split at hstep
    · cases hstep
    · rename_i m hk
      have hmem : m ∈ s.merges := List.mem_of_getElem? hk
      have hne := hm.idsNe m hmem
      split at hstep
      · rename_i hcond
        have hp : present m.ids s.uncommitted := (idsIn_iff m.ids s.uncommitted).mp hcond
        have hdirty : f.txDirty = true := by
          cases h : f.txDirty
          · exfalso
            have hu := (f1 h).2.2.1
            obtain ⟨x, hx, _⟩ := present_nonempty m.ids s.uncommitted hne hp
            rw [hu] at hx; simp [srcsOf] at hx
          · rfl
        simp only [Option.some.injEq, Prod.mk.injEq] at hstep
        obtain ⟨rfl, _⟩ := hstep
        exact ⟨fun h => by simp [flagsAfter, Event.toOp, hdirty] at h, f2, f3⟩
      · split at hstep
        · rename_i hcond
          have hp : present m.ids s.committed := (idsIn_iff m.ids s.committed).mp hcond
          have hC : s.committed ≠ [] := by
            obtain ⟨x, hx, _⟩ := present_nonempty m.ids s.committed hne hp
            intro he; rw [he] at hx; simp [srcsOf] at hx
          simp only [Option.some.injEq, Prod.mk.injEq] at hstep
          obtain ⟨rfl, _⟩ := hstep
          refine ⟨f1, f2, ?_⟩
          rcases f3 with h | h
          · exact absurd h hC
          · exact Or.inr h
        · simp only [Option.some.injEq, Prod.mk.injEq] at hstep
          obtain ⟨rfl, _⟩ := hstep
          exact ⟨f1, f2, f3⟩
  | stamp op => simp [isSubstep] at hns
  | publish k => simp [isSubstep] at hns

/-- the history-level hypothesis on an API call gives the state-level hypothesis on the event -/
theorem okEvent2_of_flags (s : WState α) (f : HFlags) (e : Event α) (hf : FlagInv f s)
    (hns : isSubstep e = false) (hok : ∀ op, e.toOp = some op → okOp f op) : okEvent2 s e := by
  cases e with
  | deleteAll =>
    obtain ⟨h1, h2⟩ := hok .deleteAll rfl
    obtain ⟨a, b, c, d⟩ := hf.tx h1
    exact ⟨hf.sess h2, a, b, c, d⟩
  | del q =>
    have hfr : f.fresh = false := hok (.del q) rfl
    rcases hf.stamp with h | ⟨_, h⟩
    · exact Or.inl h
    · rcases h with h | h
      · rw [hfr] at h; cases h
      · exact Or.inr h
  | batch items =>
    have hb := hok (.batch items) rfl
    rcases hf.stamp with h | ⟨hle, h⟩
    · exact Or.inl h
    · right
      intro del hdel
      have hge := (batchDels_bounds items s.stamper del hdel).1
      rcases h with hfresh | hlt
      · rcases hb with hb | hb
        · rw [hb] at hfresh; cases hfresh
        · -- the first item is not a delete: every delete of the batch is stamped later
          cases items with
          | nil => simp [stampItems, batchDels] at hdel
          | cons it rest =>
            cases it with
            | del q => simp [firstIsDel] at hb
            | add d =>
              simp only [stampItems, batchDels, List.filterMap_cons] at hdel
              have := (batchDels_bounds rest (s.stamper + 1) del hdel).1
              omega
      · omega
  | stamp op => simp [isSubstep] at hns
  | publish k => simp [isSubstep] at hns
  | _ => trivial

theorem history_cons' (e : Event α) (es : List (Event α)) :
    history (e :: es) = (match e.toOp with | some op => [op] | none => []) ++ history es := by
  simp only [history, List.filterMap_cons]
  cases e.toOp <;> rfl

/-- history-level hypotheses ⇒ state-level hypotheses, along every run with that history -/
theorem okRun2_of_okHist (s : WState α) (t : SpecState α) (f : HFlags) (es : List (Event α))
    (hw : WInv s t.pending t.committed) (hm : MInv s) (hf : FlagInv f s) (hh : okHist f (history es))
    (hns : es.all (fun e => !isSubstep e) = true) : okRun2 s es := by
  induction es generalizing s t f with
  | nil => trivial
  | cons e es ih =>
    simp only [List.all_cons, Bool.and_eq_true, Bool.not_eq_true'] at hns
    rw [history_cons'] at hh
    have hok : ∀ op, e.toOp = some op → okOp f op := by
      intro op he
      rw [he] at hh
      exact hh.1
    have hrest : okHist (flagsAfter f e) (history es) := by
      unfold flagsAfter
      cases he : e.toOp with
      | none => rw [he] at hh; simpa using hh
      | some op => rw [he] at hh; exact hh.2
    have hev := okEvent2_of_flags s f e hf hns.1 hok
    refine ⟨hev, ?_⟩
    intro s' r hstep
    obtain ⟨hw', hm'⟩ := inv_step2 s s' t e r hw hm hev hstep
    exact ih s' (specAfter t e) (flagsAfter f e) hw' hm' (flag_step s s' f e r hf hm hns.1 hstep) hrest
      (by simpa using hns.2)

end TantivyModel.Writer
