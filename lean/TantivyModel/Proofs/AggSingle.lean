import TantivyModel.Proofs.AggKeyDesc
/-!
C14 helper lemmas: whenever the first `size` buckets in request order of the merged truncated tree
are those of the untruncated collection, the final buckets and `sum_other_doc_count` are exact
(any order; `min_doc_count ≤ 1`; conservation).  Instance: ONE data-bearing segment, any order
(`termsCut_shown_eq`), under every merge schedule with empty fruits.  No Mathlib.
-/
namespace TantivyModel.Agg

theorem insertBy_map {α β : Type} (f : α → β) (le : α → α → Bool) (le' : β → β → Bool)
    (hle : ∀ a b, le' (f a) (f b) = le a b) (x : α) :
    ∀ l : List α, insertBy le' (f x) (l.map f) = (insertBy le x l).map f
  | [] => rfl
  | y :: ys => by
    show (if le' (f x) (f y) = true then f x :: f y :: ys.map f else f y :: insertBy le' (f x) (ys.map f))
      = (if le x y = true then x :: y :: ys else y :: insertBy le x ys).map f
    rw [hle x y]
    by_cases h : le x y = true
    · rw [if_pos h, if_pos h]; rfl
    · rw [if_neg h, if_neg h, insertBy_map f le le' hle x ys]; rfl

theorem isort_map {α β : Type} (f : α → β) (le : α → α → Bool) (le' : β → β → Bool)
    (hle : ∀ a b, le' (f a) (f b) = le a b) : ∀ l : List α, isort le' (l.map f) = (isort le l).map f
  | [] => rfl
  | x :: xs => by
    show insertBy le' (f x) (isort le' (xs.map f)) = (insertBy le x (isort le xs)).map f
    rw [isort_map f le le' hle xs, insertBy_map f le le' hle]

theorem sortBuckets_map_keep {V W : Type} (o : Order) (g : V → W) (l : List (Int × Nat × V)) :
    sortBuckets o (l.map fun e => ((e.1, e.2.1, g e.2.2) : Int × Nat × W))
      = (sortBuckets o l).map (fun e => ((e.1, e.2.1, g e.2.2) : Int × Nat × W)) :=
  isort_map _ _ _ (fun _ _ => rfl) l

section gen
variable {V W : Type}

/-- any order, `min_doc_count ≤ 1`, every held bucket non-empty: shown buckets and the final
`sum_other_doc_count` in terms of the sorted entries -/
theorem final_of_pos (p : TermsP) (hmdc : p.minDocCount ≤ 1) (m : KMap (Nat × V)) (hp : Pos m) (g : V → W)
    (other err : Nat) :
    (termsFinal p (m.entries.map fun e => (e.1, e.2.1, g e.2.2)) other err).1
      = ((sortBuckets p.order m.entries).take p.size).map (fun e => (e.1, e.2.1, g e.2.2))
    ∧ (termsFinal p (m.entries.map fun e => (e.1, e.2.1, g e.2.2)) other err).2.1
      = other + sumCounts ((sortBuckets p.order m.entries).drop p.size) := by
  have hf : (m.entries.map fun e => (e.1, e.2.1, g e.2.2)).filter (fun b => decide (p.minDocCount ≤ b.2.1))
      = m.entries.map fun e => (e.1, e.2.1, g e.2.2) := by
    apply List.filter_eq_self.2
    intro b hb
    obtain ⟨e, he, rfl⟩ := List.mem_map.1 hb
    have := hp e.1 e.2 (mem_entries.1 he).2
    exact decide_eq_true (Nat.le_trans hmdc this)
  constructor
  · show (sortBuckets p.order ((m.entries.map fun e => (e.1, e.2.1, g e.2.2)).filter
      (fun b => decide (p.minDocCount ≤ b.2.1)))).take p.size = _
    rw [hf, sortBuckets_map_keep, List.map_take]
  · show other + sumCounts ((sortBuckets p.order ((m.entries.map fun e => (e.1, e.2.1, g e.2.2)).filter
      (fun b => decide (p.minDocCount ≤ b.2.1)))).drop p.size) = _
    rw [hf, sortBuckets_map_keep, ← List.map_drop, sumCounts_map_keep]

end gen

section termsGen
variable {M : Type} [AddOp M] [LawfulAddOp M]

/-- **exactness from the top**: if the first `size` buckets in request order agree, the final
buckets and `sum_other_doc_count` agree (whatever the order) -/
theorem terms_exact_of_top (p : TermsP) (sub : Req) (hmdc : p.minDocCount ≤ 1)
    (hsub : ∀ x : Inter M sub, harvest sub x = x) (parts : List (List Doc))
    (htop : (sortBuckets p.order (mergedTerms (M := M) p sub parts).map.entries).take p.size
      = (sortBuckets p.order (collect (M := M) (.terms p sub) parts.flatten).map.entries).take p.size) :
    (finalize (M := M) (.terms p sub) (mergedTerms (M := M) p sub parts)).1
      = (finalize (M := M) (.terms p sub) (collect (M := M) (.terms p sub) parts.flatten)).1
    ∧ (finalize (M := M) (.terms p sub) (mergedTerms (M := M) p sub parts)).2.1
      = (finalize (M := M) (.terms p sub) (collect (M := M) (.terms p sub) parts.flatten)).2.1 := by
  have hpos1 := mergedTerms_pos (M := M) p sub hsub parts
  have hsupp1 := mergedTerms_supp (M := M) p sub hsub parts
  have hX' : collect (M := M) (.terms p sub) parts.flatten = ⟨collectB sub (termKeys p) parts.flatten, 0, 0⟩ :=
    collect_terms p sub parts.flatten
  have hpos2 : Pos (collect (M := M) (.terms p sub) parts.flatten).map := by
    rw [hX']; exact pos_collectB sub (termKeys p) parts.flatten
  have htot := terms_conservation_total (M := M) p sub parts hpos1 hsupp1
  have r1 := perm_sumCounts (sortBuckets_perm p.order (mergedTerms (M := M) p sub parts).map.entries)
  have r2 := perm_sumCounts (sortBuckets_perm p.order (collect (M := M) (.terms p sub) parts.flatten).map.entries)
  have s1 := sumCounts_append ((sortBuckets p.order (mergedTerms (M := M) p sub parts).map.entries).take p.size)
    ((sortBuckets p.order (mergedTerms (M := M) p sub parts).map.entries).drop p.size)
  have s2 := sumCounts_append ((sortBuckets p.order (collect (M := M) (.terms p sub) parts.flatten).map.entries).take p.size)
    ((sortBuckets p.order (collect (M := M) (.terms p sub) parts.flatten).map.entries).drop p.size)
  rw [List.take_append_drop] at s1 s2
  rw [htop] at s1
  have hoth : (collect (M := M) (.terms p sub) parts.flatten).other = 0 := by rw [hX']
  obtain ⟨a1, a2⟩ := final_of_pos p hmdc _ hpos1 (fun x => finalize (M := M) sub x)
    (mergedTerms (M := M) p sub parts).other (mergedTerms (M := M) p sub parts).err
  obtain ⟨c1, c2⟩ := final_of_pos p hmdc _ hpos2 (fun x => finalize (M := M) sub x)
    (collect (M := M) (.terms p sub) parts.flatten).other (collect (M := M) (.terms p sub) parts.flatten).err
  constructor
  · show (termsFinal p ((mergedTerms (M := M) p sub parts).map.entries.map fun e => (e.1, e.2.1, finalize sub e.2.2)) _ _).1
      = (termsFinal p ((collect (M := M) (.terms p sub) parts.flatten).map.entries.map fun e => (e.1, e.2.1, finalize sub e.2.2)) _ _).1
    rw [a1, c1, htop]
  · show (termsFinal p ((mergedTerms (M := M) p sub parts).map.entries.map fun e => (e.1, e.2.1, finalize sub e.2.2)) _ _).2.1
      = (termsFinal p ((collect (M := M) (.terms p sub) parts.flatten).map.entries.map fun e => (e.1, e.2.1, finalize sub e.2.2)) _ _).2.1
    rw [a2, c2, hoth]
    omega

/-- one data-bearing segment, ANY order: the cut is invisible in the final buckets and in
`sum_other_doc_count` -/
theorem terms_single_segment_exact (p : TermsP) (sub : Req) (hsz : p.size ≤ p.segSize) (hmdc : p.minDocCount ≤ 1)
    (hsub : ∀ x : Inter M sub, harvest sub x = x) (part : List Doc) :
    (finalize (M := M) (.terms p sub) (collectSeg (M := M) (.terms p sub) part)).1
      = (finalize (M := M) (.terms p sub) (collect (M := M) (.terms p sub) part)).1
    ∧ (finalize (M := M) (.terms p sub) (collectSeg (M := M) (.terms p sub) part)).2.1
      = (finalize (M := M) (.terms p sub) (collect (M := M) (.terms p sub) part)).2.1 := by
  have hm : mergedTerms (M := M) p sub [part] = collectSeg (.terms p sub) part := by
    show merge (.terms p sub) (empty (.terms p sub)) (collectSeg (.terms p sub) part) = _
    rw [empty_merge]
  have hfl : [part].flatten = part := by simp
  have h := terms_exact_of_top (M := M) p sub hmdc hsub [part] (by
    rw [hm, hfl, collectSeg_terms_map_gen p sub hsub part, collect_terms]
    exact termsCut_shown_eq p (⟨collectB (M := M) sub (termKeys p) part, 0, 0⟩ : TermsI (Inter M sub)) hsz)
  rw [hm, hfl] at h
  exact h

theorem foldl_merge_replicate_empty (r : Req) (x : Inter M r) : ∀ n : Nat,
    (List.replicate n (empty (M := M) r)).foldl (merge r) x = x
  | 0 => rfl
  | n + 1 => by
    show (List.replicate n (empty r)).foldl (merge r) (merge r x (empty r)) = x
    rw [merge_empty, foldl_merge_replicate_empty r x n]

/-! ### the bounds survive composite eviction below the terms node -/

/-- same books: doc counts per key, `sum_other_doc_count`, error bound -/
def SameBooks {V : Type} (a b : TermsI V) : Prop :=
  (∀ k, cnt a.map k = cnt b.map k) ∧ a.other = b.other ∧ a.err = b.err

theorem sameBooks_foldl (p : TermsP) (sub : Req) (F G : List Doc → TermsI (Inter M sub))
    (hFG : ∀ q, SameBooks (F q) (G q)) : ∀ (parts : List (List Doc)) (a b : TermsI (Inter M sub)),
    SameBooks a b →
    SameBooks ((parts.map F).foldl (merge (.terms p sub)) a) ((parts.map G).foldl (merge (.terms p sub)) b)
  | [], _, _, h => h
  | q :: qs, a, b, h => by
    simp only [List.map_cons, List.foldl_cons]
    apply sameBooks_foldl p sub F G hFG qs
    have hxy := hFG q
    refine ⟨fun k => ?_, ?_, ?_⟩
    · show cnt (KMap.merge (entryMerge (merge sub)) a.map (F q).map) k = cnt (KMap.merge (entryMerge (merge sub)) b.map (G q).map) k
      rw [cnt_merge, cnt_merge, h.1 k, hxy.1 k]
    · show a.other + (F q).other = b.other + (G q).other
      rw [h.2.1, hxy.2.1]
    · show a.err + (F q).err = b.err + (G q).err
      rw [h.2.2, hxy.2.2]

theorem sameBooks_full (p : TermsP) (sub : Req) (q : List Doc) :
    SameBooks (collectSegFull (M := M) (.terms p sub) q) (collectSeg (M := M) (.terms p sub) q) := by
  refine ⟨fun k => ?_, rfl, rfl⟩
  show cnt ((harvest (M := M) (.terms p sub) (collect (.terms p sub) q)).map.mapVals (evict sub)) k = _
  rw [cnt_mapVals]
  rfl

/-! ### the request tree decomposes: several top-level nodes, filter parents -/

theorem foldl_both (a b : Req) (F : List Doc → Inter M a) (G : List Doc → Inter M b) :
    ∀ (parts : List (List Doc)) (x : Inter M a) (y : Inter M b),
      (parts.map (fun q => ((F q, G q) : Inter M (.both a b)))).foldl (merge (.both a b)) (x, y)
        = ((parts.map F).foldl (merge a) x, (parts.map G).foldl (merge b) y)
  | [], _, _ => rfl
  | q :: qs, x, y => by
    simp only [List.map_cons, List.foldl_cons]
    exact foldl_both a b F G qs _ _

theorem collectSeg_both (a b : Req) (q : List Doc) :
    collectSeg (M := M) (.both a b) q = (collectSeg a q, collectSeg b q) := by
  show harvest (.both a b) (collect (.both a b) q) = _
  rw [collect_both]
  rfl

theorem fold_both (a b : Req) (parts : List (List Doc)) :
    (parts.map (collectSeg (M := M) (.both a b))).foldl (merge (.both a b)) (empty (.both a b))
      = ((parts.map (collectSeg a)).foldl (merge a) (empty a), (parts.map (collectSeg b)).foldl (merge b) (empty b)) := by
  have e : parts.map (collectSeg (M := M) (.both a b))
      = parts.map (fun q => ((collectSeg a q, collectSeg b q) : Inter M (.both a b))) :=
    List.map_congr_left (fun q _ => collectSeg_both a b q)
  rw [e]
  exact foldl_both a b (collectSeg a) (collectSeg b) parts (empty a) (empty b)

theorem foldl_filter (f : Field) (v : Int) (sub : Req) (C : List Doc → Nat) (G : List Doc → Inter M sub) :
    ∀ (parts : List (List Doc)) (c : Nat) (y : Inter M sub),
      (parts.map (fun q => ((C q, G q) : Inter M (.filter f v sub)))).foldl (merge (.filter f v sub)) (c, y)
        = ((parts.map C).foldl (· + ·) c, (parts.map G).foldl (merge sub) y)
  | [], _, _ => rfl
  | q :: qs, c, y => by
    simp only [List.map_cons, List.foldl_cons]
    exact foldl_filter f v sub C G qs _ _

theorem collectSeg_filter (f : Field) (v : Int) (sub : Req) (q : List Doc) :
    collectSeg (M := M) (.filter f v sub) q
      = ((q.filter (filterMatch f v)).length, collectSeg sub (q.filter (filterMatch f v))) := by
  show harvest (.filter f v sub) (collect (.filter f v sub) q) = _
  rw [collect_filter]
  rfl

theorem fold_filter (f : Field) (v : Int) (sub : Req) (parts : List (List Doc)) :
    (parts.map (collectSeg (M := M) (.filter f v sub))).foldl (merge (.filter f v sub)) (empty (.filter f v sub))
      = ((parts.map (fun q => (q.filter (filterMatch f v)).length)).foldl (· + ·) 0,
         ((parts.map (fun q => q.filter (filterMatch f v))).map (collectSeg sub)).foldl (merge sub) (empty sub)) := by
  have e : parts.map (collectSeg (M := M) (.filter f v sub))
      = parts.map (fun q => (((q.filter (filterMatch f v)).length, collectSeg sub (q.filter (filterMatch f v))) : Inter M (.filter f v sub))) :=
    List.map_congr_left (fun q _ => collectSeg_filter f v sub q)
  rw [e, List.map_map]
  exact foldl_filter f v sub _ _ parts 0 (empty sub)

end termsGen

end TantivyModel.Agg
