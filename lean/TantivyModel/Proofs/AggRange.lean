import TantivyModel.Model.AggRange
import TantivyModel.Proofs.AggSort
/-!
C14 helper lemmas: the normalised range partition is contiguous, made of non-empty buckets,
contains every user range as one bucket, and its interior boundaries are strictly increasing.
-/
namespace TantivyModel.Agg

theorem EInt.lt_trans {a b c : EInt} (h1 : EInt.lt a b = true) (h2 : EInt.lt b c = true) :
    EInt.lt a c = true := by
  cases a <;> cases b <;> cases c <;> simp [EInt.lt] at * <;> omega

theorem EInt.lt_of_not_lt_of_ne {a b : EInt} (h1 : EInt.lt b a = false) (h2 : a ≠ b) :
    EInt.lt a b = true := by
  cases a <;> cases b <;> simp [EInt.lt] at * <;> omega

/-- consecutive buckets touch -/
def Contig : List ERange → Prop
  | [] => True
  | [_] => True
  | r0 :: r1 :: rest => r0.2 = r1.1 ∧ Contig (r1 :: rest)

def NonEmptyAll (l : List ERange) : Prop := ∀ r ∈ l, EInt.lt r.1 r.2 = true

theorem fillHoles_ok : ∀ (l bs : List ERange), fillHoles l = some bs → NonEmptyAll l →
    (∀ r ∈ l, r ∈ bs) ∧ NonEmptyAll bs ∧ Contig bs ∧ (bs.head?.map (·.1) = l.head?.map (·.1))
      ∧ (bs.getLast?.map (·.2) = l.getLast?.map (·.2))
  | [], bs, h, _ => by
    simp [fillHoles] at h; subst h
    exact ⟨fun _ hr => hr, fun _ hr => absurd hr (by simp), trivial, rfl, rfl⟩
  | [r], bs, h, hne => by
    simp [fillHoles] at h; subst h
    exact ⟨fun _ hr => hr, hne, trivial, rfl, rfl⟩
  | r0 :: r1 :: rest, bs, h, hne => by
    unfold fillHoles at h
    by_cases hov : EInt.lt r1.1 r0.2 = true
    · simp [hov] at h
    · have hov' : EInt.lt r1.1 r0.2 = false := by simpa using hov
      simp only [hov', Bool.false_eq_true, if_false] at h
      cases hrec : fillHoles (r1 :: rest) with
      | none => simp [hrec] at h
      | some l =>
        have hne1 : NonEmptyAll (r1 :: rest) := fun r hr => hne r (List.mem_cons_of_mem _ hr)
        obtain ⟨hmem, hnel, hcl, hhead, hlast⟩ := fillHoles_ok (r1 :: rest) l hrec hne1
        have hr0 : EInt.lt r0.1 r0.2 = true := hne r0 (List.mem_cons_self)
        -- the recursive result starts with a bucket that starts where r1 starts
        have hl : ∃ b l', l = b :: l' ∧ b.1 = r1.1 := by
          cases l with
          | nil => simp at hhead
          | cons b l' => exact ⟨b, l', rfl, by simpa using hhead⟩
        obtain ⟨b, l', hleq, hb1⟩ := hl
        subst hleq
        simp only [hrec] at h
        by_cases heq : r0.2 = r1.1
        · simp only [heq, if_true, Option.some.injEq] at h
          subst h
          refine ⟨?_, ?_, ?_, rfl, ?_⟩
          · intro r hr
            rcases List.mem_cons.1 hr with rfl | hr
            · exact List.mem_cons_self
            · exact List.mem_cons_of_mem _ (hmem r hr)
          · intro r hr
            rcases List.mem_cons.1 hr with rfl | hr
            · exact hr0
            · exact hnel r hr
          · exact ⟨by rw [hb1]; exact heq, hcl⟩
          · simpa using hlast
        · simp only [heq, if_false, Option.some.injEq] at h
          subst h
          refine ⟨?_, ?_, ?_, rfl, ?_⟩
          · intro r hr
            rcases List.mem_cons.1 hr with rfl | hr
            · exact List.mem_cons_self
            · exact List.mem_cons_of_mem _ (List.mem_cons_of_mem _ (hmem r hr))
          · intro r hr
            rcases List.mem_cons.1 hr with rfl | hr
            · exact hr0
            · rcases List.mem_cons.1 hr with rfl | hr
              · exact EInt.lt_of_not_lt_of_ne hov' heq
              · exact hnel r hr
          · exact ⟨rfl, by rw [hb1], hcl⟩
          · simpa using hlast

/-- along a contiguous list of non-empty buckets the starts increase strictly -/
theorem starts_increase : ∀ (b : ERange) (rest : List ERange), Contig (b :: rest) → NonEmptyAll (b :: rest) →
    ∀ b' ∈ rest, EInt.lt b.1 b'.1 = true
  | _, [], _, _, b', hb' => absurd hb' (by simp)
  | b, r1 :: rest, hc, hne, b', hb' => by
    obtain ⟨h01, hc'⟩ := hc
    have hb : EInt.lt b.1 r1.1 = true := by rw [← h01]; exact hne b (List.mem_cons_self)
    rcases List.mem_cons.1 hb' with rfl | hb''
    · exact hb
    · exact EInt.lt_trans hb (starts_increase r1 rest hc' (fun r hr => hne r (List.mem_cons_of_mem _ hr)) b' hb'')

theorem starts_pairwise : ∀ (l : List ERange), Contig l → NonEmptyAll l →
    l.Pairwise (fun a b => EInt.lt a.1 b.1 = true)
  | [], _, _ => List.Pairwise.nil
  | b :: rest, hc, hne => by
    refine List.pairwise_cons.2 ⟨starts_increase b rest hc hne, ?_⟩
    apply starts_pairwise rest
    · cases rest with
      | nil => trivial
      | cons r1 rest' => exact hc.2
    · exact fun r hr => hne r (List.mem_cons_of_mem _ hr)

theorem cutsOf_pairwise (bs : List ERange) (hc : Contig bs) (hne : NonEmptyAll bs) :
    (cutsOf bs).Pairwise (· < ·) := by
  have hp := starts_pairwise bs hc hne
  have hp' : (bs.drop 1).Pairwise (fun a b => EInt.lt a.1 b.1 = true) :=
    List.Pairwise.sublist (List.drop_sublist 1 bs) hp
  unfold cutsOf
  generalize bs.drop 1 = l at hp'
  induction l with
  | nil => exact List.Pairwise.nil
  | cons b l ih =>
    obtain ⟨hb, hl⟩ := List.pairwise_cons.1 hp'
    simp only [List.filterMap_cons]
    cases hb1 : b.1 with
    | negInf => exact ih hl
    | posInf => exact ih hl
    | fin i =>
      refine List.pairwise_cons.2 ⟨?_, ih hl⟩
      intro j hj
      obtain ⟨b', hb', hj'⟩ := List.mem_filterMap.1 hj
      have := hb b' hb'
      cases hb'1 : b'.1 with
      | negInf => simp [hb'1] at hj'
      | posInf => simp [hb'1] at hj'
      | fin j' =>
        simp only [hb'1, Option.some.injEq] at hj'
        subst hj'
        rw [hb1, hb'1] at this
        simpa [EInt.lt] using this

theorem extendFront_ok (l : List ERange) (hne : NonEmptyAll l) :
    (∀ r ∈ l, r ∈ extendFront l) ∧ NonEmptyAll (extendFront l) := by
  cases l with
  | nil => exact ⟨fun _ hr => hr, hne⟩
  | cons r rest =>
    unfold extendFront
    by_cases hr : r.1 = EInt.negInf
    · simp only [hr, if_true]; exact ⟨fun _ h => h, hne⟩
    · simp only [hr, if_false]
      refine ⟨fun x hx => List.mem_cons_of_mem _ hx, ?_⟩
      intro x hx
      rcases List.mem_cons.1 hx with rfl | hx
      · show EInt.lt EInt.negInf r.1 = true
        cases h : r.1 <;> simp [EInt.lt, h] at hr ⊢
      · exact hne x hx

theorem extendBack_ok (l : List ERange) (hne : NonEmptyAll l) :
    (∀ r ∈ l, r ∈ extendBack l) ∧ NonEmptyAll (extendBack l) := by
  unfold extendBack
  cases hlast : l.getLast? with
  | none => exact ⟨fun _ h => h, hne⟩
  | some r =>
    by_cases hr : r.2 = EInt.posInf
    · simp only [hr, if_true]; exact ⟨fun _ h => h, hne⟩
    · simp only [hr, if_false]
      refine ⟨fun x hx => List.mem_append_left _ hx, ?_⟩
      intro x hx
      rcases List.mem_append.1 hx with hx | hx
      · exact hne x hx
      · have : x = (r.2, EInt.posInf) := by simpa using hx
        subst this
        show EInt.lt r.2 EInt.posInf = true
        cases h : r.2 <;> simp [EInt.lt, h] at hr ⊢

theorem extendEnds_ok (l : List ERange) (hne : NonEmptyAll l) :
    (∀ r ∈ l, r ∈ extendEnds l) ∧ NonEmptyAll (extendEnds l) := by
  obtain ⟨h1, h2⟩ := extendFront_ok l hne
  obtain ⟨h3, h4⟩ := extendBack_ok _ h2
  exact ⟨fun r hr => h3 r (h1 r hr), h4⟩

/-- the normalised partition of a valid range request -/
theorem normRanges_ok (rs : List (Option Int × Option Int)) (bs : List ERange)
    (h : normRanges rs = some bs)
    (hne : ∀ r ∈ rs, EInt.lt (toERange r).1 (toERange r).2 = true) :
    (cutsOf bs).Pairwise (· < ·) ∧ (∀ r ∈ rs, toERange r ∈ bs) ∧ Contig bs ∧ NonEmptyAll bs := by
  unfold normRanges at h
  have hperm := isort_perm (fun a b : ERange => !EInt.lt b.1 a.1) (rs.map toERange)
  have hne0 : NonEmptyAll (isort (fun a b : ERange => !EInt.lt b.1 a.1) (rs.map toERange)) := by
    intro r hr
    obtain ⟨x, hx, rfl⟩ := List.mem_map.1 (hperm.mem_iff.1 hr)
    exact hne x hx
  obtain ⟨hm1, hn1⟩ := extendEnds_ok _ hne0
  obtain ⟨hm2, hn2, hc2, _, _⟩ := fillHoles_ok _ bs h hn1
  refine ⟨cutsOf_pairwise bs hc2 hn2, ?_, hc2, hn2⟩
  intro r hr
  exact hm2 _ (hm1 _ (hperm.mem_iff.2 (List.mem_map_of_mem hr)))

end TantivyModel.Agg
