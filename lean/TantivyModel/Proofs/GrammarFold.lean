import TantivyModel.Proofs.Grammar
import TantivyModel.Proofs.GrammarSem
namespace TantivyModel.Grammar
variable {L T : Type}

/-! ## marker lists -/

def marksItems (cs : List (Entry L)) : List (Item L) := cs.map (fun e => (none, e.1, e.2))

theorem occOr_none (o : Option Occur) : occOr o none = o := by cases o <;> rfl

theorem nextOp_marks (cs : List (Entry L)) : nextOp (marksItems cs) = none := by
  cases cs <;> simp [marksItems, nextOp]

theorem groups_marks (cs : List (Entry L)) : groups (marksItems cs) = cs.map (fun e => [e]) := by
  induction cs with
  | nil => rfl
  | cons e rest ih =>
    obtain ⟨o, a⟩ := e
    have hn : nextOp (marksItems rest) = none := nextOp_marks rest
    have : marksItems ((o, a) :: rest) = (none, o, a) :: marksItems rest := rfl
    rw [this]
    simp only [groups, hn, entryOf, occOr_none]
    simp [ih]

theorem assemble_marks (cs : List (Entry L)) :
    assemble (cs.map (fun e => [e])) =
      match cs with
      | [(o, a)] => if o = some .mustNot then .clause [(o, a)] else a
      | _ => .clause cs := by
  match cs with
  | [] => rfl
  | [(o, a)] => rfl
  | e1 :: e2 :: rest =>
    simp only [List.map_cons, assemble]
    congr 1
    simp
    induction rest with
    | nil => rfl
    | cons x xs ih => simp [ih]

theorem boolSem_single (o : Occur) (b : Bool) (h : o ≠ .mustNot) : boolSem [(o, b)] = b := by
  cases o <;> cases b <;> simp_all [boolSem]

theorem markers_sem (m : Mode) (res : L → LAst T) (v : T → Bool) (cs : List (Entry L))
    (hd : NoDead m res cs) :
    semAst m res v (assemble (groups (marksItems cs)))
      = boolSem (cs.map (fun e => (e.1.getD m.occ, semAst m res v e.2))) := by
  rw [groups_marks, assemble_marks]
  match cs, hd with
  | [], _ => simp [semAst_clause, toLogicalL, semLs]
  | [(o, a)], hd =>
    by_cases ho : o = some .mustNot
    · simp only [ho, if_true]
      rw [semAst_clause, semLs_noDead m res v _ (by simpa [ho] using hd)]
    · simp only [ho, if_false]
      have : o.getD m.occ ≠ .mustNot := by
        cases o with
        | none => cases m <;> simp [Mode.occ]
        | some o' => cases o' <;> simp_all
      simp [boolSem_single _ _ this]
  | e1 :: e2 :: rest, hd =>
    rw [semAst_clause, semLs_noDead m res v _ hd]

/-! ## chains -/

def chainFrom (p : Option BinOp) (a0 : Ast L) (rest : List (BinOp × Ast L)) : List (Item L) :=
  (p, none, a0) :: rest.map (fun x => (some x.1, none, x.2))

/-- OR over the maximal AND-runs, read left to right; `cur` = conjunction of the run so far -/
def orOfAnds (cur : Bool) : List (BinOp × Bool) → Bool
  | [] => cur
  | (.and, b) :: r => orOfAnds (cur && b) r
  | (.or, b) :: r => cur || orOfAnds b r

def hdRun : List (BinOp × Bool) → Bool
  | [] => true
  | (.and, b) :: r => b && hdRun r
  | (.or, _) :: _ => true

def tlRuns : List (BinOp × Bool) → Bool
  | [] => false
  | (.and, _) :: r => tlRuns r
  | (.or, b) :: r => orOfAnds b r

theorem orOfAnds_split (c : Bool) (l : List (BinOp × Bool)) :
    orOfAnds c l = ((c && hdRun l) || tlRuns l) := by
  induction l generalizing c with
  | nil => simp [orOfAnds, hdRun, tlRuns]
  | cons x r ih =>
    obtain ⟨op, b⟩ := x
    cases op with
    | and => simp [orOfAnds, hdRun, tlRuns, ih, Bool.and_assoc]
    | or => simp [orOfAnds, hdRun, tlRuns]

theorem entryOf_none_snd (p nx : Option BinOp) (a : Ast L) : (entryOf p none a nx).2 = a := by
  cases p with
  | none => cases nx with
    | none => simp [entryOf, occOr]
    | some n => cases n <;> simp [entryOf, occOr]
  | some q => cases q with
    | and => simp [entryOf]
    | or => cases nx with
      | none => simp [entryOf, occOr]
      | some n => cases n <;> simp [entryOf, occOr]

/-- occur given to an unmarked chain element -/
def chainOcc (p nx : Option BinOp) : Option Occur :=
  match p, nx with
  | some .and, _ => some .must
  | _, some .and => some .must
  | some .or, _ => some .should
  | none, some .or => some .should
  | none, none => none

theorem entryOf_none_fst (p nx : Option BinOp) (a : Ast L) :
    (entryOf p none a nx).1 = chainOcc p nx := by
  cases p with
  | none => cases nx with
    | none => simp [entryOf, occOr, chainOcc]
    | some n => cases n <;> simp [entryOf, occOr, chainOcc]
  | some q => cases q with
    | and => cases nx with
      | none => simp [entryOf, occOr, chainOcc]
      | some n => cases n <;> simp [entryOf, occOr, chainOcc]
    | or => cases nx with
      | none => simp [entryOf, occOr, chainOcc]
      | some n => cases n <;> simp [entryOf, occOr, chainOcc]

def allMust (g : List (Entry L)) : Bool := g.all (fun e => e.1 == some .must)

/-- shape of a group that is not the first one: a single SHOULD entry, or ≥ 2 MUST entries -/
def okTail (g : List (Entry L)) : Bool :=
  match g with
  | [] => false
  | [(o, _)] => o == some .should
  | _ => allMust g

/-- shape of the first group; `p` = operator before its first element, `last` = it is the only group -/
def okHead (p : Option BinOp) (last : Bool) (g : List (Entry L)) : Bool :=
  match g with
  | [] => false
  | [(o, _)] => o == (match p with
      | some .and => some .must
      | some .or => some .should
      | none => if last then none else some .should)
  | _ => allMust g

variable (m : Mode) (res : L → LAst T) (v : T → Bool)

def semE (e : Entry L) : Bool := semAst m res v e.2

def chainVals (rest : List (BinOp × Ast L)) : List (BinOp × Bool) :=
  rest.map (fun x => (x.1, semAst m res v x.2))

theorem entryOf_none_eq (p nx : Option BinOp) (a : Ast L) :
    entryOf p none a nx = (chainOcc p nx, a) :=
  Prod.ext (entryOf_none_fst p nx a) (entryOf_none_snd p nx a)

theorem chainOcc_and (p : Option BinOp) : chainOcc p (some .and) = some .must := by
  cases p with
  | none => rfl
  | some q => cases q <;> rfl

theorem chain_groups (p : Option BinOp) (a0 : Ast L) (rest : List (BinOp × Ast L)) :
    ∃ g gs, groups (chainFrom p a0 rest) = g :: gs
      ∧ g.all (semE m res v) = (semAst m res v a0 && hdRun (chainVals m res v rest))
      ∧ gs.any (fun g => g.all (semE m res v)) = tlRuns (chainVals m res v rest)
      ∧ okHead p gs.isEmpty g = true ∧ gs.all okTail = true
      ∧ (∀ g' ∈ g :: gs, ∀ e ∈ g', e.2 = a0 ∨ ∃ x ∈ rest, e.2 = x.2) := by
  induction rest generalizing p a0 with
  | nil =>
    refine ⟨[(chainOcc p none, a0)], [], ?_, ?_, rfl, ?_, rfl, ?_⟩
    · simp [chainFrom, groups, nextOp, entryOf_none_eq]
    · simp [semE, chainVals, hdRun]
    · cases p with
      | none => simp [okHead, chainOcc]
      | some q => cases q <;> simp [okHead, chainOcc]
    · intro g' hg' e he
      simp at hg'
      subst hg'
      simp at he
      subst he
      exact Or.inl rfl
  | cons x r ih =>
    obtain ⟨op, a⟩ := x
    obtain ⟨g0, gs0, hg, hall, hany, hhead, htail, hmem⟩ := ih (some op) a
    have hchain : chainFrom p a0 ((op, a) :: r) = (p, none, a0) :: chainFrom (some op) a r := rfl
    have hnext : nextOp (chainFrom (some op) a r) = some op := rfl
    cases op with
    | and =>
      refine ⟨(some .must, a0) :: g0, gs0, ?_, ?_, ?_, ?_, htail, ?_⟩
      · rw [hchain]
        simp only [groups, hnext, if_true, hg, entryOf_none_eq, chainOcc_and]
      · simp [semE, chainVals, hdRun] at hall ⊢
        simp [semE, hall, chainVals]
      · simpa [chainVals, tlRuns] using hany
      · match g0, hhead with
        | [(o0, b0)], hh =>
          simp [okHead] at hh
          subst hh
          simp [okHead, allMust]
        | e1 :: e2 :: g', hh =>
          simp [okHead, allMust] at hh ⊢
          exact hh
      · intro g' hg' e he
        simp at hg'
        rcases hg' with rfl | hg'
        · simp at he
          rcases he with rfl | he
          · exact Or.inl rfl
          · rcases hmem g0 (by simp) e he with h | ⟨x, hx, h⟩
            · exact Or.inr ⟨(.and, a), by simp, h⟩
            · exact Or.inr ⟨x, by simp [hx], h⟩
        · rcases hmem g' (by simp [hg']) e he with h | ⟨x, hx, h⟩
          · exact Or.inr ⟨(.and, a), by simp, h⟩
          · exact Or.inr ⟨x, by simp [hx], h⟩
    | or =>
      refine ⟨[(chainOcc p (some .or), a0)], g0 :: gs0, ?_, ?_, ?_, ?_, ?_, ?_⟩
      · rw [hchain]
        simp [groups, hnext, hg, entryOf_none_eq]
      · simp [semE, chainVals, hdRun]
      · simp only [List.any_cons, hall, hany]
        simp [chainVals, tlRuns, orOfAnds_split]
      · cases p with
        | none => simp [okHead, chainOcc]
        | some q => cases q <;> simp [okHead, chainOcc]
      · simp only [List.all_cons, htail, Bool.and_true]
        match g0, hhead with
        | [(o0, b0)], hh =>
          simp [okHead] at hh
          subst hh
          simp [okTail]
        | e1 :: e2 :: g', hh =>
          simp [okHead] at hh
          simp [okTail, hh]
      · intro g' hg' e he
        simp at hg'
        rcases hg' with rfl | hg'
        · simp at he
          subst he
          exact Or.inl rfl
        · rcases hmem g' (by simpa using hg') e he with h | ⟨x, hx, h⟩
          · exact Or.inr ⟨(.or, a), by simp, h⟩
          · exact Or.inr ⟨x, by simp [hx], h⟩


theorem sem_group_must (g : List (Entry L)) (hne : g ≠ []) (hm : allMust g = true)
    (hd : NoDead m res g) :
    semAst m res v (.clause g) = g.all (semE m res v) := by
  rw [semAst_clause, semLs_noDead m res v g hd]
  have : g.map (fun e => (e.1.getD m.occ, semAst m res v e.2))
      = (g.map (semE m res v)).map (fun b => (Occur.must, b)) := by
    rw [List.map_map]
    apply List.map_congr_left
    intro e he
    have : e.1 = some .must := by
      have := List.all_eq_true.mp hm e he
      simpa using this
    simp [this, semE]
  rw [this, boolSem_all_must _ (by simpa using hne)]
  simp [List.all_map]

def top (g : List (Entry L)) : Entry L :=
  match g with
  | [e] => e
  | _ => (some .should, .clause g)

theorem assemble_multi (g1 g2 : List (Entry L)) (gs : List (List (Entry L))) :
    assemble (g1 :: g2 :: gs) = .clause ((g1 :: g2 :: gs).map top) := by
  simp only [assemble]
  congr 1

theorem top_ok (g : List (Entry L)) (h : okTail g = true) (hd : NoDead m res g) :
    (top g).1 = some .should ∧ isDead (toLogical m res (top g).2) = false
      ∧ semAst m res v (top g).2 = g.all (semE m res v) := by
  match g, h, hd with
  | [], h, _ => simp [okTail] at h
  | [(o, a)], h, hd =>
    simp [okTail] at h
    subst h
    have ht : top [(some Occur.should, a)] = (some Occur.should, a) := rfl
    rw [ht]
    exact ⟨rfl, hd (some Occur.should, a) (by simp), by simp [semE]⟩
  | e1 :: e2 :: g', h, hd =>
    simp only [okTail] at h
    refine ⟨rfl, ?_, ?_⟩
    · simp only [top, toLogical, isDead]
      exact allDead_noDead m res _ hd (by simp)
    · simp only [top]
      exact sem_group_must m res v _ (by simp) h hd

theorem okHead_none_false (g : List (Entry L)) : okHead none false g = okTail g := by
  match g with
  | [] => rfl
  | [(o, a)] => simp [okHead, okTail]
  | e1 :: e2 :: g' => rfl

theorem precedence_sem (a0 : Ast L) (rest : List (BinOp × Ast L))
    (hd0 : isDead (toLogical m res a0) = false)
    (hdr : ∀ x ∈ rest, isDead (toLogical m res x.2) = false) :
    semAst m res v (assemble (groups (chainFrom none a0 rest)))
      = orOfAnds (semAst m res v a0) (chainVals m res v rest) := by
  obtain ⟨g, gs, hg, hall, hany, hhead, htail, hmem⟩ := chain_groups m res v none a0 rest
  have hnd : ∀ g' ∈ g :: gs, NoDead m res g' := by
    intro g' hg' e he
    rcases hmem g' hg' e he with h | ⟨x, hx, h⟩
    · rw [h]; exact hd0
    · rw [h]; exact hdr x hx
  rw [hg, orOfAnds_split, ← hall, ← hany]
  match gs, hhead, htail, hnd with
  | [], hhead, _, hnd =>
    simp only [List.any_nil, Bool.or_false]
    match g, hhead, hnd with
    | [], hh, _ => simp [okHead] at hh
    | [(o, a)], hh, _ =>
      simp [okHead] at hh
      subst hh
      simp [assemble, semE]
    | e1 :: e2 :: g', hh, hnd =>
      simp only [okHead] at hh
      have : assemble [e1 :: e2 :: g'] = .clause (e1 :: e2 :: g') := rfl
      rw [this]
      exact sem_group_must m res v _ (by simp) hh (hnd _ (by simp))
  | g2 :: gs', hhead, htail, hnd =>
    rw [assemble_multi, semAst_clause]
    have hok : ∀ g' ∈ g :: g2 :: gs', okTail g' = true := by
      intro g' hg'
      simp only [List.mem_cons] at hg'
      rcases hg' with rfl | hg'
      · rw [← okHead_none_false]; simpa using hhead
      · exact List.all_eq_true.mp htail g' (by simpa using hg')
    have hnd' : NoDead m res ((g :: g2 :: gs').map top) := by
      intro e he
      obtain ⟨g', hg', rfl⟩ := List.mem_map.mp he
      exact (top_ok m res v g' (hok g' hg') (hnd g' hg')).2.1
    rw [semLs_noDead m res v _ hnd']
    have : ((g :: g2 :: gs').map top).map (fun e => (e.1.getD m.occ, semAst m res v e.2))
        = ((g :: g2 :: gs').map (fun g' => g'.all (semE m res v))).map (fun b => (Occur.should, b)) := by
      rw [List.map_map, List.map_map]
      apply List.map_congr_left
      intro g' hg'
      obtain ⟨h1, _, h3⟩ := top_ok m res v g' (hok g' hg') (hnd g' hg')
      simp [h1, h3]
    rw [this, boolSem_all_should]
    simp [List.any_map]

end TantivyModel.Grammar
