import TantivyModel.Proofs.TopNHeap
/-!
Pruning with *early* justifications: WAND-style drivers skip a document because a bound was not
above the threshold in force at some EARLIER point of the run (the document is passed over while
smaller documents are still to be scored). Because the collector's threshold never decreases,
such a skip is also justified at the time the document would have been scored.
-/
namespace TantivyModel.TopN
open List

variable {α : Type}

/-- `θ₁ ≤ θ₂` as thresholds: whatever is above `θ₂` is above `θ₁` -/
def thrLe (gt : α → α → Bool) (θ₁ θ₂ : Option α) : Prop :=
  ∀ k, above gt k θ₂ = true → above gt k θ₁ = true

theorem thrLe_refl (gt : α → α → Bool) (θ : Option α) : thrLe gt θ θ := fun _ h => h

theorem thrLe_trans {gt : α → α → Bool} {a b c : Option α} (h₁ : thrLe gt a b) (h₂ : thrLe gt b c) :
    thrLe gt a c := fun k h => h₁ k (h₂ k h)

theorem thrLe_none (gt : α → α → Bool) (θ : Option α) : thrLe gt none θ := fun _ _ => rfl

/-- the threshold of `TopNHeap` never decreases -/
theorem heapPush_thr_mono {gt : α → α → Bool} (hgt : StrictWeak gt) {K : Nat} {xs : List (Entry α)}
    {h : Heap α} {e : Entry α} (hi : HInv gt K xs h) :
    thrLe gt h.threshold (heapPush gt h e).threshold := by
  have hle := le_totalPreorder hgt
  have hsorted : Sorted (le gt) h.heap := by rw [hi.heap]; exact (isort_sorted hle xs).take K
  have hlenle : h.heap.length ≤ K := by rw [hi.heap]; exact length_take_le _ _
  unfold heapPush
  split
  · rename_i hlt
    rw [hi.topN] at hlt
    have hthr : h.threshold = none := by rw [hi.thr, if_neg]; omega
    rw [hthr]; exact thrLe_none gt _
  · rename_i hge
    rw [hi.topN] at hge
    have hlenK : h.heap.length = K := by omega
    split
    · rename_i t ht
      split
      · rename_i hgte
        -- replaced the worst: the new last element is `e` or an element that preceded the old last
        have hKpos : 0 < K := by
          rcases Nat.eq_zero_or_pos K with h0 | h0
          · rw [hi.thr, if_neg (by omega)] at ht; cases ht
          · exact h0
        have ht' := ht
        rw [hi.thr, if_pos ⟨hlenK, hKpos⟩] at ht'
        have hne : h.heap ≠ [] := by intro h0; rw [h0] at hlenK; simp at hlenK; omega
        obtain ⟨w, hw⟩ : ∃ w, h.heap.getLast? = some w := by
          cases hgl : h.heap.getLast? with
          | none => exact absurd (getLast?_eq_none_iff.mp hgl) hne
          | some w => exact ⟨w, rfl⟩
        obtain ⟨init, hsplit⟩ := getLast?_eq_some_iff.mp hw
        have htw : w.key = t := by rw [hw] at ht'; simpa using ht'
        have hdl : h.heap.dropLast = init := by rw [hsplit, dropLast_concat]
        intro k hk
        show above gt k h.threshold = true
        rw [ht]
        simp only [above]
        -- hk : above gt k (last of (ins e init)).key
        have hk' : above gt k ((ins (le gt) e h.heap.dropLast).getLast?.map (·.key)) = true := hk
        rw [hdl] at hk'
        cases hgl : (ins (le gt) e init).getLast? with
        | none =>
          have := getLast?_eq_none_iff.mp hgl
          have hl := length_ins (le := le gt) e init
          rw [this] at hl; simp at hl
        | some y =>
          rw [hgl] at hk'
          simp only [Option.map_some, above] at hk'
          have hy : y ∈ ins (le gt) e init := mem_of_getLast? hgl
          rcases mem_ins.mp hy with rfl | hy
          · exact hgt.trans _ _ _ hk' hgte
          · -- y precedes w in the sorted heap, so t = w.key is not greater than y.key
            have hyw : le gt y w = true := by
              have hs := hsorted
              rw [hsplit] at hs
              unfold Sorted at hs
              rw [pairwise_append] at hs
              exact hs.2.2 y hy w (by simp)
            have hnt : gt t y.key = false := by
              unfold le at hyw
              rw [htw] at hyw
              cases h1 : gt y.key t
              · simp [h1] at hyw; exact hyw.1
              · exact hgt.asymm _ _ h1
            cases hkt : gt k t
            · have := hgt.negTrans k t y.key hkt hnt
              rw [this] at hk'; cases hk'
            · rfl
      · exact thrLe_refl gt _
    · exact thrLe_refl gt _

/-- every skipped document is justified by the current threshold or by one that was in force
earlier in the same run (`hist`) -/
def skipsBelowEarly (gt : α → α → Bool) :
    (Heap α × Option α) → List (Option α) → List (Cand α × Bool) → Bool
  | _, _, [] => true
  | st, hist, (c, skipped) :: rest =>
    if skipped then
      (st.2 :: hist).any (fun θ' => !above gt c.entry.key θ') && skipsBelowEarly gt st hist rest
    else
      skipsBelowEarly gt (if above gt c.entry.key st.2 then callback gt st c else st) (st.2 :: hist) rest

/-- run invariant: the heap is the best K of the documents pushed so far, the loop threshold is the
heap's, every recorded earlier threshold is below the current one -/
structure RunInv (gt : α → α → Bool) (K : Nat) (xs : List (Entry α)) (st : Heap α × Option α)
    (hist : List (Option α)) : Prop where
  hinv : HInv gt K xs st.1
  wf : HeapWf st.1
  coh : st.2 = st.1.threshold
  hist : ∀ θ', θ' ∈ hist → thrLe gt θ' st.2

theorem heapWf_of_hinv {gt : α → α → Bool} {K : Nat} {xs : List (Entry α)} {h : Heap α}
    (hi : HInv gt K xs h) : HeapWf h := by
  intro t ht
  rw [hi.thr] at ht
  split at ht
  · rename_i hc; rw [hi.topN]; exact hc
  · cases ht

theorem skipsBelow_of_early {gt : α → α → Bool} (hgt : StrictWeak gt) {K : Nat}
    (cs : List (Cand α × Bool)) (xs : List (Entry α)) (st : Heap α × Option α)
    (hist : List (Option α)) (hinv : RunInv gt K xs st hist)
    (hasc : AddrAsc (xs ++ cs.map (·.1.entry)))
    (h : skipsBelowEarly gt st hist cs = true) : skipsBelow gt st cs = true := by
  induction cs generalizing xs st hist with
  | nil => rfl
  | cons p cs ih =>
    obtain ⟨c, skipped⟩ := p
    have hasc_tail : AddrAsc (xs ++ cs.map (·.1.entry)) := by
      refine Pairwise.sublist ?_ hasc
      simp only [map_cons]
      exact Sublist.append_left (sublist_cons_self _ _) xs
    cases skipped with
    | true =>
      simp only [skipsBelowEarly, if_true, Bool.and_eq_true, any_eq_true, Bool.not_eq_true'] at h
      simp only [skipsBelow, if_true, Bool.and_eq_true, Bool.not_eq_true']
      obtain ⟨⟨θ', hmem, hna⟩, hrest⟩ := h
      refine ⟨?_, ih xs st hist hinv hasc_tail hrest⟩
      have hle : thrLe gt θ' st.2 := by
        rcases mem_cons.mp hmem with rfl | hm
        · exact thrLe_refl gt _
        · exact hinv.hist θ' hm
      cases hab : above gt c.entry.key st.2
      · rfl
      · have := hle _ hab; rw [hna] at this; cases this
    | false =>
      simp only [skipsBelowEarly] at h
      simp only [skipsBelow]
      simp only [Bool.false_eq_true, if_false] at h ⊢
      by_cases hab : above gt c.entry.key st.2 = true <;> by_cases hal : c.alive = true
      · -- pushed
        have hpre : AddrAsc (xs ++ [c.entry]) := by
          have : AddrAsc ((xs ++ [c.entry]) ++ cs.map (·.1.entry)) := by simpa using hasc
          unfold AddrAsc at this ⊢
          exact (pairwise_append.mp this).1
        have hst : (if above gt c.entry.key st.2 = true then callback gt st c else st)
            = (heapPush gt st.1 c.entry, (heapPush gt st.1 c.entry).threshold) := by
          simp [hab, callback, hal]
        rw [hst] at h ⊢
        have hi' := hinv_push hgt hinv.hinv hpre
        have hmono := heapPush_thr_mono (e := c.entry) hgt hinv.hinv
        refine ih (xs ++ [c.entry]) _ (st.2 :: hist) ⟨hi', heapWf_of_hinv hi', rfl, ?_⟩
          (by simpa using hasc) h
        intro θ' hm
        rcases mem_cons.mp hm with rfl | hm
        · rw [hinv.coh]; exact hmono
        · exact thrLe_trans (hinv.hist θ' hm) (by rw [hinv.coh]; exact hmono)
      · -- above the threshold but deleted: state unchanged
        have hst : (if above gt c.entry.key st.2 = true then callback gt st c else st) = st := by
          simp [hab, callback, hal]
        rw [hst] at h ⊢
        refine ih xs st (st.2 :: hist) ⟨hinv.hinv, hinv.wf, hinv.coh, ?_⟩ hasc_tail h
        intro θ' hm
        rcases mem_cons.mp hm with rfl | hm
        · exact thrLe_refl gt _
        · exact hinv.hist θ' hm
      all_goals
        have hst : (if above gt c.entry.key st.2 = true then callback gt st c else st) = st := by
          simp [hab]
        rw [hst] at h ⊢
        refine ih xs st (st.2 :: hist) ⟨hinv.hinv, hinv.wf, hinv.coh, ?_⟩ hasc_tail h
        intro θ' hm
        rcases mem_cons.mp hm with rfl | hm
        · exact thrLe_refl gt _
        · exact hinv.hist θ' hm

end TantivyModel.TopN
