import TantivyModel.Proofs.GrammarCharsSfx
namespace TantivyModel.Grammar.Chars
open TantivyModel.Grammar

/-! ## bracketed ranges `[a TO b]`, `{a TO b}`, `[a TO b}`, `{a TO b]` -/

/-- a remainder at which a relaxed word stops: the end, whitespace or a bracket -/
def RelStop (x : Str) : Prop :=
  ∀ d x', x = d :: x' → (!isUniSpace d && !relaxedBad.contains d) = false

theorem plain_relaxed_ok (d : Char) (hd : plain d = true) :
    (!isUniSpace d && !relaxedBad.contains d) = true := by
  have ne : ∀ e, plain e = false → d ≠ e := fun e he => plain_ne d e hd he
  simp [(plain_not_space d hd).1, relaxedBad, ne '{' (by decide), ne '}' (by decide), ne '"' (by decide),
    ne '[' (by decide), ne ']' (by decide), ne '(' (by decide), ne ')' (by decide)]

theorem relaxed_take (r x : Str) (hr : ∀ d ∈ r, plain d = true) (hx : RelStop x) :
    (r ++ x).takeWhile (fun d => !isUniSpace d && !relaxedBad.contains d) = r
    ∧ (r ++ x).dropWhile (fun d => !isUniSpace d && !relaxedBad.contains d) = x := by
  induction r with
  | nil =>
    cases x with
    | nil => exact ⟨rfl, rfl⟩
    | cons d x' =>
      have := hx d x' rfl
      simp only [List.nil_append, List.takeWhile_cons, List.dropWhile_cons, this, Bool.false_eq_true, if_false]
      exact ⟨trivial, trivial⟩
  | cons d rest ih =>
    have h1 := plain_relaxed_ok d (hr d (by simp))
    have ih' := ih (fun e he => hr e (List.mem_cons_of_mem _ he))
    simp only [List.cons_append, List.takeWhile, List.dropWhile, h1]
    exact ⟨by rw [ih'.1], ih'.2⟩

theorem rangeTermVal_plain (c : Char) (r x : Str) (hw : ∀ d ∈ c :: r, plain d = true) (hx : RelStop x) :
    rangeTermVal (c :: (r ++ x)) = some (c :: r, x) := by
  have hc := hw c (by simp)
  have ne : ∀ e, plain e = false → c ≠ e := fun e he => plain_ne c e hc he
  have hn : negativeNumber (c :: (r ++ x)) = none := by
    unfold negativeNumber
    split
    · rename_i heq; exact absurd (List.cons.inj heq).1 (ne '-' (by decide))
    · rfl
  have ht := relaxed_take r x (fun d hd => hw d (List.mem_cons_of_mem _ hd)) hx
  have hrw : relaxedWord (c :: (r ++ x)) = some (c :: r, x) := by
    simp [relaxedWord, (plain_not_space c hc).1, relaxedFirstBad, ne '`' (by decide), ne '{' (by decide),
      ne '}' (by decide), ne '"' (by decide), ne '[' (by decide), ne ']' (by decide), ne '(' (by decide),
      ne ')' (by decide)]
    simpa using ht
  simp [rangeTermVal, hn, hrw]

theorem relStop_space (x : Str) : RelStop (' ' :: x) := by
  intro d x' h
  rw [← (List.cons.inj h).1]; decide

theorem relStop_close (hi : Bool) (x : Str) : RelStop ((if hi then ']' else '}') :: x) := by
  intro d x' h
  rw [← (List.cons.inj h).1]
  cases hi <;> decide

theorem range_print (lo hi : Bool) (c1 : Char) (r1 : Str) (c2 : Char) (r2 t : Str)
    (h1 : ∀ d ∈ c1 :: r1, plain d = true) (h2 : ∀ d ∈ c2 :: r2, plain d = true) :
    range ((if lo then '[' else '{') :: (c1 :: (r1 ++ ' ' :: 'T' :: 'O' :: ' ' :: (c2 :: (r2 ++ (if hi then ']' else '}') :: t)))))
      = some (.range none (if lo then .incl (c1 :: r1) else .excl (c1 :: r1))
          (if hi then .incl (c2 :: r2) else .excl (c2 :: r2)), t) := by
  have hc1 := h1 c1 (by simp)
  have hc2 := h2 c2 (by simp)
  have hB := rangeTermVal_plain c2 r2 _ h2 (relStop_close hi t)
  have hsk2 : skip1 (' ' :: (c2 :: (r2 ++ (if hi then ']' else '}') :: t)))
      = some (c2 :: (r2 ++ (if hi then ']' else '}') :: t)) := by
    have e1 : isNomSpace ' ' = true := by decide
    simp [skip1, List.dropWhile, e1, (plain_not_space c2 hc2).2]
  generalize c2 :: (r2 ++ (if hi then ']' else '}') :: t) = X at hB hsk2
  have hA := rangeTermVal_plain c1 r1 (' ' :: 'T' :: 'O' :: ' ' :: X) h1 (relStop_space _)
  have hsk1 : skip1 (' ' :: 'T' :: 'O' :: ' ' :: X) = some ('T' :: 'O' :: ' ' :: X) := by
    simp [skip1, isNomSpace, List.dropWhile]
  have htag : tag ['T', 'O'] ('T' :: 'O' :: ' ' :: X) = some (' ' :: X) := by
    simp [tag, List.isPrefixOf]
  have hsk0 : skip0 (c1 :: (r1 ++ ' ' :: 'T' :: 'O' :: ' ' :: X)) = c1 :: (r1 ++ ' ' :: 'T' :: 'O' :: ' ' :: X) := by
    simp [skip0, List.dropWhile, (plain_not_space c1 hc1).2]
  have hstar1 : ¬ (c1 :: r1 = star) := by
    intro h
    exact plain_ne c1 '*' hc1 (by decide) (List.cons.inj h).1
  have hstar2 : ¬ (c2 :: r2 = star) := by
    intro h
    exact plain_ne c2 '*' hc2 (by decide) (List.cons.inj h).1
  generalize c1 :: (r1 ++ ' ' :: 'T' :: 'O' :: ' ' :: X) = Y at hA hsk0
  generalize ' ' :: 'T' :: 'O' :: ' ' :: X = Z at hA hsk1
  cases lo <;> cases hi <;>
    simp [range, skip0, List.dropWhile, isNomSpace, tag, List.isPrefixOf] <;>
    simp [skip0] at hsk0 <;>
    simp [hsk0, hA, hsk1, hsk2, hstar1, hstar2, hB, isNomSpace, List.dropWhile]

theorem plainLiteral_range (g : Bool) (lo hi : Bool) (c1 : Char) (r1 : Str) (c2 : Char) (r2 t : Str)
    (h1 : ∀ d ∈ c1 :: r1, plain d = true) (h2 : ∀ d ∈ c2 :: r2, plain d = true) :
    plainLiteral g ((if lo then '[' else '{') :: (c1 :: (r1 ++ ' ' :: 'T' :: 'O' :: ' ' :: (c2 :: (r2 ++ (if hi then ']' else '}') :: t)))))
      = .ok (.leaf (.range none (if lo then .incl (c1 :: r1) else .excl (c1 :: r1))
          (if hi then .incl (c2 :: r2) else .excl (c2 :: r2)))) t := by
  have hr := range_print lo hi c1 r1 c2 r2 t h1 h2
  generalize c1 :: (r1 ++ ' ' :: 'T' :: 'O' :: ' ' :: (c2 :: (r2 ++ (if hi then ']' else '}') :: t))) = x at hr
  have hfn : fieldName ((if lo then '[' else '{') :: x) = none := by
    cases lo <;> simp [fieldName, specialChars]
  simp [plainLiteral, hfn, hr, setField]

/-- a field name in front of a range: the same range with the field set -/
theorem plainLiteral_field_range (g : Bool) (c : Char) (r y : Str) (h : PlainWord (c :: r)) (hy : skip0 y = y)
    (hfn : fieldName y = none) (lo hi : Bound) (t : Str)
    (hY : plainLiteral g y = .ok (.leaf (.range none lo hi)) t) :
    plainLiteral g (c :: (r ++ ':' :: y)) = .ok (.leaf (.range (some (c :: r)) lo hi)) t := by
  rw [plainLiteral_eq] at hY ⊢
  rw [fieldName_field c r y h hy]
  rw [hfn] at hY
  simp only at hY ⊢
  cases hL : leafAlt y with
  | none => rw [hL] at hY; cases hY
  | some lr =>
    obtain ⟨l, r'⟩ := lr
    rw [hL] at hY
    simp only at hY ⊢
    cases l <;> simp [setField] at hY ⊢
    · exact hY
    · cases g <;> simp at hY

theorem pLeaf_bracket (g : Bool) (f' : Nat) (lo : Bool) (x : Str) (a : Ast CLeaf) (t : Str)
    (hp : plainLiteral g ((if lo then '[' else '{') :: x) = .ok a t) :
    pLeaf g (f' + 1) ((if lo then '[' else '{') :: x) = .ok a t := by
  unfold pLeaf
  cases lo
  · simp only [Bool.false_eq_true, if_false] at hp ⊢
    simp [R.orElse, tag, List.isPrefixOf, hp]
  · simp only [if_true] at hp ⊢
    simp [R.orElse, tag, List.isPrefixOf, hp]

/-- a bound of a range: a non-empty string of letters and digits -/
def PlainBound (w : Str) : Prop := w ≠ [] ∧ ∀ d ∈ w, plain d = true

/-- a bracketed range is a good operand -/
theorem goodOpd_range (g : Bool) (lo hi : Bool) (w1 w2 : Str) (hw1 : PlainBound w1) (hw2 : PlainBound w2) :
    GoodOpd g (rangeOpd lo hi w1 w2) := by
  obtain ⟨c1, r1, rfl⟩ := List.exists_cons_of_ne_nil hw1.1
  obtain ⟨c2, r2, rfl⟩ := List.exists_cons_of_ne_nil hw2.1
  refine ⟨⟨if lo then '[' else '{', _, rfl, ?_⟩, ?_, ?_, ?_⟩
  · cases lo <;> decide
  · intro t _
    cases lo <;> simp [rangeOpd, rangeText, binaryOperand, tag, List.isPrefixOf]
  · intro t ht f hf
    obtain ⟨f', rfl⟩ : ∃ f', f = f' + 1 := ⟨f - 1, by simp [rangeOpd] at hf; omega⟩
    have e : (rangeOpd lo hi (c1 :: r1) (c2 :: r2)).text ++ t
        = (if lo then '[' else '{') :: (c1 :: (r1 ++ ' ' :: 'T' :: 'O' :: ' ' :: (c2 :: (r2 ++ (if hi then ']' else '}') :: t)))) := by
      simp [rangeOpd, rangeText]
    rw [e]
    exact pLeaf_bracket g f' lo _ _ t (plainLiteral_range g lo hi c1 r1 c2 r2 t hw1.2 hw2.2)
  · simp [rangeOpd, rangeText]; omega

/-- `name:[a TO b]` is a good operand -/
theorem goodOpd_fieldRange (g : Bool) (f : Str) (lo hi : Bool) (w1 w2 : Str) (hf : PlainWord f)
    (hw1 : PlainBound w1) (hw2 : PlainBound w2) : GoodOpd g (fieldRangeOpd f lo hi w1 w2) := by
  obtain ⟨c, r, rfl⟩ := List.exists_cons_of_ne_nil hf.ne
  obtain ⟨c1, r1, rfl⟩ := List.exists_cons_of_ne_nil hw1.1
  obtain ⟨c2, r2, rfl⟩ := List.exists_cons_of_ne_nil hw2.1
  have hc : plain c = true := hf.all c (by simp)
  refine ⟨⟨c, _, rfl, (plain_not_space c hc).2, plain_ne c ':' hc (by decide),
    plain_ne c '+' hc (by decide), plain_ne c '-' hc (by decide), plain_ne c ')' hc (by decide)⟩, ?_, ?_, ?_⟩
  · intro t _
    have e : (fieldRangeOpd (c :: r) lo hi (c1 :: r1) (c2 :: r2)).text ++ t
        = (c :: r) ++ ':' :: ((if lo then '[' else '{') :: (c1 :: (r1 ++ ' ' :: 'T' :: 'O' :: ' ' :: (c2 :: (r2 ++ (if hi then ']' else '}') :: t))))) := by
      simp [fieldRangeOpd, rangeText]
    rw [e]
    exact binaryOperand_field (c :: r) _ hf
  · intro t ht f hfu
    obtain ⟨f', rfl⟩ : ∃ f', f = f' + 1 := ⟨f - 1, by simp [fieldRangeOpd] at hfu; omega⟩
    have e : (fieldRangeOpd (c :: r) lo hi (c1 :: r1) (c2 :: r2)).text ++ t
        = c :: (r ++ ':' :: ((if lo then '[' else '{') :: (c1 :: (r1 ++ ' ' :: 'T' :: 'O' :: ' ' :: (c2 :: (r2 ++ (if hi then ']' else '}') :: t)))))) := by
      simp [fieldRangeOpd, rangeText]
    rw [e]
    have hp := plainLiteral_range g lo hi c1 r1 c2 r2 t hw1.2 hw2.2
    generalize c1 :: (r1 ++ ' ' :: 'T' :: 'O' :: ' ' :: (c2 :: (r2 ++ (if hi then ']' else '}') :: t))) = x at hp
    exact pLeaf_field g f' c r _ hf _ t
      (plainLiteral_field_range g c r _ hf (by cases lo <;> simp [skip0, List.dropWhile, isNomSpace])
        (by cases lo <;> simp [fieldName, specialChars]) _ _ t hp)
  · simp [fieldRangeOpd, rangeText]; omega

end TantivyModel.Grammar.Chars
