import TantivyModel.Proofs.Grammar
namespace TantivyModel.Grammar
variable {L T : Type}

/-! ## semantics of clauses -/

theorem semAst_clause (m : Mode) (res : L → LAst T) (v : T → Bool) (cs : List (Entry L)) :
    semAst m res v (.clause cs) = boolSem (semLs v (toLogicalL m res cs)) := by
  simp [semAst, toLogical, semL]

/-- no operand resolves to a dead (trimmed) tree -/
def NoDead (m : Mode) (res : L → LAst T) (cs : List (Entry L)) : Prop :=
  ∀ e ∈ cs, isDead (toLogical m res e.2) = false

theorem semLs_noDead (m : Mode) (res : L → LAst T) (v : T → Bool) (cs : List (Entry L))
    (h : NoDead m res cs) :
    semLs v (toLogicalL m res cs) = cs.map (fun e => (e.1.getD m.occ, semAst m res v e.2)) := by
  induction cs with
  | nil => simp [toLogicalL, semLs]
  | cons e rest ih =>
    obtain ⟨o, a⟩ := e
    have h1 : isDead (toLogical m res a) = false := h (o, a) (by simp)
    have h2 : NoDead m res rest := fun e he => h e (by simp [he])
    simp [toLogicalL, semLs, h1, ih h2, semAst]

theorem allDead_noDead (m : Mode) (res : L → LAst T) (cs : List (Entry L))
    (h : NoDead m res cs) (hne : cs ≠ []) : allDead (toLogicalL m res cs) = false := by
  cases cs with
  | nil => exact absurd rfl hne
  | cons e rest =>
    obtain ⟨o, a⟩ := e
    have h1 : isDead (toLogical m res a) = false := h (o, a) (by simp)
    simp [toLogicalL, allDead, h1]

@[simp] theorem occ_bne_1 : (Occur.must != Occur.mustNot) = true := by decide
@[simp] theorem occ_bne_2 : (Occur.must != Occur.should) = true := by decide
@[simp] theorem occ_bne_3 : (Occur.should != Occur.must) = true := by decide
@[simp] theorem occ_bne_4 : (Occur.should != Occur.mustNot) = true := by decide
@[simp] theorem occ_bne_5 : (Occur.mustNot != Occur.must) = true := by decide
@[simp] theorem occ_bne_6 : (Occur.mustNot != Occur.should) = true := by decide
@[simp] theorem occ_bne_7 (o : Occur) : (o != o) = false := by cases o <;> decide
@[simp] theorem occ_beq_1 : (Occur.must == Occur.mustNot) = false := by decide
@[simp] theorem occ_beq_2 : (Occur.must == Occur.should) = false := by decide
@[simp] theorem occ_beq_3 : (Occur.should == Occur.must) = false := by decide
@[simp] theorem occ_beq_4 : (Occur.should == Occur.mustNot) = false := by decide
@[simp] theorem occ_beq_5 : (Occur.mustNot == Occur.must) = false := by decide
@[simp] theorem occ_beq_6 : (Occur.mustNot == Occur.should) = false := by decide
@[simp] theorem occ_beq_7 (o : Occur) : (o == o) = true := by cases o <;> decide

theorem boolSem_all_must (l : List Bool) (hne : l ≠ []) :
    boolSem (l.map (fun b => (Occur.must, b))) = l.all id := by
  induction l with
  | nil => exact absurd rfl hne
  | cons b rest ih =>
    cases rest with
    | nil => cases b <;> simp [boolSem]
    | cons c r =>
      have := ih (by simp)
      simp [boolSem] at this ⊢
      cases b <;> simp_all

theorem boolSem_all_should (l : List Bool) :
    boolSem (l.map (fun b => (Occur.should, b))) = l.any id := by
  induction l with
  | nil => simp [boolSem]
  | cons b rest ih =>
    simp [boolSem] at ih ⊢
    cases b <;> simp_all

end TantivyModel.Grammar
