import TantivyModel.Proofs.MergeMulti
/-! a running merge keeps its invariant when ANOTHER merge ends -/
namespace TantivyModel.Merge

theorem containsAll_comm (a b : List Entry) (ids : List Nat) :
    containsAll (a ++ b) ids = containsAll (b ++ a) ids := by
  cases h1 : containsAll (a ++ b) ids with
  | true => exact (containsAll_mono _ _ _ (fun e he => by
      rw [List.mem_append] at he ⊢; exact he.symm) h1).symm
  | false =>
    cases h2 : containsAll (b ++ a) ids with
    | false => rfl
    | true =>
      have := containsAll_mono _ (a ++ b) _ (fun e he => by
        rw [List.mem_append] at he ⊢; exact he.symm) h2
      rw [this] at h1; cases h1

theorem runInv_after_other_end (s : Sys) (hI : Inv s) (ri rj : Running)
    (hj : RunInv s rj) (hi : ri.epoch = s.st.epoch → RunInv s ri)
    (hnot : ∀ m ∈ ri.merged.toList, m.segId ∉ rj.sources)
    (hdist : ∀ m ∈ ri.merged.toList, ∀ m' ∈ rj.merged.toList, m.segId ≠ m'.segId) :
    RunInv { s with st := endMerge s.st ri } rj := by
  by_cases hep : ri.epoch = s.st.epoch
  · have hri := hi hep
    obtain ⟨hrec, hfacts, _⟩ := reconciled_facts s hI ri hri
    -- the reconciled merged entries of `ri` keep the ids of the merged entries
    have hnot' : ∀ x ∈ (ri.merged.map (reconcile s.st)).toList, x.segId ∉ rj.sources := by
      intro x hx
      rw [hrec] at hx
      obtain ⟨m, hm, rfl⟩ := List.mem_map.1 hx
      exact hnot m hm
    have hdist' : ∀ x ∈ (ri.merged.map (reconcile s.st)).toList, ∀ m' ∈ rj.merged.toList,
        x.segId ≠ m'.segId := by
      intro x hx m' hm'
      rw [hrec] at hx
      obtain ⟨m, hm, rfl⟩ := List.mem_map.1 hx
      exact hdist m hm m' hm'
    by_cases hu : containsAll s.st.uncommitted ri.sources = true
    · rw [endMerge_unc s.st ri hep hu]
      have hso := swapIn_other s.st.uncommitted s.st.committed ri.sources rj.sources
        (ri.merged.map (reconcile s.st)) hnot' hI.ids hu
      refine { srcs_ne := hj.srcs_ne, srcs_lt := hj.srcs_lt, mwf := ?_, pendAll := ?_, pubC := hj.pubC }
      · intro m hm
        obtain ⟨h1, h2, h3, h4⟩ := hj.mwf m hm
        refine ⟨h1, h2, h3, ?_⟩
        intro e he
        rw [List.mem_append] at he
        rcases he with he | he
        · rcases mem_swapIn _ _ _ _ he with ⟨h5, _⟩ | h5
          · exact h4 e (List.mem_append_left _ h5)
          · exact hdist' e h5 m hm
        · exact h4 e (List.mem_append_right _ he)
      · intro hc
        obtain ⟨hc0, hdis⟩ := hso.1 hc
        have hf := hso.2 hdis
        show _ = (((swapIn s.st.uncommitted ri.sources (ri.merged.map (reconcile s.st)) ++ s.st.committed).filter
          (inSources rj.sources)).map (docsAll s.st.queue)).flatten
        rw [List.filter_append, hf, ← List.filter_append]
        exact hj.pendAll hc0
    · have hu' := bool_false_of_not_true hu
      by_cases hc : containsAll s.st.committed ri.sources = true
      · rw [endMerge_com s.st ri hep hu' hc]
        have hnd' : ((s.st.committed ++ s.st.uncommitted).map (·.segId)).Nodup :=
          ((List.perm_append_comm (l₁ := s.st.committed) (l₂ := s.st.uncommitted)).map (fun e : Entry => e.segId)).nodup_iff.2 hI.ids
        have hso := swapIn_other s.st.committed s.st.uncommitted ri.sources rj.sources
          (ri.merged.map (reconcile s.st)) hnot' hnd' hc
        have hnd0 : ((s.st.committed ++ ([] : List Entry)).map (fun e : Entry => e.segId)).Nodup := by
          rw [List.append_nil]
          exact hI.ids.sublist ((List.sublist_append_right _ _).map _)
        have hso0 := swapIn_other s.st.committed ([] : List Entry) ri.sources rj.sources
          (ri.merged.map (reconcile s.st)) hnot' hnd0 hc
        refine { srcs_ne := hj.srcs_ne, srcs_lt := hj.srcs_lt, mwf := ?_, pendAll := ?_, pubC := ?_ }
        · intro m hm
          obtain ⟨h1, h2, h3, h4⟩ := hj.mwf m hm
          refine ⟨h1, h2, h3, ?_⟩
          intro e he
          rw [List.mem_append] at he
          rcases he with he | he
          · exact h4 e (List.mem_append_left _ he)
          · rcases mem_swapIn _ _ _ _ he with ⟨h5, _⟩ | h5
            · exact h4 e (List.mem_append_right _ h5)
            · exact hdist' e h5 m hm
        · intro hcj
          have hcj' : containsAll (swapIn s.st.committed ri.sources (ri.merged.map (reconcile s.st))
              ++ s.st.uncommitted) rj.sources = true := by
            rw [containsAll_comm]; exact hcj
          obtain ⟨hc0, hdis⟩ := hso.1 hcj'
          have hf := hso.2 hdis
          rw [containsAll_comm] at hc0
          show _ = (((s.st.uncommitted ++ swapIn s.st.committed ri.sources (ri.merged.map (reconcile s.st))).filter
            (inSources rj.sources)).map (docsAll s.st.queue)).flatten
          rw [List.filter_append, hf, ← List.filter_append]
          exact hj.pendAll hc0
        · intro hcj
          have hcj' : containsAll (swapIn s.st.committed ri.sources (ri.merged.map (reconcile s.st)) ++ [])
              rj.sources = true := by
            rw [List.append_nil]; exact hcj
          obtain ⟨hc0, hdis⟩ := hso0.1 hcj'
          rw [List.append_nil] at hc0
          have hf := hso0.2 hdis
          obtain ⟨heq, hcur⟩ := hj.pubC hc0
          obtain ⟨_, hcuri⟩ := hri.pubC hc
          have hcomne : s.st.committed ≠ [] := by
            intro h
            rw [h, containsAll_nil_left _ hri.srcs_ne] at hc; cases hc
          obtain ⟨e0, he0⟩ := List.exists_mem_of_ne_nil _ hcomne
          constructor
          · show _ = (((swapIn s.st.committed ri.sources (ri.merged.map (reconcile s.st))).filter
              (inSources rj.sources)).map liveDocsOf).flatten
            rw [hf]
            exact heq
          · intro m hm e he
            rcases mem_swapIn _ _ _ _ he with ⟨h5, _⟩ | h5
            · exact hcur m hm e h5
            · rw [hrec] at h5
              obtain ⟨mi, hmi, rfl⟩ := List.mem_map.1 h5
              show (advance s.st.queue m s.st.committedOpstamp).cursor
                = (advance s.st.queue mi s.st.committedOpstamp).cursor
              rw [hcur m hm e0 he0, hcuri mi hmi e0 he0]
      · have : endMerge s.st ri = s.st :=
          endMergeWith_discard_missing true s.st ri hu' (bool_false_of_not_true hc)
        rw [this]
        exact ⟨hj.srcs_ne, hj.srcs_lt, hj.mwf, hj.pendAll, hj.pubC⟩
  · have : endMerge s.st ri = s.st := endMergeWith_discard_epoch true s.st ri hep
    rw [this]
    exact ⟨hj.srcs_ne, hj.srcs_lt, hj.mwf, hj.pendAll, hj.pubC⟩

end TantivyModel.Merge
