import TantivyModel.Proofs.AggCut
import TantivyModel.Proofs.AggSpecPV
/-!
C14 helper lemmas: the composite collector keeps, per segment, only the first `size` buckets
after the `after` key (eviction in `collect_bucket_with_limit`; trimming in `merge_fruits`).
`compTrim` models that, and `trim (merge (trim a) (trim b)) = trim (merge a b)` shows that it
is invisible in the page that is finally returned.
-/
namespace TantivyModel.Agg

/-! ### lists -/

/-- if the weaker filter `P'` still accepts everything among the first `n` that `P` accepts, the
first `n` are the same -/
theorem take_filter_congr {α : Type} (P P' : α → Bool) : ∀ (n : Nat) (l : List α),
    (∀ x, P' x = true → P x = true) → (∀ x ∈ (l.filter P).take n, P' x = true) →
    (l.filter P').take n = (l.filter P).take n
  | 0, _, _, _ => by simp
  | _ + 1, [], _, _ => by simp
  | n + 1, x :: xs, himp, hin => by
    by_cases hp : P x = true
    · have hp' : P' x = true := hin x (by simp [List.filter_cons, hp])
      simp only [List.filter_cons, hp, hp', if_true, List.take_succ_cons, List.cons.injEq, true_and]
      apply take_filter_congr P P' n xs himp
      intro y hy
      exact hin y (by simp only [List.filter_cons, hp, if_true, List.take_succ_cons]; exact List.mem_cons_of_mem _ hy)
    · have hp' : P' x = false := by
        cases h : P' x
        · rfl
        · exact absurd (himp x h) hp
      have hpf : P x = false := by simpa using hp
      simp only [List.filter_cons, hpf, hp', Bool.false_eq_true, if_false]
      apply take_filter_congr P P' (n + 1) xs himp
      intro y hy
      exact hin y (by simp only [List.filter_cons, hpf, Bool.false_eq_true, if_false]; exact hy)

/-- membership in the first `n` accepted elements of a strictly ascending list, by rank -/
theorem mem_take_filter (P : Int → Bool) : ∀ (n : Nat) (l : List Int), l.Pairwise (· < ·) → ∀ k,
    (k ∈ (l.filter P).take n ↔
      k ∈ l ∧ P k = true ∧ (l.filter (fun j => decide (j < k) && P j)).length < n)
  | 0, l, _, k => by simp
  | n + 1, [], _, k => by simp
  | n + 1, x :: xs, hs, k => by
    obtain ⟨hx, hxs⟩ := List.pairwise_cons.1 hs
    by_cases hp : P x = true
    · simp only [List.filter_cons, hp, if_true, List.take_succ_cons, List.mem_cons]
      rw [mem_take_filter P n xs hxs k]
      constructor
      · rintro (rfl | ⟨hk, hpk, hlen⟩)
        · refine ⟨Or.inl rfl, hp, ?_⟩
          have : (xs.filter (fun j => decide (j < k) && P j)) = [] := by
            rw [List.filter_eq_nil_iff]; intro j hj; have := hx j hj; simp; intro h; omega
          simp [this]
        · have hlt : x < k := hx k hk
          refine ⟨Or.inr hk, hpk, ?_⟩
          simp only [hlt, decide_true, Bool.true_and, hp, if_true, List.length_cons]
          omega
      · rintro ⟨hk, hpk, hlen⟩
        rcases hk with rfl | hk
        · exact Or.inl rfl
        · have hlt : x < k := hx k hk
          refine Or.inr ⟨hk, hpk, ?_⟩
          simp only [hlt, decide_true, Bool.true_and, hp, if_true, List.length_cons] at hlen
          omega
    · have hpf : P x = false := by simpa using hp
      simp only [List.filter_cons, hpf, Bool.false_eq_true, if_false, List.mem_cons, Bool.and_false]
      rw [mem_take_filter P (n + 1) xs hxs k]
      constructor
      · rintro ⟨hk, hpk, hlen⟩; exact ⟨Or.inr hk, hpk, hlen⟩
      · rintro ⟨hk, hpk, hlen⟩
        rcases hk with rfl | hk
        · rw [hpf] at hpk; exact absurd hpk (by simp)
        · exact ⟨hk, hpk, hlen⟩

theorem pairwise_intRange : ∀ (n : Nat) (lo : Int), (intRange lo n).Pairwise (· < ·)
  | 0, _ => by simp [intRange]
  | n + 1, lo => by
    simp only [intRange]
    refine List.pairwise_cons.2 ⟨?_, pairwise_intRange n (lo + 1)⟩
    intro j hj
    have := (mem_intRange.1 hj).1
    omega

theorem pairwise_spanOf (h : Option (Int × Int)) : (spanOf h).Pairwise (· < ·) := by
  unfold spanOf
  cases h with
  | none => simp
  | some p => exact pairwise_intRange _ _

/-- the number of accepted elements does not depend on which duplicate-free enumeration is used,
as long as it contains every accepted element -/
theorem filter_length_eq (Q : Int → Bool) (l₁ l₂ : List Int) (h1 : l₁.Nodup) (h2 : l₂.Nodup)
    (hq1 : ∀ j, Q j = true → j ∈ l₁) (hq2 : ∀ j, Q j = true → j ∈ l₂) :
    (l₁.filter Q).length = (l₂.filter Q).length := by
  apply List.Perm.length_eq
  apply (List.perm_ext_iff_of_nodup (List.Nodup.sublist List.filter_sublist h1)
    (List.Nodup.sublist List.filter_sublist h2)).2
  intro a
  simp only [List.mem_filter]
  constructor
  · rintro ⟨_, hq⟩; exact ⟨hq2 a hq, hq⟩
  · rintro ⟨_, hq⟩; exact ⟨hq1 a hq, hq⟩

theorem filter_length_le_of_imp (P Q : Int → Bool) (l : List Int) (h : ∀ j, P j = true → Q j = true) :
    (l.filter P).length ≤ (l.filter Q).length := by
  induction l with
  | nil => simp
  | cons x xs ih =>
    by_cases hp : P x = true
    · simp only [List.filter_cons, hp, h x hp, if_true, List.length_cons]; omega
    · have hpf : P x = false := by simpa using hp
      by_cases hq : Q x = true
      · simp only [List.filter_cons, hpf, hq, Bool.false_eq_true, if_false, if_true, List.length_cons]; omega
      · have hqf : Q x = false := by simpa using hq
        simp only [List.filter_cons, hpf, hqf, Bool.false_eq_true, if_false]; exact ih

/-! ### the page of a key map, trimming to it -/

section trim
variable {V : Type}

theorem supp_restrict {m : KMap (Nat × V)} (hs : Supp m) (keep : List Int) : Supp (m.restrict keep) := by
  intro k e hg
  simp only [KMap.restrict] at hg ⊢
  split at hg
  · exact hs k e hg
  · cases hg

theorem supp_merge (f : (Nat × V) → (Nat × V) → (Nat × V)) {a b : KMap (Nat × V)} (ha : Supp a) (hb : Supp b) :
    Supp (KMap.merge f a b) := by
  intro k e hg
  simp only [KMap.merge] at hg ⊢
  cases hga : a.get k with
  | none =>
    cases hgb : b.get k with
    | none => simp [hga, hgb, optMerge] at hg
    | some y => exact inHull_merge_right (hb k y hgb)
  | some x => exact inHull_merge_left (ha k x hga)

theorem mem_pageKeys {size : Nat} {after : Option Int} {m : KMap (Nat × V)} {k : Int} :
    k ∈ pageKeys size after m ↔ k ∈ spanOf m.hull ∧ validKey after k = true ∧ (m.get k).isSome = true
      ∧ ((spanOf m.hull).filter (fun j => decide (j < k) && (validKey after j && (m.get j).isSome))).length < size := by
  unfold pageKeys
  rw [mem_take_filter _ size _ (pairwise_spanOf m.hull) k]
  simp only [Bool.and_eq_true]
  constructor
  · rintro ⟨h1, ⟨h2, h3⟩, h4⟩; exact ⟨h1, h2, h3, h4⟩
  · rintro ⟨h1, h2, h3, h4⟩; exact ⟨h1, ⟨h2, h3⟩, h4⟩

/-- rank of `k` (number of valid present keys below it), over any enumeration containing the support -/
theorem rank_eq (after : Option Int) (m : KMap (Nat × V)) (hs : Supp m) (H : Option (Int × Int))
    (hH : ∀ j, inHull m.hull j → inHull H j) (k : Int) :
    ((spanOf m.hull).filter (fun j => decide (j < k) && (validKey after j && (m.get j).isSome))).length
      = ((spanOf H).filter (fun j => decide (j < k) && (validKey after j && (m.get j).isSome))).length := by
  apply filter_length_eq _ _ _ (nodup_spanOf _) (nodup_spanOf _)
  · intro j hj
    simp only [Bool.and_eq_true] at hj
    obtain ⟨_, _, hsome⟩ := hj
    obtain ⟨e, he⟩ := Option.isSome_iff_exists.1 hsome
    exact mem_spanOf.2 (hs j e he)
  · intro j hj
    simp only [Bool.and_eq_true] at hj
    obtain ⟨_, _, hsome⟩ := hj
    obtain ⟨e, he⟩ := Option.isSome_iff_exists.1 hsome
    exact mem_spanOf.2 (hH j (hs j e he))

theorem isSome_optMerge (f : (Nat × V) → (Nat × V) → (Nat × V)) (x y : Option (Nat × V)) :
    (optMerge f x y).isSome = (x.isSome || y.isSome) := by
  cases x <;> cases y <;> rfl

/-- a page key of the merged map is a page key of every side on which it is present -/
theorem page_of_merged (f : (Nat × V) → (Nat × V) → (Nat × V)) (size : Nat) (after : Option Int)
    (a b : KMap (Nat × V)) (ha : Supp a) {k : Int}
    (hk : k ∈ pageKeys size after (KMap.merge f a b)) {e : Nat × V} (hga : a.get k = some e) :
    k ∈ pageKeys size after a := by
  obtain ⟨_, hv, _, hrank⟩ := mem_pageKeys.1 hk
  refine mem_pageKeys.2 ⟨mem_spanOf.2 (ha k e hga), hv, by simp [hga], ?_⟩
  rw [rank_eq after a ha (KMap.merge f a b).hull (fun j hj => inHull_merge_left hj) k]
  refine Nat.lt_of_le_of_lt (filter_length_le_of_imp _ _ _ ?_) hrank
  intro j hj
  simp only [Bool.and_eq_true] at hj ⊢
  obtain ⟨h1, h2, h3⟩ := hj
  refine ⟨h1, h2, ?_⟩
  show (optMerge f (a.get j) (b.get j)).isSome = true
  rw [isSome_optMerge, h3]; rfl

theorem restrict_get (m : KMap (Nat × V)) (keep : List Int) (k : Int) :
    (m.restrict keep).get k = if keep.contains k then m.get k else Option.none := rfl

/-- on the page of the merged map, the trimmed operands merge to the same entry -/
theorem trimmed_get_on_page (f : (Nat × V) → (Nat × V) → (Nat × V)) (size : Nat) (after : Option Int)
    (a b : KMap (Nat × V)) (ha : Supp a) (hb : Supp b) {k : Int}
    (hk : k ∈ pageKeys size after (KMap.merge f a b)) :
    (KMap.merge f (compTrim size after a) (compTrim size after b)).get k = (KMap.merge f a b).get k := by
  have hk' : k ∈ pageKeys size after (KMap.merge f b a) := by
    -- the page only depends on which keys are present
    unfold pageKeys at hk ⊢
    have e1 : (KMap.merge f b a).hull = (KMap.merge f a b).hull := hullMerge_comm _ _
    have e2 : (fun k => validKey after k && ((KMap.merge f b a).get k).isSome)
        = (fun k => validKey after k && ((KMap.merge f a b).get k).isSome) := by
      funext j
      show (validKey after j && (optMerge f (b.get j) (a.get j)).isSome) = (validKey after j && (optMerge f (a.get j) (b.get j)).isSome)
      rw [isSome_optMerge, isSome_optMerge, Bool.or_comm]
    rw [e1, e2]; exact hk
  show optMerge f ((compTrim size after a).get k) ((compTrim size after b).get k) = optMerge f (a.get k) (b.get k)
  have hA : (compTrim size after a).get k = a.get k := by
    unfold compTrim
    rw [restrict_get]
    cases hga : a.get k with
    | none => simp
    | some e =>
      have hmem := page_of_merged f size after a b ha hk hga
      have : (pageKeys size after a).contains k = true := by simpa using hmem
      simp only [this, if_true]
  have hB : (compTrim size after b).get k = b.get k := by
    unfold compTrim
    rw [restrict_get]
    cases hgb : b.get k with
    | none => simp
    | some e =>
      have hmem := page_of_merged f size after b a hb hk' hgb
      have : (pageKeys size after b).contains k = true := by simpa using hmem
      simp only [this, if_true]
  rw [hA, hB]

theorem trim_get_isSome_imp (size : Nat) (after : Option Int) (m : KMap (Nat × V)) (k : Int)
    (h : ((compTrim size after m).get k).isSome = true) : (m.get k).isSome = true := by
  unfold compTrim at h
  rw [restrict_get] at h
  split at h
  · exact h
  · simp at h

/-- **trimming is invisible in the page**: trimming the operands first does not change the
trimmed merge -/
theorem trim_merge (f : (Nat × V) → (Nat × V) → (Nat × V)) (size : Nat) (after : Option Int)
    (a b : KMap (Nat × V)) (ha : Supp a) (hb : Supp b) :
    compTrim size after (KMap.merge f (compTrim size after a) (compTrim size after b))
      = compTrim size after (KMap.merge f a b) := by
  have hhull : (KMap.merge f (compTrim size after a) (compTrim size after b)).hull = (KMap.merge f a b).hull := rfl
  -- the pages have the same keys
  have hpage : pageKeys size after (KMap.merge f (compTrim size after a) (compTrim size after b))
      = pageKeys size after (KMap.merge f a b) := by
    unfold pageKeys
    rw [hhull]
    apply take_filter_congr
    · intro k hk
      simp only [Bool.and_eq_true] at hk ⊢
      refine ⟨hk.1, ?_⟩
      have h2 := hk.2
      change (optMerge f ((compTrim size after a).get k) ((compTrim size after b).get k)).isSome = true at h2
      rw [isSome_optMerge] at h2
      show (optMerge f (a.get k) (b.get k)).isSome = true
      rw [isSome_optMerge]
      have h2' : ((compTrim size after a).get k).isSome = true ∨ ((compTrim size after b).get k).isSome = true := by
        simpa [Bool.or_eq_true] using h2
      rcases h2' with h | h
      · rw [trim_get_isSome_imp size after a k h]; rfl
      · rw [trim_get_isSome_imp size after b k h]; simp
    · intro k hk
      have hk2 : k ∈ pageKeys size after (KMap.merge f a b) := hk
      have hget := trimmed_get_on_page f size after a b ha hb hk2
      obtain ⟨_, hv, hsome, _⟩ := mem_pageKeys.1 hk2
      simp only [Bool.and_eq_true]
      exact ⟨hv, by rw [hget]; exact hsome⟩
  rw [show compTrim size after (KMap.merge f (compTrim size after a) (compTrim size after b))
      = (KMap.merge f (compTrim size after a) (compTrim size after b)).restrict
          (pageKeys size after (KMap.merge f (compTrim size after a) (compTrim size after b))) from rfl, hpage]
  show KMap.mk (KMap.merge f (compTrim size after a) (compTrim size after b)).hull _
    = KMap.mk (KMap.merge f a b).hull _
  rw [hhull]
  congr 1
  funext k
  by_cases hc : (pageKeys size after (KMap.merge f a b)).contains k
  · have hk : k ∈ pageKeys size after (KMap.merge f a b) := by simpa using hc
    simp only [hc, if_true]
    exact trimmed_get_on_page f size after a b ha hb hk
  · simp only [hc, Bool.false_eq_true, if_false]

theorem supp_trim {m : KMap (Nat × V)} (hs : Supp m) (size : Nat) (after : Option Int) :
    Supp (compTrim size after m) := supp_restrict hs _

theorem trim_get_on_page (size : Nat) (after : Option Int) (m : KMap (Nat × V)) {k : Int}
    (hk : k ∈ pageKeys size after m) : (compTrim size after m).get k = m.get k := by
  unfold compTrim
  rw [restrict_get]
  have : (pageKeys size after m).contains k = true := by simpa using hk
  simp only [this, if_true]

theorem pageKeys_trim (size : Nat) (after : Option Int) (m : KMap (Nat × V)) :
    pageKeys size after (compTrim size after m) = pageKeys size after m := by
  show ((spanOf m.hull).filter _).take size = ((spanOf m.hull).filter _).take size
  apply take_filter_congr
  · intro k hk
    simp only [Bool.and_eq_true] at hk ⊢
    exact ⟨hk.1, trim_get_isSome_imp size after m k hk.2⟩
  · intro k hk
    have hk2 : k ∈ pageKeys size after m := hk
    obtain ⟨_, hv, hsome, _⟩ := mem_pageKeys.1 hk2
    simp only [Bool.and_eq_true]
    exact ⟨hv, by rw [trim_get_on_page size after m hk2]; exact hsome⟩

theorem trim_idem (size : Nat) (after : Option Int) (m : KMap (Nat × V)) :
    compTrim size after (compTrim size after m) = compTrim size after m := by
  rw [show compTrim size after (compTrim size after m)
      = (compTrim size after m).restrict (pageKeys size after (compTrim size after m)) from rfl, pageKeys_trim]
  show KMap.mk m.hull _ = KMap.mk m.hull _
  congr 1
  funext k
  show (if (pageKeys size after m).contains k then (compTrim size after m).get k else Option.none) = _
  unfold compTrim
  rw [restrict_get]
  by_cases hc : (pageKeys size after m).contains k
  · simp only [hc, if_true]
  · simp only [hc, Bool.false_eq_true, if_false]

/-- any number of segments: trimming every fruit (and nothing else) does not change the trimmed fold -/
theorem trim_fold (f : (Nat × V) → (Nat × V) → (Nat × V)) (size : Nat) (after : Option Int) :
    ∀ (ms : List (KMap (Nat × V))) (acc acc' : KMap (Nat × V)), (∀ m ∈ ms, Supp m) → Supp acc → Supp acc' →
      compTrim size after acc' = compTrim size after acc →
      compTrim size after ((ms.map (compTrim size after)).foldl (KMap.merge f) acc')
        = compTrim size after (ms.foldl (KMap.merge f) acc)
  | [], _, _, _, _, _, h => h
  | m :: ms, acc, acc', hms, hacc, hacc', h => by
    have hm : Supp m := hms m (List.mem_cons_self)
    simp only [List.map_cons, List.foldl_cons]
    apply trim_fold f size after ms _ _ (fun x hx => hms x (List.mem_cons_of_mem _ hx))
      (supp_merge f hacc hm) (supp_merge f hacc' (supp_trim hm size after))
    rw [← trim_merge f size after acc' (compTrim size after m) hacc' (supp_trim hm size after),
      trim_idem, h, trim_merge f size after acc m hacc hm]

theorem trim_mergeWhen (dec : KMap (Nat × V) → Bool) (f : (Nat × V) → (Nat × V) → (Nat × V)) (size : Nat)
    (after : Option Int) (a b : KMap (Nat × V)) :
    compTrim size after (compMergeWhen dec f size after a b) = compTrim size after (KMap.merge f a b) := by
  unfold compMergeWhen
  by_cases h : dec (KMap.merge f a b) = true
  · simp only [h, if_true]; exact trim_idem _ _ _
  · simp only [h, Bool.false_eq_true, if_false]

theorem supp_mergeWhen (dec : KMap (Nat × V) → Bool) (f : (Nat × V) → (Nat × V) → (Nat × V)) (size : Nat)
    (after : Option Int) {a b : KMap (Nat × V)} (ha : Supp a) (hb : Supp b) :
    Supp (compMergeWhen dec f size after a b) := by
  unfold compMergeWhen
  by_cases h : dec (KMap.merge f a b) = true
  · simp only [h, if_true]; exact supp_trim (supp_merge f ha hb) _ _
  · simp only [h, Bool.false_eq_true, if_false]; exact supp_merge f ha hb

/-- any number of segments, any trimming schedule at merge time: trimming every fruit and trimming
after any of the merges does not change the trimmed fold -/
theorem trim_fold_when (dec : KMap (Nat × V) → Bool) (f : (Nat × V) → (Nat × V) → (Nat × V)) (size : Nat)
    (after : Option Int) :
    ∀ (ms : List (KMap (Nat × V))) (acc acc' : KMap (Nat × V)), (∀ m ∈ ms, Supp m) → Supp acc → Supp acc' →
      compTrim size after acc' = compTrim size after acc →
      compTrim size after ((ms.map (compTrim size after)).foldl (compMergeWhen dec f size after) acc')
        = compTrim size after (ms.foldl (KMap.merge f) acc)
  | [], _, _, _, _, _, h => h
  | m :: ms, acc, acc', hms, hacc, hacc', h => by
    have hm : Supp m := hms m (List.mem_cons_self)
    simp only [List.map_cons, List.foldl_cons]
    apply trim_fold_when dec f size after ms _ _ (fun x hx => hms x (List.mem_cons_of_mem _ hx))
      (supp_merge f hacc hm) (supp_mergeWhen dec f size after hacc' (supp_trim hm size after))
    rw [trim_mergeWhen, ← trim_merge f size after acc' (compTrim size after m) hacc' (supp_trim hm size after),
      trim_idem, h, trim_merge f size after acc m hacc hm]

theorem compMergeFruits_eq_when (f : (Nat × V) → (Nat × V) → (Nat × V)) (size : Nat) (after : Option Int) :
    compMergeFruits f size after
      = compMergeWhen (fun m => decide (m.entries.length > 2 * size)) f size after := by
  funext a b
  unfold compMergeFruits compMergeWhen
  by_cases h : (KMap.merge f a b).entries.length > 2 * size
  · simp only [h, if_true, decide_true]
  · simp only [h, if_false, decide_false, Bool.false_eq_true]

theorem compPage_pred {W : Type} (size : Nat) (after : Option Int) (l : List (Int × Nat × W)) :
    compPage size after l = (l.filter (fun b => validKey after b.1)).take size := by
  unfold compPage validKey
  cases after <;> rfl

/-- the page that is returned only depends on the trimmed map -/
theorem page_of_trim {W : Type} (size : Nat) (after : Option Int) (m : KMap (Nat × V))
    (h : Int × Nat × V → Int × Nat × W) (hkey : ∀ e, (h e).1 = e.1) :
    compPage size after ((compTrim size after m).entries.map h) = compPage size after (m.entries.map h) := by
  rw [compPage_pred, compPage_pred]
  have hcomm : ∀ (l : List (Int × Nat × V)), (l.map h).filter (fun b => validKey after b.1)
      = (l.filter (fun e => validKey after e.1)).map h := by
    intro l
    induction l with
    | nil => rfl
    | cons x xs ih => simp only [List.map_cons, List.filter_cons, hkey x, ih]; split <;> rfl
  rw [hcomm, hcomm, ← List.map_take, ← List.map_take]
  congr 1
  unfold compTrim
  rw [entries_restrict]
  -- the page keys are the keys of the first `size` valid entries
  have hpk : pageKeys size after m = ((m.entries.filter (fun e => validKey after e.1)).take size).map (·.1) := by
    unfold pageKeys KMap.entries
    rw [List.map_take]
    congr 1
    induction (spanOf m.hull) with
    | nil => rfl
    | cons k l ih =>
      cases hg : m.get k with
      | none => simp only [List.filter_cons, List.filterMap_cons, hg, Option.isSome_none, Bool.and_false,
          Bool.false_eq_true, if_false, Option.map_none]; exact ih
      | some v =>
        simp only [List.filter_cons, List.filterMap_cons, hg, Option.isSome_some, Bool.and_true, Option.map_some]
        by_cases hv : validKey after k = true
        · simp only [hv, if_true, List.map_cons, ih]
        · have hvf : validKey after k = false := by simpa using hv
          simp only [hvf, Bool.false_eq_true, if_false]; exact ih
  rw [hpk, List.filter_filter]
  have hsw : (m.entries.filter (fun e => validKey after e.1 && ((((m.entries.filter (fun e => validKey after e.1)).take size).map (·.1)).contains e.1)))
      = (m.entries.filter (fun e => validKey after e.1)).filter
          (fun e => ((((m.entries.filter (fun e => validKey after e.1)).take size).map (·.1)).contains e.1)) := by
    rw [List.filter_filter]
    apply List.filter_congr
    intro e _
    rw [Bool.and_comm]
  rw [hsw, filter_take_keys size (m.entries.filter (fun e => validKey after e.1))
    (List.Nodup.sublist (List.Sublist.map _ List.filter_sublist) (entries_keys_nodup m)), List.take_take, Nat.min_self]

end trim

section compositeFold
variable {M : Type} [AddOp M] [LawfulAddOp M]

theorem collectB_Supp_pv (sub : Req) (keysOf : Doc → List Int) (docs : List Doc) :
    Supp (collectB (M := M) sub keysOf docs) := by
  intro k e hg
  rw [(collectB_spec_pv sub keysOf docs).2 k] at hg
  rw [(collectB_spec_pv (M := M) sub keysOf docs).1]
  by_cases he : (repDocs keysOf k docs).isEmpty
  · simp only [he, if_true] at hg; cases hg
  · have hany : docs.any (fun d => (keysOf d).contains k) = true := by
      have := repDocs_isEmpty keysOf k docs
      rw [this] at he
      simpa using he
    obtain ⟨d, hd, hk⟩ := List.any_eq_true.1 hany
    exact inHull_hullOfList (List.mem_flatMap.2 ⟨d, hd, by simpa using hk⟩)

theorem supp_empty {V : Type} : Supp (KMap.empty : KMap (Nat × V)) := by
  intro k e hg; cases hg

/-- per-segment eviction of a composite aggregation is invisible in the returned page -/
theorem composite_eviction_invisible (srcs : List CompSrc) (size : Nat) (after : Option Int) (sub : Req)
    (parts : List (List Doc)) :
    finalize (M := M) (.composite srcs size after sub)
        ((parts.map (fun p => compTrim size after (collect (M := M) (.composite srcs size after sub) p))).foldl
          (merge (.composite srcs size after sub)) (empty (.composite srcs size after sub)))
      = finalize (.composite srcs size after sub)
        ((parts.map (collect (M := M) (.composite srcs size after sub))).foldl
          (merge (.composite srcs size after sub)) (empty (.composite srcs size after sub))) := by
  have hfin : ∀ x : KMap (Nat × Inter M sub), finalize (M := M) (.composite srcs size after sub) x
      = compPage size after (x.entries.map fun e => (e.1, e.2.1, finalize sub e.2.2)) := fun _ => rfl
  rw [hfin, hfin,
    ← page_of_trim size after _ (fun e => (e.1, e.2.1, finalize sub e.2.2)) (fun _ => rfl),
    ← page_of_trim size after ((parts.map (collect (M := M) (.composite srcs size after sub))).foldl _ _)
      (fun e => (e.1, e.2.1, finalize sub e.2.2)) (fun _ => rfl)]
  have hmap : parts.map (fun p => compTrim size after (collect (M := M) (.composite srcs size after sub) p))
      = (parts.map (collect (M := M) (.composite srcs size after sub))).map (compTrim size after) := by
    rw [List.map_map]; rfl
  rw [hmap]
  have h := trim_fold (entryMerge (merge (M := M) sub)) size after
    (parts.map (collect (M := M) (.composite srcs size after sub))) KMap.empty KMap.empty
    (by
      intro m hm
      obtain ⟨p, _, rfl⟩ := List.mem_map.1 hm
      exact collectB_Supp_pv sub (compKeys srcs) p)
    supp_empty supp_empty rfl
  exact congrArg (fun x => compPage size after (x.entries.map fun e => (e.1, e.2.1, finalize sub e.2.2))) h

/-- per-segment eviction AND the merge-time trim (any schedule) are invisible in the returned page -/
theorem composite_lazy_trim_invisible {sub : Req} (dec : KMap (Nat × Inter M sub) → Bool) (srcs : List CompSrc) (size : Nat)
    (after : Option Int) (parts : List (List Doc)) :
    finalize (M := M) (.composite srcs size after sub)
        ((parts.map (fun p => compTrim size after (collect (M := M) (.composite srcs size after sub) p))).foldl
          (compMergeWhen dec (entryMerge (merge (M := M) sub)) size after) KMap.empty)
      = finalize (.composite srcs size after sub)
        ((parts.map (collect (M := M) (.composite srcs size after sub))).foldl
          (merge (.composite srcs size after sub)) (empty (.composite srcs size after sub))) := by
  have hfin : ∀ x : KMap (Nat × Inter M sub), finalize (M := M) (.composite srcs size after sub) x
      = compPage size after (x.entries.map fun e => (e.1, e.2.1, finalize sub e.2.2)) := fun _ => rfl
  rw [hfin, hfin,
    ← page_of_trim size after _ (fun e => (e.1, e.2.1, finalize sub e.2.2)) (fun _ => rfl),
    ← page_of_trim size after ((parts.map (collect (M := M) (.composite srcs size after sub))).foldl _ _)
      (fun e => (e.1, e.2.1, finalize sub e.2.2)) (fun _ => rfl)]
  have hmap : parts.map (fun p => compTrim size after (collect (M := M) (.composite srcs size after sub) p))
      = (parts.map (collect (M := M) (.composite srcs size after sub))).map (compTrim size after) := by
    rw [List.map_map]; rfl
  rw [hmap]
  have h := trim_fold_when dec (entryMerge (merge (M := M) sub)) size after
    (parts.map (collect (M := M) (.composite srcs size after sub))) KMap.empty KMap.empty
    (by
      intro m hm
      obtain ⟨p, _, rfl⟩ := List.mem_map.1 hm
      exact collectB_Supp_pv sub (compKeys srcs) p)
    supp_empty supp_empty rfl
  exact congrArg (fun x => compPage size after (x.entries.map fun e => (e.1, e.2.1, finalize sub e.2.2))) h

end compositeFold

end TantivyModel.Agg
