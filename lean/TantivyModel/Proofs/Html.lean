import TantivyModel.Proofs.Snippet
/-! C19: `to_html` as characters — un-escaping the rendering and removing the tags gives the
fragment, over the whole rendering (gaps and highlighted parts) -/
namespace TantivyModel.Snip
open TantivyModel.Tok

/-- well-formed rendering pieces: verbatim characters are never special, entities always are -/
def WfHtml : Html → Prop
  | .raw c => isSpecial c = false
  | .ent c => isSpecial c = true
  | .open_ => True
  | .close => True

theorem escape_wf (t : Text) : ∀ h ∈ escape t, WfHtml h := by
  intro h hh
  simp only [escape, List.mem_map] at hh
  obtain ⟨x, _, rfl⟩ := hh
  split
  · rename_i hs; exact hs
  · rename_i hs; simpa [WfHtml] using hs

theorem toHtmlAux_wf (frag : Text) : ∀ (hl : List (Nat × Nat)) (st : Nat) (out : List Html),
    toHtmlAux frag st hl = some out → ∀ h ∈ out, WfHtml h := by
  intro hl
  induction hl with
  | nil =>
    intro st out h
    simp only [toHtmlAux, Option.map_eq_some_iff] at h
    obtain ⟨t, _, rfl⟩ := h
    exact escape_wf t
  | cons r rest ih =>
    intro st out h
    obtain ⟨a, b⟩ := r
    simp only [toHtmlAux] at h
    split at h
    · rename_i x y z _ _ hz
      cases h
      intro e he
      rw [List.mem_append, List.mem_append, List.mem_append, List.mem_append] at he
      rcases he with (((he | he) | he) | he) | he
      · exact escape_wf x e he
      · simp only [List.mem_singleton] at he; subst he; trivial
      · exact escape_wf y e he
      · simp only [List.mem_singleton] at he; subst he; trivial
      · exact ih b z hz e he
    · cases h

theorem prefix_is_b : Gen.SNIPPET_PREFIX = [60, 98, 62] := by decide
theorem postfix_is_b : Gen.SNIPPET_POSTFIX = [60, 47, 98, 62] := by decide

theorem unescape_raw (c : Nat) (r : List Nat) (h : isSpecial c = false) :
    unescapeChars (c :: r) = c :: unescapeChars r := by
  have h38 : c ≠ 38 := by intro e; subst e; simp [isSpecial] at h
  have h60 : c ≠ 60 := by intro e; subst e; simp [isSpecial] at h
  rw [unescapeChars.eq_def]
  split <;> simp_all

theorem unescape_entity (c : Nat) (r : List Nat) (h : isSpecial c = true) :
    unescapeChars (entityChars c ++ r) = c :: unescapeChars r := by
  simp only [isSpecial, Bool.or_eq_true, beq_iff_eq] at h
  rcases h with (((h | h) | h) | h) | h <;> subst h <;> simp [entityChars, unescapeChars]

theorem unescape_render : ∀ (out : List Html), (∀ h ∈ out, WfHtml h) →
    unescapeChars (renderChars out) = strip out := by
  intro out
  induction out with
  | nil => intro _; simp [renderChars, unescapeChars, strip]
  | cons h rest ih =>
    intro hw
    have ihr := ih (fun e he => hw e (List.mem_cons_of_mem _ he))
    have hh := hw h List.mem_cons_self
    have e : renderChars (h :: rest) = renderOne h ++ renderChars rest := by
      simp [renderChars]
    rw [e]
    cases h with
    | raw c =>
      simp only [renderOne, List.singleton_append, strip]
      rw [unescape_raw c _ hh, ihr]
    | ent c =>
      simp only [renderOne, strip]
      rw [unescape_entity c _ hh, ihr]
    | open_ =>
      simp only [renderOne, strip, prefix_is_b, List.cons_append, List.nil_append]
      rw [unescapeChars, ihr]
    | close =>
      simp only [renderOne, strip, postfix_is_b, List.cons_append, List.nil_append]
      rw [unescapeChars, ihr]

/-- no special character is written verbatim outside the tags: every `<` of the rendering starts
`<b>` or `</b>`, every `&` starts an entity — stated on the pieces -/
theorem render_special_only_in_markup (out : List Html) (hw : ∀ h ∈ out, WfHtml h) :
    ∀ h ∈ out, ∀ c, h = Html.raw c → isSpecial c = false := by
  intro h hh c e
  subst e
  exact hw _ hh

end TantivyModel.Snip

namespace TantivyModel.Snip
open TantivyModel.Tok

theorem taggedAux_escape_none (t : Text) (r : List Html) :
    taggedAux none (escape t ++ r) = taggedAux none r := by
  induction t with
  | nil => rfl
  | cons c t ih =>
    simp only [escape, List.map_cons, List.cons_append] at *
    split <;> simp only [taggedAux] <;> exact ih

theorem taggedAux_escape_some (t : Text) (acc : List Nat) (r : List Html) :
    taggedAux (some acc) (escape t ++ r) = taggedAux (some (acc ++ t.map Cp.code)) r := by
  induction t generalizing acc with
  | nil => simp [escape]
  | cons c t ih =>
    simp only [escape, List.map_cons, List.cons_append] at *
    split <;> simp only [taggedAux] <;> rw [ih] <;> simp

/-- the tags of `to_html` enclose exactly the collapsed highlight ranges of the fragment -/
theorem toHtmlAux_tagged (frag : Text) : ∀ (hl : List (Nat × Nat)) (st : Nat) (out : List Html),
    toHtmlAux frag st hl = some out →
    tagged out = hl.map (fun r => (sliceFrom 0 frag r.1 r.2).map Cp.code) := by
  intro hl
  induction hl with
  | nil =>
    intro st out h
    simp only [toHtmlAux, Option.map_eq_some_iff] at h
    obtain ⟨t, _, rfl⟩ := h
    have := taggedAux_escape_none t []
    simpa [tagged, taggedAux] using this
  | cons r rest ih =>
    intro st out h
    obtain ⟨a, b⟩ := r
    simp only [toHtmlAux] at h
    split at h
    · rename_i x y z hx hy hz
      cases h
      obtain ⟨_, _, _, rfl⟩ := sliceB_some hy
      have hz' := ih b z hz
      unfold tagged at *
      simp only [List.append_assoc, List.map_cons]
      rw [taggedAux_escape_none]
      simp only [List.singleton_append, taggedAux]
      rw [taggedAux_escape_some]
      simp only [List.singleton_append, List.nil_append, taggedAux, hz']
    · cases h

end TantivyModel.Snip
