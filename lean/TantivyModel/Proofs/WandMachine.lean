import TantivyModel.Model.Wand
import TantivyModel.Proofs.Wand
/-!
Soundness of the generic pruning machine: a run whose `seek`s only pass over dead documents, whose
`eval`s score the smallest current document and which stops only when every remaining document is
dead computes exactly the exhaustive result, for every callback whose thresholds never decrease.
-/
namespace TantivyModel.Wand
open List

variable {σ : Type}

/-- the callback never lowers the threshold (relative to an invariant `R` linking collector state
and threshold, e.g. "θ is the K-th best score collected so far") -/
structure MonoCb (cb : σ → Nat → Nat → σ × Nat) (R : σ → Nat → Prop) : Prop where
  step : ∀ s θ d sc, R s θ → θ < sc → R (cb s d sc).1 (cb s d sc).2 ∧ θ ≤ (cb s d sc).2

/-! ### the exhaustive loop only depends on the documents above the threshold -/

theorem exhRange_congr {cb : σ → Nat → Nat → σ × Nat} {R : σ → Nat → Prop} (hcb : MonoCb cb R)
    (total total' : Nat → Nat) (n lo : Nat) (s : σ) (θ : Nat) (hR : R s θ)
    (h : ∀ d, lo ≤ d → d < lo + n → (θ < total d ∨ θ < total' d) → total d = total' d) :
    exhRange cb total lo n (s, θ) = exhRange cb total' lo n (s, θ) := by
  induction n generalizing lo s θ with
  | zero => rfl
  | succ n ih =>
    simp only [exhRange]
    by_cases h1 : θ < total lo
    · have heq : total lo = total' lo := h lo (Nat.le_refl _) (by omega) (Or.inl h1)
      have h1' : θ < total' lo := by rw [← heq]; exact h1
      rw [if_pos h1, if_pos h1', ← heq]
      obtain ⟨hR', hθ⟩ := hcb.step s θ lo (total lo) hR h1
      refine ih (lo + 1) _ _ hR' fun d hd hd' hor => h d (by omega) (by omega) ?_
      rcases hor with h' | h'
      · left; omega
      · right; omega
    · have h1' : ¬ θ < total' lo := by
        intro hc
        have := h lo (Nat.le_refl _) (by omega) (Or.inr hc)
        omega
      rw [if_neg h1, if_neg h1']
      exact ih (lo + 1) s θ hR fun d hd hd' hor => h d (by omega) (by omega) hor

theorem exhRange_dead {cb : σ → Nat → Nat → σ × Nat} (total : Nat → Nat) (n lo : Nat) (s : σ) (θ : Nat)
    (h : ∀ d, lo ≤ d → d < lo + n → total d ≤ θ) : exhRange cb total lo n (s, θ) = (s, θ) := by
  induction n generalizing lo with
  | zero => rfl
  | succ n ih =>
    simp only [exhRange]
    have := h lo (Nat.le_refl _) (by omega)
    rw [if_neg (by omega)]
    exact ih (lo + 1) fun d hd hd' => h d (by omega) (by omega)

theorem exhRange_split {cb : σ → Nat → Nat → σ × Nat} (total : Nat → Nat) (n m lo : Nat) (st : σ × Nat) :
    exhRange cb total lo (n + m) st = exhRange cb total (lo + n) m (exhRange cb total lo n st) := by
  induction n generalizing lo st with
  | zero => simp [exhRange]
  | succ n ih =>
    obtain ⟨s, θ⟩ := st
    have : n + 1 + m = (n + m) + 1 := by omega
    rw [this]
    simp only [exhRange]
    rw [ih]
    congr 1; omega

/-! ### postings -/

/-- strictly ascending documents -/
def Asc (p : Postings) : Prop := p.Pairwise (fun a b => a.1 < b.1)

theorem scoreIn_seekP_ge (p : Postings) (t e : Nat) (h : t ≤ e) : scoreIn (seekP p t) e = scoreIn p e := by
  induction p with
  | nil => rfl
  | cons x xs ih =>
    unfold seekP at ih ⊢
    by_cases hx : x.1 < t
    · rw [dropWhile_cons_of_pos (by simpa using hx)]
      rw [ih]
      unfold scoreIn
      have : (x.1 == e) = false := by simp; omega
      simp [this]
    · rw [dropWhile_cons_of_neg (by simpa using hx)]

theorem seekP_ge_of_asc {p : Postings} (hp : Asc p) (t : Nat) : ∀ x, x ∈ seekP p t → t ≤ x.1 := by
  induction p with
  | nil => intro x hx; simp [seekP] at hx
  | cons y ys ih =>
    unfold Asc at hp
    rw [pairwise_cons] at hp
    intro x hx
    unfold seekP at hx ih
    by_cases hy : y.1 < t
    · rw [dropWhile_cons_of_pos (by simpa using hy)] at hx
      exact ih hp.2 x hx
    · rw [dropWhile_cons_of_neg (by simpa using hy)] at hx
      rcases mem_cons.mp hx with rfl | hx
      · omega
      · have := hp.1 x hx; omega

theorem scoreIn_eq_zero (p : Postings) (e : Nat) (h : ∀ x, x ∈ p → x.1 ≠ e) : scoreIn p e = 0 := by
  unfold scoreIn
  have : p.find? (·.1 == e) = none := by
    rw [find?_eq_none]; intro x hx; simpa using h x hx
  rw [this]

theorem mem_of_scoreIn_pos (p : Postings) (e : Nat) (h : 0 < scoreIn p e) : ∃ x, x ∈ p ∧ x.1 = e := by
  unfold scoreIn at h
  cases hf : p.find? (·.1 == e) with
  | none => rw [hf] at h; simp at h
  | some x => exact ⟨x, mem_of_find?_eq_some hf, by simpa using find?_some hf⟩

theorem seekP_sublist (p : Postings) (t : Nat) : (seekP p t).Sublist p := dropWhile_sublist _

theorem asc_seekP {p : Postings} (hp : Asc p) (t : Nat) : Asc (seekP p t) :=
  Pairwise.sublist (seekP_sublist p t) hp

theorem scoreIn_seekP_le {p : Postings} (hp : Asc p) (t e : Nat) : scoreIn (seekP p t) e ≤ scoreIn p e := by
  by_cases h : t ≤ e
  · rw [scoreIn_seekP_ge p t e h]; exact Nat.le_refl _
  · rw [scoreIn_eq_zero (seekP p t) e]
    · exact Nat.zero_le _
    · intro x hx he
      have := seekP_ge_of_asc hp t x hx; omega

/-! ### totals under a move of one scorer -/

theorem unionTotal_cons (p : Postings) (ps : List Postings) (d : Nat) :
    unionTotal (p :: ps) d = scoreIn p d + unionTotal ps d := by simp [unionTotal]

theorem unionTotal_modifyAt_le (ps : List Postings) (hasc : ∀ p, p ∈ ps → Asc p) (i t d : Nat) :
    unionTotal (modifyAt (seekP · t) ps i) d ≤ unionTotal ps d := by
  induction ps generalizing i with
  | nil => simp [modifyAt]
  | cons p ps ih =>
    cases i with
    | zero =>
      simp only [modifyAt, unionTotal_cons]
      have := scoreIn_seekP_le (hasc p (by simp)) t d
      omega
    | succ j =>
      simp only [modifyAt, unionTotal_cons]
      have := ih (fun q hq => hasc q (by simp [hq])) j
      omega

/-- a document whose total changes by the move is one of the moved scorer's passed documents -/
theorem unionTotal_modifyAt_ne (ps : List Postings) (hasc : ∀ p, p ∈ ps → Asc p) (i t d : Nat)
    (hne : unionTotal (modifyAt (seekP · t) ps i) d ≠ unionTotal ps d) :
    ∃ p, ps[i]? = some p ∧ ∃ x, x ∈ p ∧ x.1 = d ∧ d < t := by
  induction ps generalizing i with
  | nil => simp [modifyAt] at hne
  | cons p ps ih =>
    cases i with
    | zero =>
      simp only [modifyAt, unionTotal_cons] at hne
      refine ⟨p, by simp, ?_⟩
      have hlt : d < t := by
        rcases Nat.lt_or_ge d t with h | h
        · exact h
        · rw [scoreIn_seekP_ge p t d h] at hne; exact absurd rfl hne
      have hpos : 0 < scoreIn p d := by
        rcases Nat.eq_zero_or_pos (scoreIn p d) with h0 | h0
        · have := scoreIn_seekP_le (hasc p (by simp)) t d
          rw [h0] at this hne
          have : scoreIn (seekP p t) d = 0 := by omega
          rw [this] at hne; exact absurd rfl hne
        · exact h0
      obtain ⟨x, hx, hxd⟩ := mem_of_scoreIn_pos p d hpos
      exact ⟨x, hx, hxd, hlt⟩
    | succ j =>
      simp only [modifyAt, unionTotal_cons] at hne
      have : unionTotal (modifyAt (seekP · t) ps j) d ≠ unionTotal ps d := by omega
      obtain ⟨q, hq, hx⟩ := ih (fun q hq => hasc q (by simp [hq])) j this
      exact ⟨q, by simpa using hq, hx⟩

theorem mem_modifyAt {ps : List Postings} {i t : Nat} {q : Postings}
    (hq : q ∈ modifyAt (seekP · t) ps i) : ∃ p, p ∈ ps ∧ q.Sublist p := by
  induction ps generalizing i with
  | nil => simp [modifyAt] at hq
  | cons p ps ih =>
    cases i with
    | zero =>
      simp only [modifyAt, mem_cons] at hq
      rcases hq with rfl | hq
      · exact ⟨p, by simp, seekP_sublist p t⟩
      · exact ⟨q, by simp [hq], Sublist.refl _⟩
    | succ j =>
      simp only [modifyAt, mem_cons] at hq
      rcases hq with rfl | hq
      · exact ⟨q, by simp, Sublist.refl _⟩
      · obtain ⟨p', hp', hs⟩ := ih hq
        exact ⟨p', by simp [hp'], hs⟩

theorem unionTotal_map_seekP_ge (ps : List Postings) (t e : Nat) (h : t ≤ e) :
    unionTotal (ps.map (seekP · t)) e = unionTotal ps e := by
  induction ps with
  | nil => rfl
  | cons p ps ih => simp only [map_cons, unionTotal_cons, ih, scoreIn_seekP_ge p t e h]

theorem unionTotal_eq_zero (ps : List Postings) (d : Nat) (h : ∀ p, p ∈ ps → ∀ x, x ∈ p → x.1 ≠ d) :
    unionTotal ps d = 0 := by
  induction ps with
  | nil => rfl
  | cons p ps ih =>
    rw [unionTotal_cons, scoreIn_eq_zero p d (h p (by simp)), ih fun q hq => h q (by simp [hq])]

/-! ### what the machine needs to know about how clause scores combine -/

/-- laws of a `total` function: moving a scorer forward can only lower totals, and only those of
documents it passes; totals at or after a common seek target are unchanged; a document no
scorer contains scores 0 -/
structure TotalLaws (total : List Postings → Nat → Nat) : Prop where
  modify_le : ∀ (ps : List Postings), (∀ p, p ∈ ps → Asc p) → ∀ i t d,
    total (modifyAt (seekP · t) ps i) d ≤ total ps d
  modify_ne : ∀ (ps : List Postings), (∀ p, p ∈ ps → Asc p) → ∀ i t d,
    total (modifyAt (seekP · t) ps i) d ≠ total ps d →
      ∃ p, ps[i]? = some p ∧ ∃ x, x ∈ p ∧ x.1 = d ∧ d < t
  map_ge : ∀ (ps : List Postings) t e, t ≤ e → total (ps.map (seekP · t)) e = total ps e
  zero : ∀ (ps : List Postings) d, (∀ p, p ∈ ps → ∀ x, x ∈ p → x.1 ≠ d) → total ps d = 0

theorem unionTotal_laws : TotalLaws unionTotal where
  modify_le := unionTotal_modifyAt_le
  modify_ne := unionTotal_modifyAt_ne
  map_ge := unionTotal_map_seekP_ge
  zero := unionTotal_eq_zero

/-! #### conjunctions -/

theorem containsDoc_seekP_ge (p : Postings) (t e : Nat) (h : t ≤ e) :
    containsDoc (seekP p t) e = containsDoc p e := by
  induction p with
  | nil => rfl
  | cons x xs ih =>
    unfold seekP at ih ⊢
    by_cases hx : x.1 < t
    · rw [dropWhile_cons_of_pos (by simpa using hx)]
      rw [ih]
      have : (x.1 == e) = false := by simp; omega
      simp [containsDoc, this]
    · rw [dropWhile_cons_of_neg (by simpa using hx)]

theorem containsDoc_iff (p : Postings) (e : Nat) : containsDoc p e = true ↔ ∃ x, x ∈ p ∧ x.1 = e := by
  simp [containsDoc]

theorem all_containsDoc_modifyAt_ge (ps : List Postings) (i t e : Nat) (h : t ≤ e) :
    (modifyAt (seekP · t) ps i).all (containsDoc · e) = ps.all (containsDoc · e) := by
  induction ps generalizing i with
  | nil => rfl
  | cons p ps ih =>
    cases i with
    | zero => simp [modifyAt, containsDoc_seekP_ge p t e h]
    | succ j => simp [modifyAt, ih j]

theorem unionTotal_modifyAt_ge (ps : List Postings) (i t e : Nat) (h : t ≤ e) :
    unionTotal (modifyAt (seekP · t) ps i) e = unionTotal ps e := by
  induction ps generalizing i with
  | nil => rfl
  | cons p ps ih =>
    cases i with
    | zero => simp [modifyAt, unionTotal_cons, scoreIn_seekP_ge p t e h]
    | succ j => simp [modifyAt, unionTotal_cons, ih j]

theorem getElem?_of_modifyAt_changed {ps : List Postings} {i t : Nat}
    (h : modifyAt (seekP · t) ps i ≠ ps) : ∃ p, ps[i]? = some p := by
  induction ps generalizing i with
  | nil => simp [modifyAt] at h
  | cons p ps ih =>
    cases i with
    | zero => exact ⟨p, by simp⟩
    | succ j =>
      simp only [modifyAt] at h
      have : modifyAt (seekP · t) ps j ≠ ps := fun he => h (by rw [he])
      obtain ⟨q, hq⟩ := ih this
      exact ⟨q, by simpa using hq⟩

/-- after moving scorer `i` to `t`, a document before `t` is no longer contained in all scorers -/
theorem all_containsDoc_modifyAt_lt (ps : List Postings) (hasc : ∀ p, p ∈ ps → Asc p) (i t e : Nat)
    (h : e < t) (p : Postings) (hp : ps[i]? = some p) :
    (modifyAt (seekP · t) ps i).all (containsDoc · e) = false := by
  induction ps generalizing i with
  | nil => simp at hp
  | cons q qs ih =>
    cases i with
    | zero =>
      simp at hp; subst hp
      have : containsDoc (seekP q t) e = false := by
        cases hc : containsDoc (seekP q t) e
        · rfl
        · obtain ⟨x, hx, hxe⟩ := (containsDoc_iff _ _).mp hc
          have := seekP_ge_of_asc (hasc q (by simp)) t x hx
          omega
      simp [modifyAt, this]
    | succ j =>
      have := ih (fun r hr => hasc r (by simp [hr])) j (by simpa using hp)
      simp [modifyAt, this]

theorem interTotal_laws : TotalLaws interTotal where
  modify_le ps hasc i t d := by
    unfold interTotal
    by_cases hge : t ≤ d
    · rw [all_containsDoc_modifyAt_ge ps i t d hge, unionTotal_modifyAt_ge ps i t d hge]
      exact Nat.le_refl _
    · by_cases hch : modifyAt (seekP · t) ps i = ps
      · rw [hch]; exact Nat.le_refl _
      · obtain ⟨p, hp⟩ := getElem?_of_modifyAt_changed hch
        rw [all_containsDoc_modifyAt_lt ps hasc i t d (by omega) p hp]
        simp
  modify_ne ps hasc i t d hne := by
    have hlt : d < t := by
      rcases Nat.lt_or_ge d t with h | h
      · exact h
      · exfalso; apply hne
        unfold interTotal
        rw [all_containsDoc_modifyAt_ge ps i t d h, unionTotal_modifyAt_ge ps i t d h]
    have hch : modifyAt (seekP · t) ps i ≠ ps := fun he => hne (by rw [he])
    obtain ⟨p, hp⟩ := getElem?_of_modifyAt_changed hch
    refine ⟨p, hp, ?_⟩
    -- the total changed, so it was positive before: every scorer (in particular p) contains d
    have hnew : interTotal (modifyAt (seekP · t) ps i) d = 0 := by
      unfold interTotal
      rw [all_containsDoc_modifyAt_lt ps hasc i t d hlt p hp]; simp
    have hold : ps.all (containsDoc · d) = true := by
      cases hall : ps.all (containsDoc · d)
      · exfalso; apply hne; rw [hnew]; unfold interTotal; rw [hall]; simp
      · rfl
    have hpm : p ∈ ps := mem_of_getElem? hp
    have := (all_eq_true.mp hold) p hpm
    obtain ⟨x, hx, hxd⟩ := (containsDoc_iff _ _).mp this
    exact ⟨x, hx, hxd, hlt⟩
  map_ge ps t e h := by
    unfold interTotal
    have : (ps.map (seekP · t)).all (containsDoc · e) = ps.all (containsDoc · e) := by
      induction ps with
      | nil => rfl
      | cons p ps ih => simp [containsDoc_seekP_ge p t e h, ih]
    rw [this, unionTotal_map_seekP_ge ps t e h]
  zero ps d h := by
    unfold interTotal
    split
    · exact unionTotal_eq_zero ps d h
    · rfl

/-! ### valid runs -/

/-- side conditions of a run (`B` = an upper bound of all documents): a `seek` only passes over
dead documents of the moved scorer; an `eval` scores a document not after any remaining posting;
when the driver stops every remaining document is dead -/
def ValidRun (cb : σ → Nat → Nat → σ × Nat) (total : List Postings → Nat → Nat) (B : Nat) :
    List Action → List Postings → Nat → σ × Nat → Prop
  | [], ps, _, (_, θ) => ∀ d, total ps d ≤ θ
  | .seek i t :: rest, ps, lo, (s, θ) =>
    (∀ p, ps[i]? = some p → ∀ x, x ∈ p → x.1 < t → total ps x.1 ≤ θ) ∧
      ValidRun cb total B rest (modifyAt (seekP · t) ps i) lo (s, θ)
  | .eval d :: rest, ps, lo, (s, θ) =>
    lo ≤ d ∧ d < B ∧ (∀ p, p ∈ ps → ∀ x, x ∈ p → d ≤ x.1) ∧
      ValidRun cb total B rest (ps.map (seekP · (d + 1))) (d + 1)
        (if θ < total ps d then cb s d (total ps d) else (s, θ))

/-- every valid run computes the exhaustive result -/
theorem runMachine_eq_exhaustive {cb : σ → Nat → Nat → σ × Nat} {R : σ → Nat → Prop}
    (hcb : MonoCb cb R) {total : List Postings → Nat → Nat} (ht : TotalLaws total)
    (B : Nat) (acts : List Action) (ps : List Postings) (lo : Nat) (s : σ) (θ : Nat)
    (hR : R s θ) (hlo : lo ≤ B) (hasc : ∀ p, p ∈ ps → Asc p)
    (hb : ∀ p, p ∈ ps → ∀ x, x ∈ p → lo ≤ x.1 ∧ x.1 < B)
    (hv : ValidRun cb total B acts ps lo (s, θ)) :
    runMachine cb total acts ps (s, θ) = exhRange cb (total ps) lo (B - lo) (s, θ) := by
  induction acts generalizing ps lo s θ with
  | nil =>
    simp only [ValidRun] at hv
    simp only [runMachine]
    exact (exhRange_dead (total ps) (B - lo) lo s θ fun d _ _ => hv d).symm
  | cons a acts ih =>
    cases a with
    | seek i t =>
      simp only [ValidRun] at hv
      simp only [runMachine]
      obtain ⟨hdead, hrest⟩ := hv
      have hasc' : ∀ q, q ∈ modifyAt (seekP · t) ps i → Asc q := by
        intro q hq
        obtain ⟨p, hp, hs⟩ := mem_modifyAt hq
        exact Pairwise.sublist hs (hasc p hp)
      have hb' : ∀ q, q ∈ modifyAt (seekP · t) ps i → ∀ x, x ∈ q → lo ≤ x.1 ∧ x.1 < B := by
        intro q hq x hx
        obtain ⟨p, hp, hs⟩ := mem_modifyAt hq
        exact hb p hp x (hs.subset hx)
      rw [ih _ lo s θ hR hlo hasc' hb' hrest]
      apply exhRange_congr hcb _ _ _ _ _ _ hR
      intro d _ _ hor
      by_cases hne : total (modifyAt (seekP · t) ps i) d = total ps d
      · exact hne
      · exfalso
        obtain ⟨p, hp, x, hx, hxd, hdt⟩ := ht.modify_ne ps hasc i t d hne
        have hd := hdead p hp x hx (by omega)
        rw [hxd] at hd
        have hle := ht.modify_le ps hasc i t d
        rcases hor with h' | h' <;> omega
    | eval d =>
      simp only [ValidRun] at hv
      simp only [runMachine]
      obtain ⟨hlod, hdB, hmin, hrest⟩ := hv
      -- split the range [lo, B) into [lo, d), {d}, [d+1, B)
      have hsplit : B - lo = (d - lo) + (1 + (B - (d + 1))) := by omega
      rw [hsplit, exhRange_split, exhRange_split]
      have hzero : exhRange cb (total ps) lo (d - lo) (s, θ) = (s, θ) := by
        apply exhRange_dead
        intro e he he'
        rw [ht.zero ps e]
        · exact Nat.zero_le _
        · intro p hp x hx hxe
          have := hmin p hp x hx; omega
      rw [hzero]
      have hlod' : lo + (d - lo) = d := by omega
      rw [hlod']
      have hone : exhRange cb (total ps) d 1 (s, θ)
          = (if θ < total ps d then cb s d (total ps d) else (s, θ)) := by
        simp [exhRange]
      rw [hone]
      -- the state after the evaluation
      generalize hst : (if θ < total ps d then cb s d (total ps d) else (s, θ)) = st' at hrest ⊢
      obtain ⟨s', θ'⟩ := st'
      have hR' : R s' θ' ∧ θ ≤ θ' := by
        by_cases h1 : θ < total ps d
        · rw [if_pos h1] at hst
          have := hcb.step s θ d (total ps d) hR h1
          rw [hst] at this; exact this
        · rw [if_neg h1] at hst
          cases hst; exact ⟨hR, Nat.le_refl _⟩
      have hasc' : ∀ q, q ∈ ps.map (seekP · (d + 1)) → Asc q := by
        intro q hq
        obtain ⟨p, hp, rfl⟩ := mem_map.mp hq
        exact asc_seekP (hasc p hp) _
      have hb' : ∀ q, q ∈ ps.map (seekP · (d + 1)) → ∀ x, x ∈ q → d + 1 ≤ x.1 ∧ x.1 < B := by
        intro q hq x hx
        obtain ⟨p, hp, rfl⟩ := mem_map.mp hq
        exact ⟨seekP_ge_of_asc (hasc p hp) _ x hx, (hb p hp x ((seekP_sublist p _).subset hx)).2⟩
      rw [ih _ (d + 1) s' θ' hR'.1 (by omega) hasc' hb' hrest]
      apply exhRange_congr hcb _ _ _ _ _ _ hR'.1
      intro e he _ _
      exact ht.map_ge ps (d + 1) e he

end TantivyModel.Wand

/-! ### the skip rules speak about the machine's state

`find_pivot_doc` and the block-max test look at the scorers *sorted by current document*; the
machine keeps them at fixed positions. Totals do not depend on the order. -/
namespace TantivyModel.Wand
open List

theorem totalScore_perm {ts₁ ts₂ : List TermList} (h : ts₁ ~ ts₂) (d : Nat) :
    totalScore ts₁ d = totalScore ts₂ d := by
  unfold totalScore
  induction h with
  | nil => rfl
  | cons x _ ih => simp [ih]
  | swap x y l => simp; omega
  | trans _ _ ih₁ ih₂ => exact ih₁.trans ih₂

/-- the scorers as the pivot rule sees them: postings with the term's global bound -/
def views : List Postings → List Nat → List TermList
  | p :: ps, m :: ms => ⟨p, m⟩ :: views ps ms
  | _, _ => []

theorem totalScore_views (ps : List Postings) (ms : List Nat) (h : ps.length = ms.length) (d : Nat) :
    totalScore (views ps ms) d = unionTotal ps d := by
  induction ps generalizing ms with
  | nil => cases ms <;> simp [views, totalScore, unionTotal]
  | cons p ps ih =>
    cases ms with
    | nil => simp at h
    | cons m ms =>
      have := ih ms (by simpa using h)
      simp only [views, totalScore, unionTotal, map_cons, sum_cons] at this ⊢
      rw [this]
      rfl

/-- what `find_pivot_doc` establishes about the machine state `ps`: every document before the
pivot — every document at all if there is no pivot — is dead. `ts` is the sorted arrangement of
the scorers the code works on. Any `seek` of any scorer to (at most) the pivot is therefore a
valid move of the machine, and `none` licenses stopping. -/
theorem pivot_dead (θ : Nat) (ps : List Postings) (ms : List Nat) (hlen : ps.length = ms.length)
    (ts : List TermList) (hperm : ts ~ views ps ms) (hs : SortedByCur ts)
    (hub : ∀ t, t ∈ ts → ∀ p, p ∈ t.postings → p.2 ≤ t.maxScore) :
    (∀ piv, findPivot θ ts 0 = some piv → ∀ d, d < piv → unionTotal ps d ≤ θ) ∧
    (findPivot θ ts 0 = none → ∀ d, unionTotal ps d ≤ θ) := by
  have h := findPivot_sound θ ts 0 (Nat.zero_le _) hs hub
  constructor
  · intro piv hp d hd
    have := h.1 piv hp d hd
    rw [totalScore_perm hperm d, totalScore_views ps ms hlen d] at this
    omega
  · intro hn d
    have := h.2 hn d
    rw [totalScore_perm hperm d, totalScore_views ps ms hlen d] at this
    omega

end TantivyModel.Wand
