import TantivyModel.Model.AggSpec
/-!
C14 helper lemmas about the structurally recursive insertion sort of `Model/AggSpec.lean`
(`insertBy`, `isort`): permutation, sortedness, uniqueness of the sorted list for an
antisymmetric order, and the "top-k only depends on the top-k of the parts" lemmas used by
the top_hits model.  No Mathlib.
-/
namespace TantivyModel.Agg

/-! ### insertion sort -/

section sort
variable {α : Type} (le : α → α → Bool)

theorem insertBy_perm (x : α) : ∀ l : List α, (insertBy le x l).Perm (x :: l)
  | [] => List.Perm.refl _
  | y :: ys => by
    unfold insertBy
    by_cases h : le x y
    · simp only [h, if_true]; exact List.Perm.refl _
    · simp only [h, Bool.false_eq_true, if_false]
      exact ((insertBy_perm x ys).cons y).trans (List.Perm.swap x y ys)

theorem isort_perm : ∀ l : List α, (isort le l).Perm l
  | [] => List.Perm.refl _
  | x :: xs => by
    show (insertBy le x (isort le xs)).Perm (x :: xs)
    exact (insertBy_perm le x _).trans ((isort_perm xs).cons x)

theorem insertBy_pairwise (htot : ∀ a b, le a b = true ∨ le b a = true)
    (htrans : ∀ a b c, le a b = true → le b c = true → le a c = true) (x : α) :
    ∀ l : List α, l.Pairwise (fun a b => le a b = true) → (insertBy le x l).Pairwise (fun a b => le a b = true)
  | [], _ => by simp [insertBy]
  | y :: ys, h => by
    obtain ⟨hy, hys⟩ := List.pairwise_cons.1 h
    unfold insertBy
    by_cases hxy : le x y
    · simp only [hxy, if_true]
      refine List.pairwise_cons.2 ⟨?_, h⟩
      intro z hz
      rcases List.mem_cons.1 hz with rfl | hz
      · exact hxy
      · exact htrans _ _ _ hxy (hy z hz)
    · simp only [hxy, Bool.false_eq_true, if_false]
      have hyx : le y x = true := by
        rcases htot x y with h1 | h1
        · exact absurd h1 hxy
        · exact h1
      refine List.pairwise_cons.2 ⟨?_, insertBy_pairwise htot htrans x ys hys⟩
      intro z hz
      rcases List.mem_cons.1 ((insertBy_perm le x ys).mem_iff.1 hz) with rfl | hz
      · exact hyx
      · exact hy z hz

theorem isort_pairwise (htot : ∀ a b, le a b = true ∨ le b a = true)
    (htrans : ∀ a b c, le a b = true → le b c = true → le a c = true) :
    ∀ l : List α, (isort le l).Pairwise (fun a b => le a b = true)
  | [] => List.Pairwise.nil
  | x :: xs => insertBy_pairwise le htot htrans x _ (isort_pairwise htot htrans xs)

end sort

section sort2
variable {α : Type} (le : α → α → Bool)

/-- the first `k` elements after an insertion only depend on the first `k` before it -/
theorem take_insertBy_congr (a : α) : ∀ (k : Nat) (s t : List α), s.take k = t.take k →
    (insertBy le a s).take k = (insertBy le a t).take k
  | 0, _, _, _ => by simp
  | k + 1, [], t, h => by
    cases t with
    | nil => rfl
    | cons y ys => simp at h
  | k + 1, x :: xs, t, h => by
    cases t with
    | nil => simp at h
    | cons y ys =>
      simp only [List.take_succ_cons, List.cons.injEq] at h
      obtain ⟨hxy, hrest⟩ := h
      subst hxy
      unfold insertBy
      by_cases hl : le a x
      · simp only [hl, if_true, List.take_succ_cons, List.cons.injEq, true_and]
        cases k with
        | zero => simp
        | succ k =>
          simp only [List.take_succ_cons, List.cons.injEq, true_and]
          have : (xs.take (k + 1)).take k = (ys.take (k + 1)).take k := by rw [hrest]
          simpa [List.take_take, Nat.min_eq_left (Nat.le_succ k)] using this
      · simp only [hl, Bool.false_eq_true, if_false, List.take_succ_cons, List.cons.injEq, true_and]
        exact take_insertBy_congr a k xs ys hrest

theorem take_foldr_insertBy_congr (k : Nat) : ∀ (y s t : List α), s.take k = t.take k →
    (y.foldr (insertBy le) s).take k = (y.foldr (insertBy le) t).take k
  | [], _, _, h => h
  | a :: y, s, t, h => by
    simp only [List.foldr_cons]
    exact take_insertBy_congr le a k _ _ (take_foldr_insertBy_congr k y s t h)

theorem isort_append (x y : List α) : isort le (x ++ y) = x.foldr (insertBy le) (isort le y) := by
  unfold isort
  rw [List.foldr_append]

/-- for an antisymmetric order the sorted arrangement of a multiset is unique -/
theorem eq_of_perm_of_sorted (hanti : ∀ a b, le a b = true → le b a = true → a = b) :
    ∀ (l₁ l₂ : List α), l₁.Perm l₂ → l₁.Pairwise (fun a b => le a b = true) →
      l₂.Pairwise (fun a b => le a b = true) → l₁ = l₂
  | [], l₂, hp, _, _ => (List.Perm.nil_eq hp)
  | a :: l₁, [], hp, _, _ => absurd hp.symm (by simp)
  | a :: l₁, b :: l₂, hp, h1, h2 => by
    obtain ⟨ha, h1'⟩ := List.pairwise_cons.1 h1
    obtain ⟨hb, h2'⟩ := List.pairwise_cons.1 h2
    have hab : a = b := by
      have m1 : a ∈ b :: l₂ := hp.mem_iff.1 (List.mem_cons_self)
      have m2 : b ∈ a :: l₁ := hp.mem_iff.2 (List.mem_cons_self)
      rcases List.mem_cons.1 m1 with e | m1
      · exact e
      · rcases List.mem_cons.1 m2 with e | m2
        · exact e.symm
        · exact hanti a b (ha b m2) (hb a m1)
    subst hab
    have hp' : l₁.Perm l₂ := (List.perm_cons a).1 hp
    rw [eq_of_perm_of_sorted hanti l₁ l₂ hp' h1' h2']

variable (htot : ∀ a b, le a b = true ∨ le b a = true)
  (htrans : ∀ a b c, le a b = true → le b c = true → le a c = true)
  (hanti : ∀ a b, le a b = true → le b a = true → a = b)
include htot htrans hanti

theorem isort_eq_of_perm {l₁ l₂ : List α} (hp : l₁.Perm l₂) : isort le l₁ = isort le l₂ :=
  eq_of_perm_of_sorted le hanti _ _ (((isort_perm le l₁).trans hp).trans (isort_perm le l₂).symm)
    (isort_pairwise le htot htrans l₁) (isort_pairwise le htot htrans l₂)

theorem isort_of_sorted {l : List α} (hs : l.Pairwise (fun a b => le a b = true)) : isort le l = l :=
  eq_of_perm_of_sorted le hanti _ _ (isort_perm le l) (isort_pairwise le htot htrans l) hs

/-- the best `k` of a union only depend on the best `k` of the left part -/
theorem topk_topk_append (k : Nat) (x y : List α) :
    (isort le ((isort le x).take k ++ y)).take k = (isort le (x ++ y)).take k := by
  have hs : ((isort le x).take k).Pairwise (fun a b => le a b = true) :=
    List.Pairwise.sublist (List.take_sublist _ _) (isort_pairwise le htot htrans x)
  rw [isort_eq_of_perm le htot htrans hanti (List.perm_append_comm (l₁ := (isort le x).take k) (l₂ := y)),
    isort_eq_of_perm le htot htrans hanti (List.perm_append_comm (l₁ := x) (l₂ := y)),
    isort_append, isort_append, isort_of_sorted le htot htrans hanti hs]
  apply take_foldr_insertBy_congr
  rw [List.take_take, Nat.min_self]

theorem topk_append_topk (k : Nat) (x y : List α) :
    (isort le (x ++ (isort le y).take k)).take k = (isort le (x ++ y)).take k := by
  rw [isort_eq_of_perm le htot htrans hanti (List.perm_append_comm (l₁ := x) (l₂ := (isort le y).take k)),
    topk_topk_append le htot htrans hanti,
    isort_eq_of_perm le htot htrans hanti (List.perm_append_comm (l₁ := y) (l₂ := x))]

end sort2

theorem hitLe_total (desc : Bool) (a b : HitE) : hitLe desc a b = true ∨ hitLe desc b a = true := by
  cases desc <;> simp only [hitLe, Bool.false_eq_true, if_false, if_true, Bool.or_eq_true, Bool.and_eq_true,
    decide_eq_true_eq, beq_iff_eq] <;> omega

theorem hitLe_trans (desc : Bool) (a b c : HitE) (h1 : hitLe desc a b = true)
    (h2 : hitLe desc b c = true) : hitLe desc a c = true := by
  cases desc <;> simp only [hitLe, Bool.false_eq_true, if_false, if_true, Bool.or_eq_true, Bool.and_eq_true,
    decide_eq_true_eq, beq_iff_eq] at * <;> omega

theorem hitLe_antisymm (desc : Bool) (a b : HitE) (h1 : hitLe desc a b = true)
    (h2 : hitLe desc b a = true) : a = b := by
  have : a.1 = b.1 ∧ a.2 = b.2 := by
    cases desc <;> simp only [hitLe, Bool.false_eq_true, if_false, if_true, Bool.or_eq_true, Bool.and_eq_true,
      decide_eq_true_eq, beq_iff_eq] at * <;> omega
  exact Prod.ext this.1 this.2

end TantivyModel.Agg
