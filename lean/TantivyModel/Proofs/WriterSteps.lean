import TantivyModel.Proofs.WriterInv
/-!
Preservation of `WInv` by the events of the writer model (merges excepted).
-/
namespace TantivyModel.Writer
open TantivyModel.WriterSpec

variable {α : Type} [DecidableEq α]

def growState (s : WState α) (items : List (Item α)) (extra : Nat) (channel' : List (List (α × Nat))) :
    WState α :=
  { s with stamper := s.stamper + items.length + extra,
           log := s.log ++ batchDels (stampItems s.stamper items),
           channel := channel' }

/-- the generic "queue and channel grow by stamped operations" step: covers `add`, `del`,
`batch` (with `n` items) -/
theorem inv_grow (s : WState α) (P C : List α) (h : WInv s P C) (items : List (Item α)) (extra : Nat)
    (channel' : List (List (α × Nat)))
    (hch : channel'.flatten = chanPairs s ++ batchAdds (stampItems s.stamper items)) :
    WInv (growState s items extra channel') (items.foldl applyItem P) C := by
  obtain ⟨hA, hM, hB1, hB2, hS, hC, hFL, hW, hF, hP⟩ := h
  have hall : allPairs (growState s items extra channel')
      = allPairs s ++ batchAdds (stampItems s.stamper items) := by
    simp only [allPairs, chanPairs, growState, hch]
    simp [chanPairs, List.append_assoc]
  obtain ⟨c1, c2, c3⟩ := core_batch items s.stamper s.log (allPairs s) (live s) hB1 hB2 rfl
  refine ⟨?_, hM, ?_, ?_, ?_, ?_, ?_, ?_, ?_, hP⟩
  · -- pending
    have : live (growState s items extra channel') = items.foldl applyItem (live s) := by
      simp only [live, hall]
      exact c1
    rw [this]
    exact perm_foldl_applyItem items _ _ hA
  · intro p hp
    rw [hall] at hp
    have := c2 p hp
    show p.2 < s.stamper + items.length + extra
    omega
  · intro del hdel
    have := c3 del hdel
    show del.op < s.stamper + items.length + extra
    omega
  · -- sorted
    show SortedLog (s.log ++ batchDels (stampItems s.stamper items))
    unfold SortedLog
    rw [List.pairwise_append]
    refine ⟨hS, batchDels_sorted items s.stamper, ?_⟩
    intro a ha b hb
    have := hB2 a ha
    have := (batchDels_bounds items s.stamper b hb).1
    omega
  · -- channel sorted
    show (channel'.flatten).Pairwise _
    rw [hch, List.pairwise_append]
    refine ⟨hC, batchAdds_sorted items s.stamper, ?_⟩
    intro a ha b hb
    have : a ∈ allPairs s := by simp [allPairs, ha]
    have := hB1 a this
    have := (batchAdds_bounds items s.stamper b hb).1
    omega
  · show s.flushed ≤ (s.log ++ _).length
    simp; omega
  · intro w hw
    obtain ⟨w1, w2, w3⟩ := hW w hw
    refine ⟨by show w.cur ≤ (s.log ++ _).length; simp; omega, ?_, ?_⟩
    · show ∀ del ∈ (s.log ++ _).take w.cur, ∀ p ∈ channel'.flatten, del.op < p.2
      rw [List.take_append_of_le_length w1, hch]
      intro del hdel p hp
      rcases List.mem_append.mp hp with hp | hp
      · exact w2 del hdel p hp
      · have := hB2 del ((List.take_sublist _ _).subset hdel)
        have := (batchAdds_bounds items s.stamper p hp).1
        omega
    · intro sg hsg
      obtain ⟨b1, b2⟩ := w3 sg hsg
      exact ⟨buildOK_append _ _ _ b1, b2⟩
  · intro sg hsg
    apply segOK_append _ _ _ (hF sg hsg)
    intro del hdel d hd
    have hmem : (d.doc, d.op) ∈ allPairs s := by
      have := mem_segPairs hd
      simp only [List.mem_append] at hsg
      simp only [allPairs, List.mem_append, List.mem_flatMap]
      rcases hsg with (h1 | h1) | h1
      · exact Or.inl (Or.inl (Or.inl (Or.inr ⟨sg, h1, this⟩)))
      · exact Or.inl (Or.inl (Or.inr ⟨sg, h1, this⟩))
      · exact Or.inl (Or.inr ⟨sg, h1, this⟩)
    have := hB1 _ hmem
    have := (batchDels_bounds items s.stamper del hdel).1
    simp at *; omega

/-- a step that only moves documents around (same stamper, queue, meta) -/
theorem inv_move (s s' : WState α) (P C : List α) (h : WInv s P C)
    (hst : s'.stamper = s.stamper) (hlog : s'.log = s.log) (hmeta : s'.metas = s.metas)
    (hperm : List.Perm (allPairs s') (allPairs s))
    (hchan : (chanPairs s').Pairwise (fun a b => a.2 < b.2))
    (hfl : s'.flushed ≤ s.log.length)
    (hW : ∀ w ∈ s'.workers, w.cur ≤ s.log.length
      ∧ (∀ del ∈ s.log.take w.cur, ∀ p ∈ chanPairs s', del.op < p.2)
      ∧ (∀ sg, w.seg = some sg → BuildOK s.log sg ∧ sg.cursor = w.cur))
    (hF : ∀ sg ∈ s'.inflight ++ s'.uncommitted ++ s'.committed, SegOK s.log sg) :
    WInv s' P C := by
  obtain ⟨hA, hM, hB1, hB2, hS, hC, hFL, _, _, hP⟩ := h
  refine ⟨?_, ?_, ?_, ?_, ?_, hchan, ?_, ?_, ?_, ?_⟩
  · refine List.Perm.trans ?_ hA
    simp only [live, hlog]
    exact List.Perm.map _ (List.Perm.filter _ hperm)
  · simpa [published, hmeta] using hM
  · intro p hp; rw [hst]; exact hB1 p (hperm.mem_iff.mp hp)
  · rw [hlog, hst]; exact hB2
  · rw [hlog]; exact hS
  · rw [hlog]; exact hfl
  · rw [hlog]; exact hW
  · rw [hlog]; exact hF
  · rw [hmeta]; exact hP

theorem segPairs_mkDocs (b : List (α × Nat)) (id c : Nat) :
    segPairs ({ id := id, docs := mkDocs b, cursor := c } : Seg α) = b := by
  simp [segPairs, mkDocs, List.map_map, Function.comp_def]

theorem mkDocs_pairs (b : List (α × Nat)) : (mkDocs b).map (fun d => (d.doc, d.op)) = b := by
  simp [mkDocs, List.map_map, Function.comp_def]

theorem mem_mkDocs {b : List (α × Nat)} {d : SDoc α} (h : d ∈ mkDocs b) : (d.doc, d.op) ∈ b ∧ d.alive = true := by
  simp only [mkDocs, List.mem_map] at h
  obtain ⟨p, hp, rfl⟩ := h
  exact ⟨hp, rfl⟩

theorem flushAt_le (s : WState α) (c : Nat) (h : s.flushed ≤ s.log.length) : flushAt s c ≤ s.log.length := by
  unfold flushAt; split <;> omega

theorem skipTo_le (first : Nat) (log : List (DelOp α)) (cur : Nat) (h : cur ≤ log.length) :
    skipTo first (log.drop cur) cur ≤ log.length := by
  rw [skipTo_spec]
  have := takeWhile_length_le (log.drop cur) (fun del => decide (del.op < first))
  simp at this; omega

/-- `recv` by an idle worker: `skip_to`, new segment -/
theorem inv_recv_idle (s : WState α) (P C : List α) (h : WInv s P C) (w : Nat) (wk : Worker α)
    (first : α × Nat) (tl : List (α × Nat)) (rest : List (List (α × Nat)))
    (hc : s.channel = (first :: tl) :: rest) (hw : s.workers[w]? = some wk) (hseg : wk.seg = none) :
    let c := skipTo first.2 (s.log.drop wk.cur) wk.cur
    WInv { s with channel := rest, flushed := flushAt s c, nextId := s.nextId + 1,
                  workers := s.workers.set w
                    { cur := c, seg := some { id := s.nextId, docs := mkDocs (first :: tl), cursor := c } } }
      P C := by
  intro c
  have hwmem : wk ∈ s.workers := List.mem_of_getElem? hw
  obtain ⟨wk1, wk2, _⟩ := h.workers wk hwmem
  have hchan : chanPairs s = (first :: tl) ++ rest.flatten := by simp [chanPairs, hc]
  have hCs := h.chanSorted
  rw [hchan] at hCs
  have hfirst_lt : ∀ p ∈ tl ++ rest.flatten, first.2 < p.2 := by
    have h2 := hCs
    rw [List.cons_append] at h2
    exact (List.pairwise_cons.mp h2).1
  refine inv_move s _ P C h ?_ ?_ ?_ ?_ ?_ ?_ ?_ ?_
  · rfl
  · rfl
  · rfl
  · apply List.perm_iff_count.mpr
    intro p
    have hcnt := count_flatMap_set workerPairs s.workers w wk
      { cur := c, seg := some { id := s.nextId, docs := mkDocs (first :: tl), cursor := c } } hw p
    have e1 : workerPairs wk = [] := by simp [workerPairs, hseg]
    have e2 : workerPairs ({ cur := c, seg := some { id := s.nextId, docs := mkDocs (first :: tl), cursor := c } } : Worker α)
        = first :: tl := by simp [workerPairs, segPairs_mkDocs]
    rw [e1, e2] at hcnt
    simp only [allPairs, chanPairs, hc, List.count_append, List.flatten_cons]
    simp only [List.count_nil] at hcnt
    omega
  · show (rest.flatten).Pairwise _
    exact (List.pairwise_append.mp hCs).2.1
  · exact flushAt_le s c h.flushedLe
  · intro w' hw'
    rcases List.mem_or_eq_of_mem_set hw' with hold | rfl
    · obtain ⟨a1, a2, a3⟩ := h.workers w' hold
      refine ⟨a1, ?_, a3⟩
      intro del hdel p hp
      exact a2 del hdel p (by rw [hchan]; exact List.mem_append_right _ hp)
    · refine ⟨skipTo_le _ _ _ wk1, ?_, ?_⟩
      · intro del hdel p hp
        have hp' : p ∈ rest.flatten := hp
        simp only [c, skipTo_spec] at hdel
        rw [take_add_takeWhile] at hdel
        rcases List.mem_append.mp hdel with h1 | h1
        · exact wk2 del h1 p (by rw [hchan]; exact List.mem_append_right _ hp')
        · have := mem_takeWhile_prop h1
          have := hfirst_lt p (List.mem_append_right _ hp')
          simp at *; omega
      · intro sg hsg
        simp only [Option.some.injEq] at hsg
        subst hsg
        refine ⟨?_, rfl⟩
        apply skipTo_buildOK s.log wk.cur first.2 s.nextId (mkDocs (first :: tl)) wk1
        · intro del hdel
          exact wk2 del hdel first (by rw [hchan]; simp)
        · intro d hd; exact (mem_mkDocs hd).2
        · intro d hd
          have := (mem_mkDocs hd).1
          rcases List.mem_cons.mp this with heq | hin
          · have : d.op = first.2 := by rw [← heq]
            omega
          · have := hfirst_lt (d.doc, d.op) (List.mem_append_left _ hin)
            simp at this; omega
  · exact h.segs

/-- `recv` by a worker that is building a segment: the batch is appended -/
theorem inv_recv_busy (s : WState α) (P C : List α) (h : WInv s P C) (w : Nat) (wk : Worker α)
    (b : List (α × Nat)) (rest : List (List (α × Nat))) (sg : Seg α)
    (hc : s.channel = b :: rest) (hw : s.workers[w]? = some wk) (hseg : wk.seg = some sg) :
    WInv { s with channel := rest,
                  workers := s.workers.set w { wk with seg := some { sg with docs := sg.docs ++ mkDocs b } } }
      P C := by
  have hwmem : wk ∈ s.workers := List.mem_of_getElem? hw
  obtain ⟨wk1, wk2, wk3⟩ := h.workers wk hwmem
  obtain ⟨bok, bcur⟩ := wk3 sg hseg
  have hchan : chanPairs s = b ++ rest.flatten := by simp [chanPairs, hc]
  have hCs := h.chanSorted
  rw [hchan] at hCs
  refine inv_move s _ P C h ?_ ?_ ?_ ?_ ?_ ?_ ?_ ?_
  · rfl
  · rfl
  · rfl
  · apply List.perm_iff_count.mpr
    intro p
    have hcnt := count_flatMap_set workerPairs s.workers w wk
      { wk with seg := some { sg with docs := sg.docs ++ mkDocs b } } hw p
    have e1 : workerPairs wk = segPairs sg := by simp [workerPairs, hseg]
    have e2 : workerPairs ({ wk with seg := some { sg with docs := sg.docs ++ mkDocs b } } : Worker α)
        = segPairs sg ++ b := by simp [workerPairs, segPairs, mkDocs_pairs]
    rw [e1, e2] at hcnt
    simp only [allPairs, chanPairs, hc, List.count_append, List.flatten_cons] at hcnt ⊢
    omega
  · show (rest.flatten).Pairwise _
    exact (List.pairwise_append.mp hCs).2.1
  · exact h.flushedLe
  · intro w' hw'
    rcases List.mem_or_eq_of_mem_set hw' with hold | rfl
    · obtain ⟨a1, a2, a3⟩ := h.workers w' hold
      refine ⟨a1, ?_, a3⟩
      intro del hdel p hp
      exact a2 del hdel p (by rw [hchan]; exact List.mem_append_right _ hp)
    · refine ⟨wk1, ?_, ?_⟩
      · intro del hdel p hp
        exact wk2 del hdel p (by rw [hchan]; exact List.mem_append_right _ hp)
      · intro sg' hsg'
        simp only [Option.some.injEq] at hsg'
        subst hsg'
        refine ⟨⟨bok.cur, ?_, ?_⟩, bcur⟩
        · intro d hd
          rcases List.mem_append.mp hd with h1 | h1
          · exact bok.alive d h1
          · exact (mem_mkDocs h1).2
        · intro del hdel d hd
          rcases List.mem_append.mp hd with h1 | h1
          · exact bok.older del hdel d h1
          · have hdel' : del ∈ s.log.take wk.cur := by rw [← bcur]; exact hdel
            exact wk2 del hdel' (d.doc, d.op) (by rw [hchan]; exact List.mem_append_left _ (mem_mkDocs h1).1)
  · exact h.segs

/-- `cut`: `apply_deletes`, the finished segment waits for the segment updater -/
theorem inv_cut (s : WState α) (P C : List α) (h : WInv s P C) (w : Nat) (wk : Worker α) (sg : Seg α)
    (hw : s.workers[w]? = some wk) (hseg : wk.seg = some sg) :
    WInv { s with workers := s.workers.set w { wk with seg := none },
                  flushed := flushAt s (finalize s.log sg).cursor,
                  inflight := s.inflight ++ [finalize s.log sg] }
      P C := by
  have hwmem : wk ∈ s.workers := List.mem_of_getElem? hw
  obtain ⟨wk1, wk2, wk3⟩ := h.workers wk hwmem
  obtain ⟨bok, bcur⟩ := wk3 sg hseg
  refine inv_move s _ P C h ?_ ?_ ?_ ?_ ?_ ?_ ?_ ?_
  · rfl
  · rfl
  · rfl
  · apply List.perm_iff_count.mpr
    intro p
    have hcnt := count_flatMap_set workerPairs s.workers w wk { wk with seg := none } hw p
    have e1 : workerPairs wk = segPairs sg := by simp [workerPairs, hseg]
    have e2 : workerPairs ({ wk with seg := none } : Worker α) = [] := by simp [workerPairs]
    rw [e1, e2] at hcnt
    simp only [allPairs, chanPairs, List.count_append, List.flatMap_append, List.flatMap_cons,
      List.flatMap_nil, List.append_nil, segPairs_finalize, List.count_nil] at hcnt ⊢
    omega
  · exact h.chanSorted
  · exact flushAt_le s _ h.flushedLe
  · intro w' hw'
    rcases List.mem_or_eq_of_mem_set hw' with hold | rfl
    · exact h.workers w' hold
    · exact ⟨wk1, wk2, by intro sg' hsg'; simp at hsg'⟩
  · intro sg' hsg'
    simp only [List.mem_append, List.mem_singleton] at hsg'
    rcases hsg' with ((h1 | rfl) | h1) | h1
    · exact h.segs sg' (by simp [h1])
    · exact finalize_segOK s.log sg h.sorted bok
    · exact h.segs sg' (by simp [h1])
    · exact h.segs sg' (by simp [h1])

/-- `register`: the segment updater adds the oldest finished segment to the uncommitted register -/
theorem inv_register (s : WState α) (P C : List α) (h : WInv s P C) (sg : Seg α) (rest : List (Seg α))
    (hi : s.inflight = sg :: rest) :
    WInv { s with inflight := rest, uncommitted := s.uncommitted ++ [sg] } P C := by
  refine inv_move s _ P C h ?_ ?_ ?_ ?_ ?_ ?_ ?_ ?_
  · rfl
  · rfl
  · rfl
  · apply List.perm_iff_count.mpr
    intro p
    simp only [allPairs, chanPairs, hi, List.count_append, List.flatMap_append, List.flatMap_cons,
      List.flatMap_nil, List.append_nil]
    omega
  · exact h.chanSorted
  · exact h.flushedLe
  · exact h.workers
  · intro sg' hsg'
    apply h.segs sg'
    simp only [List.mem_append, hi, List.mem_cons, List.not_mem_nil, or_false] at hsg' ⊢
    rcases hsg' with (h1 | h1 | h1) | h1
    · exact Or.inl (Or.inl (Or.inr h1))
    · exact Or.inl (Or.inr h1)
    · exact Or.inl (Or.inl (Or.inl h1))
    · exact Or.inr h1

end TantivyModel.Writer
