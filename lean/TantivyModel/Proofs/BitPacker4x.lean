import TantivyModel.Model.PostingsCodec
/-! the modelled byte layout of `BitPacker4x` (`bp4x`) satisfies the `GoodPacker` contract -/
namespace TantivyModel.Postings

/-- `Σ_{t<n} [f t]·2^t` -/
def bitsum (f : Nat → Bool) (n : Nat) : Nat :=
  (List.range n).foldr (fun t acc => (if f t then 2 ^ t else 0) + acc) 0

theorem foldr_add_acc (g : Nat → Nat) (l : List Nat) (c : Nat) :
    l.foldr (fun t acc => g t + acc) c = l.foldr (fun t acc => g t + acc) 0 + c := by
  induction l with
  | nil => simp
  | cons a r ih => simp only [List.foldr_cons, ih]; omega

theorem bitsum_succ (f : Nat → Bool) (n : Nat) :
    bitsum f (n + 1) = bitsum f n + (if f n then 2 ^ n else 0) := by
  unfold bitsum
  rw [List.range_succ, List.foldr_append, foldr_add_acc]
  simp

theorem bitsum_lt (f : Nat → Bool) (n : Nat) : bitsum f n < 2 ^ n := by
  induction n with
  | zero => simp [bitsum]
  | succ n ih =>
    rw [bitsum_succ, Nat.pow_succ]
    split <;> omega

theorem bitsum_testBit (f : Nat → Bool) (n i : Nat) :
    (bitsum f n).testBit i = (decide (i < n) && f i) := by
  induction n with
  | zero => simp [bitsum]
  | succ n ih =>
    rw [bitsum_succ]
    by_cases hf : f n
    · simp only [hf, if_true]
      have e : bitsum f n + 2 ^ n = 2 ^ n * 1 + bitsum f n := by omega
      rw [e, Nat.testBit_two_pow_mul_add 1 (bitsum_lt f n), ih]
      by_cases h1 : i < n
      · have : i < n + 1 := by omega
        simp [h1, this]
      · by_cases h2 : i = n
        · subst h2; simp [hf]
        · have h3 : ¬ i < n + 1 := by omega
          have h4 : i - n ≠ 0 := by omega
          obtain ⟨k, hk⟩ : ∃ k, i - n = k + 1 := ⟨i - n - 1, by omega⟩
          simp [h1, h3, hk, Nat.testBit_succ]
    · simp only [hf, Bool.false_eq_true, if_false, Nat.add_zero, ih]
      by_cases h1 : i < n
      · have : i < n + 1 := by omega
        simp [h1, this]
      · by_cases h2 : i = n
        · subst h2; simp [hf]
        · have h3 : ¬ i < n + 1 := by omega
          simp [h1, h3]

theorem bitsum_congr (f g : Nat → Bool) (n : Nat) (h : ∀ b, b < n → f b = g b) : bitsum f n = bitsum g n := by
  induction n with
  | zero => rfl
  | succ n ih =>
    rw [bitsum_succ, bitsum_succ, ih (fun b hb => h b (by omega)), h n (by omega)]

theorem bitsum_testBit_self (v w : Nat) : bitsum (fun b => v.testBit b) w = v % 2 ^ w := by
  apply Nat.eq_of_testBit_eq
  intro i
  rw [bitsum_testBit, Nat.testBit_mod_two_pow]

theorem byteOfBits_eq (f : Nat → Bool) : byteOfBits f = bitsum f 8 := rfl

/-- the byte holding lane bit `p` of lane `j` sits at `4·(4·(p/32) + j) + (p%32)/8`, bit `p%8` -/
theorem bp4xPack_getD (w : Nat) (vs : List Nat) (j p : Nat) (hj : j < 4) (hp : p < 32 * w) :
    ((bp4xPack w vs).getD (4 * (4 * (p / 32) + j) + (p % 32) / 8) 0).testBit (p % 8) = laneBit w vs j p := by
  have hidx : 4 * (4 * (p / 32) + j) + (p % 32) / 8 < 16 * w := by omega
  unfold bp4xPack
  rw [List.getD_eq_getElem?_getD, List.getElem?_map, List.getElem?_range hidx]
  simp only [Option.map_some, Option.getD_some]
  rw [byteOfBits_eq, bitsum_testBit]
  have h8 : p % 8 < 8 := Nat.mod_lt _ (by omega)
  have e1 : (4 * (4 * (p / 32) + j) + p % 32 / 8) / 4 % 4 = j := by omega
  have e2 : (4 * (4 * (p / 32) + j) + p % 32 / 8) / 4 / 4 * 32 +
      (4 * (4 * (p / 32) + j) + p % 32 / 8) % 4 * 8 + p % 8 = p := by omega
  simp only [h8, decide_true, Bool.true_and, e1, e2]

theorem bp4x_good : GoodPacker 128 bp4x := by
  constructor
  · intro w vs _
    simp [bp4x, bp4xPack]; omega
  · intro w vs rest hlen hlt
    show bp4xUnpack w (bp4xPack w vs ++ rest) = vs
    have hpl : (bp4xPack w vs).length = 16 * w := by simp [bp4xPack]
    unfold bp4xUnpack
    simp only
    rw [List.take_left' hpl]
    apply List.ext_getElem
    · simp [hlen]
    · intro n h1 h2
      have hn : n < 128 := by simpa using h1
      rw [List.getElem_map, List.getElem_range]
      -- the inner sum is a bitsum of the bits of `vs[n]`
      have hsum : ∀ (f : Nat → Bool), (List.range w).foldr
          (fun b acc => (if f b then 2 ^ b else 0) + acc) 0 = bitsum f w := fun _ => rfl
      have hbits : ∀ b, b < w →
          (((bp4xPack w vs).toArray.getD (4 * (4 * ((n / 4 * w + b) / 32) + n % 4) + (n / 4 * w + b) % 32 / 8) 0).testBit
            ((n / 4 * w + b) % 8)) = (vs[n]).testBit b := by
        intro b hb
        have hp : n / 4 * w + b < 32 * w := by
          have : n / 4 ≤ 31 := by omega
          have : n / 4 * w ≤ 31 * w := Nat.mul_le_mul_right _ this
          omega
        have hA : (bp4xPack w vs).toArray.getD (4 * (4 * ((n / 4 * w + b) / 32) + n % 4) + (n / 4 * w + b) % 32 / 8) 0 =
            (bp4xPack w vs).getD (4 * (4 * ((n / 4 * w + b) / 32) + n % 4) + (n / 4 * w + b) % 32 / 8) 0 := by
          simp [Array.getD_eq_getD_getElem?, List.getD_eq_getElem?_getD]
        rw [hA, bp4xPack_getD w vs (n % 4) _ (Nat.mod_lt _ (by omega)) hp]
        unfold laneBit
        have hw : 0 < w := by omega
        have e1 : (n / 4 * w + b) / w = n / 4 := by
          rw [Nat.add_comm, Nat.add_mul_div_right _ _ hw, Nat.div_eq_of_lt hb, Nat.zero_add]
        have e2 : (n / 4 * w + b) % w = b := by
          rw [Nat.add_comm, Nat.add_mul_mod_self_right, Nat.mod_eq_of_lt hb]
        have e3 : 4 * (n / 4) + n % 4 = n := by omega
        rw [e1, e2, e3, List.getD_eq_getElem?_getD, List.getElem?_eq_getElem h2, Option.getD_some]
      have hfun : bitsum (fun b => ((bp4xPack w vs).toArray.getD
            (4 * (4 * ((n / 4 * w + b) / 32) + n % 4) + (n / 4 * w + b) % 32 / 8) 0).testBit ((n / 4 * w + b) % 8)) w =
          bitsum (fun b => (vs[n]).testBit b) w := by
        exact bitsum_congr _ _ w hbits
      show (List.range w).foldr _ 0 = vs[n]
      rw [hsum, hfun, bitsum_testBit_self]
      exact Nat.mod_eq_of_lt (hlt _ (List.getElem_mem h2))

end TantivyModel.Postings
