import TantivyModel.Model.VInt
/-! helper lemmas about the VInt model -/
namespace TantivyModel.VInt

theorem dec_enc (S : Nat) (hS : 2 ≤ S) (n : Nat) (rest : List Nat) :
    dec S (enc S n ++ rest) = some (n, rest) := by
  fun_induction enc S n with
  | case1 n h ih =>
    have hlt : n % S < S := Nat.mod_lt _ (by omega)
    have : ¬ S ≤ n % S := by omega
    simp only [List.cons_append, dec, this, if_false, ih]
    rw [Nat.mod_mod, Nat.mod_add_div]
  | case2 n h =>
    have hn : n < S := by omega
    have h1 : S ≤ n % S + S := by omega
    simp only [List.cons_append, List.nil_append, dec, h1, if_true]
    have : (n % S + S) % S = n := by
      rw [Nat.add_mod_right, Nat.mod_mod, Nat.mod_eq_of_lt hn]
    simp [this]

theorem enc_ne_nil (S n : Nat) : enc S n ≠ [] := by
  unfold enc; split <;> simp

/-- every byte fits in `2·S` (i.e. a `u8` for `S = 128`) -/
theorem enc_bytes_lt (S : Nat) (hS : 2 ≤ S) (n : Nat) : ∀ b ∈ enc S n, b < 2 * S := by
  fun_induction enc S n with
  | case1 n h ih =>
    intro b hb
    rcases List.mem_cons.mp hb with rfl | hb
    · have : n % S < S := Nat.mod_lt _ (by omega)
      omega
    · exact ih b hb
  | case2 n h =>
    intro b hb
    have : n % S < S := Nat.mod_lt _ (by omega)
    simp at hb; omega

/-- a value below `S^k` takes at most `k` bytes (`k ≥ 1`): 5 bytes for `u32`, 10 for `u64` -/
theorem enc_length_le (S : Nat) (_hS : 2 ≤ S) (k n : Nat) (h : n < S ^ (k + 1)) :
    (enc S n).length ≤ k + 1 := by
  induction k generalizing n with
  | zero =>
    unfold enc
    have : ¬ (2 ≤ S ∧ S ≤ n) := by simp at h; omega
    simp [this]
  | succ k ih =>
    unfold enc
    split
    · rename_i hc
      have : n / S < S ^ (k + 1) := by
        apply Nat.div_lt_of_lt_mul
        rw [Nat.pow_succ] at h
        rw [Nat.mul_comm]; exact h
      have := ih (n / S) this
      simp; omega
    · simp

theorem decList_encList (S : Nat) (hS : 2 ≤ S) (vs rest : List Nat) :
    decList S vs.length (encList S vs ++ rest) = some (vs, rest) := by
  induction vs with
  | nil => simp [decList, encList]
  | cons v vs ih =>
    simp only [List.length_cons, decList, encList, List.append_assoc, dec_enc S hS, ih]

theorem dec_length_lt (S : Nat) (bs : List Nat) (v : Nat) (r : List Nat)
    (h : dec S bs = some (v, r)) : r.length < bs.length := by
  induction bs generalizing v r with
  | nil => simp [dec] at h
  | cons b rest ih =>
    simp only [dec] at h
    split at h
    · simp at h; simp [← h.2]
    · split at h
      · rename_i v' r' heq
        simp at h
        have := ih v' r' heq
        simp [← h.2]; omega
      · simp at h

theorem decAllFuel_encList (S : Nat) (hS : 2 ≤ S) (vs : List Nat) (f : Nat)
    (hf : (encList S vs).length ≤ f) : decAllFuel S f (encList S vs) = vs := by
  induction vs generalizing f with
  | nil => cases f <;> simp [decAllFuel, encList, dec]
  | cons v vs ih =>
    have hne := List.length_pos_iff.mpr (enc_ne_nil S v)
    simp only [encList, List.length_append] at hf
    cases f with
    | zero => omega
    | succ f =>
      have h := dec_enc S hS v (encList S vs)
      simp only [decAllFuel, encList, h]
      rw [ih f (by omega)]

theorem decAll_encList (S : Nat) (hS : 2 ≤ S) (vs : List Nat) :
    decAll S (encList S vs) = vs :=
  decAllFuel_encList S hS vs _ (Nat.le_refl _)

/-! ### the unrolled u32 encoder -/

/-- a value with exactly `k+1` groups: `enc` produces the groups, stop bit on the last -/
theorem enc_eq_groups (S : Nat) (hS : 2 ≤ S) (k : Nat) :
    ∀ v, v < S ^ (k + 1) → (k = 0 ∨ S ^ k ≤ v) →
      enc S v = (List.range (k + 1)).map (fun i => v / S ^ i % S + (if i + 1 = k + 1 then S else 0)) := by
  induction k with
  | zero =>
    intro v hv _
    have hv' : v < S := by simpa using hv
    unfold enc
    have : ¬ (2 ≤ S ∧ S ≤ v) := by omega
    simp [this]
  | succ k ih =>
    intro v hv hlow
    have hSk : S ^ (k + 1) ≤ v := by
      rcases hlow with h | h
      · omega
      · exact h
    have hSpos : 0 < S := by omega
    have hSle : S ≤ v := by
      have : S ^ 1 ≤ S ^ (k + 1) := Nat.pow_le_pow_right hSpos (by omega)
      simp at this; omega
    have hdiv : v / S < S ^ (k + 1) := by
      apply Nat.div_lt_of_lt_mul
      rw [Nat.pow_succ] at hv
      rw [Nat.mul_comm]; exact hv
    have hlow' : k = 0 ∨ S ^ k ≤ v / S := by
      right
      rw [Nat.le_div_iff_mul_le hSpos, ← Nat.pow_succ]; exact hSk
    have ih' := ih (v / S) hdiv hlow'
    rw [enc, dif_pos ⟨hS, hSle⟩, ih', List.range_succ_eq_map (n := k + 1)]
    simp only [List.map_cons, List.map_map, Nat.pow_zero, Nat.div_one]
    have : ¬ (0 + 1 = k + 1 + 1) := by omega
    simp [this]
    intro a _
    rw [Nat.div_div_eq_div_mul, Nat.pow_succ, Nat.mul_comm]

/-- with the thresholds the code has today, the unrolled encoder agrees with the loop encoder on
every `u32` (this is where a moved threshold breaks the proof) -/
theorem serializeU32_eq_enc (v : Nat) (hv : v < 2 ^ 32) :
    serializeU32 Gen.Postings.VINT32_LADDER Gen.Postings.VINT32_LAST_BYTES Gen.Postings.VINT32_RADIX
      Gen.Postings.VINT32_STOP_BIT v = enc 128 v := by
  have hl : Gen.Postings.VINT32_LADDER = [(128, 1), (128 ^ 2, 2), (128 ^ 3, 3), (128 ^ 4, 4)] := by decide
  have h5 : Gen.Postings.VINT32_LAST_BYTES = 5 := by decide
  have hr : Gen.Postings.VINT32_RADIX = 128 := by decide
  have hs : Gen.Postings.VINT32_STOP_BIT = 128 := by decide
  unfold serializeU32
  rw [hl, h5, hr, hs]
  by_cases h1 : v < 128
  · rw [enc_eq_groups 128 (by omega) 0 v (by omega) (Or.inl rfl)]
    simp [ladderBytes, h1]
  · by_cases h2 : v < 128 ^ 2
    · rw [enc_eq_groups 128 (by omega) 1 v (by omega) (Or.inr (by omega))]
      simp [ladderBytes, h1, h2]
    · by_cases h3 : v < 128 ^ 3
      · rw [enc_eq_groups 128 (by omega) 2 v (by omega) (Or.inr (by omega))]
        simp [ladderBytes, h1, h2, h3]
      · by_cases h4 : v < 128 ^ 4
        · rw [enc_eq_groups 128 (by omega) 3 v (by omega) (Or.inr (by omega))]
          simp [ladderBytes, h1, h2, h3, h4]
        · rw [enc_eq_groups 128 (by omega) 4 v (by omega) (Or.inr (by omega))]
          simp [ladderBytes, h1, h2, h3, h4]

theorem enc_length_pos (S n : Nat) : 0 < (enc S n).length :=
  List.length_pos_iff.mpr (enc_ne_nil S n)

theorem readU32_enc (S : Nat) (hS : 2 ≤ S) (maxLen v : Nat) (rest : List Nat)
    (hlen : (enc S v).length ≤ maxLen) :
    readU32 S maxLen (enc S v ++ rest) = some (v, (enc S v).length) := by
  unfold readU32
  rw [List.take_append, List.take_of_length_le hlen, dec_enc S hS]
  simp

end TantivyModel.VInt
