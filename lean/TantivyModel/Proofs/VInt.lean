import TantivyModel.Model.VInt
/-! helper lemmas about the VInt model -/
namespace TantivyModel.VInt

theorem dec_enc (S : Nat) (hS : 2 ≤ S) (n : Nat) (rest : List Nat) :
    dec S (enc S n ++ rest) = some (n, rest) := by
  fun_induction enc S n with
  | case1 n h ih =>
    have hlt : n % S < S := Nat.mod_lt _ (by omega)
    have : ¬ S ≤ n % S := by omega
    simp only [List.cons_append, dec, this, if_false, ih]
    rw [Nat.mod_mod, Nat.mod_add_div]
  | case2 n h =>
    have hn : n < S := by omega
    have h1 : S ≤ n % S + S := by omega
    simp only [List.cons_append, List.nil_append, dec, h1, if_true]
    have : (n % S + S) % S = n := by
      rw [Nat.add_mod_right, Nat.mod_mod, Nat.mod_eq_of_lt hn]
    simp [this]

theorem enc_ne_nil (S n : Nat) : enc S n ≠ [] := by
  unfold enc; split <;> simp

/-- every byte fits in `2·S` (i.e. a `u8` for `S = 128`) -/
theorem enc_bytes_lt (S : Nat) (hS : 2 ≤ S) (n : Nat) : ∀ b ∈ enc S n, b < 2 * S := by
  fun_induction enc S n with
  | case1 n h ih =>
    intro b hb
    rcases List.mem_cons.mp hb with rfl | hb
    · have : n % S < S := Nat.mod_lt _ (by omega)
      omega
    · exact ih b hb
  | case2 n h =>
    intro b hb
    have : n % S < S := Nat.mod_lt _ (by omega)
    simp at hb; omega

/-- a value below `S^k` takes at most `k` bytes (`k ≥ 1`): 5 bytes for `u32`, 10 for `u64` -/
theorem enc_length_le (S : Nat) (_hS : 2 ≤ S) (k n : Nat) (h : n < S ^ (k + 1)) :
    (enc S n).length ≤ k + 1 := by
  induction k generalizing n with
  | zero =>
    unfold enc
    have : ¬ (2 ≤ S ∧ S ≤ n) := by simp at h; omega
    simp [this]
  | succ k ih =>
    unfold enc
    split
    · rename_i hc
      have : n / S < S ^ (k + 1) := by
        apply Nat.div_lt_of_lt_mul
        rw [Nat.pow_succ] at h
        rw [Nat.mul_comm]; exact h
      have := ih (n / S) this
      simp; omega
    · simp

theorem decList_encList (S : Nat) (hS : 2 ≤ S) (vs rest : List Nat) :
    decList S vs.length (encList S vs ++ rest) = some (vs, rest) := by
  induction vs with
  | nil => simp [decList, encList]
  | cons v vs ih =>
    simp only [List.length_cons, decList, encList, List.append_assoc, dec_enc S hS, ih]

theorem dec_length_lt (S : Nat) (bs : List Nat) (v : Nat) (r : List Nat)
    (h : dec S bs = some (v, r)) : r.length < bs.length := by
  induction bs generalizing v r with
  | nil => simp [dec] at h
  | cons b rest ih =>
    simp only [dec] at h
    split at h
    · simp at h; simp [← h.2]
    · split at h
      · rename_i v' r' heq
        simp at h
        have := ih v' r' heq
        simp [← h.2]; omega
      · simp at h

theorem decAllFuel_encList (S : Nat) (hS : 2 ≤ S) (vs : List Nat) (f : Nat)
    (hf : (encList S vs).length ≤ f) : decAllFuel S f (encList S vs) = vs := by
  induction vs generalizing f with
  | nil => cases f <;> simp [decAllFuel, encList, dec]
  | cons v vs ih =>
    have hne := List.length_pos_iff.mpr (enc_ne_nil S v)
    simp only [encList, List.length_append] at hf
    cases f with
    | zero => omega
    | succ f =>
      have h := dec_enc S hS v (encList S vs)
      simp only [decAllFuel, encList, h]
      rw [ih f (by omega)]

theorem decAll_encList (S : Nat) (hS : 2 ≤ S) (vs : List Nat) :
    decAll S (encList S vs) = vs :=
  decAllFuel_encList S hS vs _ (Nat.le_refl _)

end TantivyModel.VInt
