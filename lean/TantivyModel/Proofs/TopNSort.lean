import TantivyModel.Model.TopN
/-!
Sorting lemmas behind C06: insertion sort is a sorted permutation, sorted permutations are
unique for an order that is antisymmetric on the list, and `take K ∘ isort` can be computed
incrementally (`take_ins`, `takeK_isort_append`).
-/
namespace TantivyModel.TopN
open List

section Generic
variable {β : Type} (le : β → β → Bool)

/-- laws of a total preorder given as a boolean relation -/
structure TotalPreorder : Prop where
  total : ∀ a b, le a b = true ∨ le b a = true
  trans : ∀ a b c, le a b = true → le b c = true → le a c = true

def Sorted (l : List β) : Prop := l.Pairwise (fun a b => le a b = true)

/-- the order is antisymmetric on the members of `l` -/
def Antisym (l : List β) : Prop :=
  ∀ a b, a ∈ l → b ∈ l → le a b = true → le b a = true → a = b

variable {le}

theorem Antisym.mono {l₁ l₂ : List β} (h : Antisym le l₁) (hs : ∀ x, x ∈ l₂ → x ∈ l₁) :
    Antisym le l₂ := fun a b ha hb => h a b (hs a ha) (hs b hb)

theorem ins_perm (e : β) (l : List β) : ins le e l ~ e :: l := by
  induction l with
  | nil => simp [ins]
  | cons x xs ih =>
    unfold ins
    split
    · exact (Perm.cons x ih).trans (Perm.swap e x xs)
    · exact Perm.refl _

theorem isort_perm (l : List β) : isort le l ~ l := by
  induction l with
  | nil => simp [isort]
  | cons x xs ih =>
    have : isort le (x :: xs) = ins le x (isort le xs) := rfl
    rw [this]
    exact (ins_perm x _).trans (Perm.cons x ih)

theorem mem_ins {e x : β} {l : List β} : x ∈ ins le e l ↔ x = e ∨ x ∈ l := by
  rw [(ins_perm (le := le) e l).mem_iff]; simp

theorem mem_isort {x : β} {l : List β} : x ∈ isort le l ↔ x ∈ l := (isort_perm l).mem_iff

theorem length_ins (e : β) (l : List β) : (ins le e l).length = l.length + 1 := by
  simpa using (ins_perm (le := le) e l).length_eq

theorem length_isort (l : List β) : (isort le l).length = l.length := (isort_perm l).length_eq

theorem ins_sorted (hle : TotalPreorder le) (e : β) {l : List β} (h : Sorted le l) :
    Sorted le (ins le e l) := by
  induction l with
  | nil => simp [ins, Sorted]
  | cons x xs ih =>
    unfold Sorted at h ih ⊢
    rw [pairwise_cons] at h
    unfold ins
    split
    · rename_i hx
      rw [pairwise_cons]
      refine ⟨?_, ih h.2⟩
      intro y hy
      rcases mem_ins.mp hy with rfl | hy
      · exact hx
      · exact h.1 y hy
    · rename_i hx
      have hex : le e x = true := by
        rcases hle.total e x with h' | h'
        · exact h'
        · exact absurd h' hx
      rw [pairwise_cons]
      refine ⟨?_, pairwise_cons.mpr h⟩
      intro y hy
      rcases mem_cons.mp hy with rfl | hy
      · exact hex
      · exact hle.trans _ _ _ hex (h.1 y hy)

theorem isort_sorted (hle : TotalPreorder le) (l : List β) : Sorted le (isort le l) := by
  induction l with
  | nil => simp [isort, Sorted]
  | cons x xs ih => exact ins_sorted hle x ih

/-- on a list where the order is antisymmetric, the sorted arrangement is unique: any correct
sort (`sort_unstable_by`) returns `isort` -/
theorem sorted_perm_unique {l₁ l₂ : List β} (ha : Antisym le l₁) (h₁ : Sorted le l₁)
    (h₂ : Sorted le l₂) (hp : l₁ ~ l₂) : l₁ = l₂ :=
  Perm.eq_of_pairwise (le := fun a b => le a b = true)
    (fun a b ha' hb' => ha a b ha' (hp.symm.subset hb')) h₁ h₂ hp

theorem isort_eq_of_perm (hle : TotalPreorder le) {l₁ l₂ : List β} (ha : Antisym le l₁)
    (hp : l₁ ~ l₂) : isort le l₁ = isort le l₂ :=
  sorted_perm_unique (ha.mono fun _ hx => mem_isort.mp hx) (isort_sorted hle _)
    (isort_sorted hle _) ((isort_perm l₁).trans (hp.trans (isort_perm l₂).symm))

theorem isort_of_sorted (hle : TotalPreorder le) {l : List β} (ha : Antisym le l)
    (h : Sorted le l) : isort le l = l :=
  sorted_perm_unique (ha.mono fun _ hx => mem_isort.mp hx) (isort_sorted hle _) h (isort_perm l)

theorem Sorted.take {l : List β} (h : Sorted le l) (n : Nat) : Sorted le (l.take n) :=
  Pairwise.sublist (take_sublist n l) h

theorem Sorted.drop {l : List β} (h : Sorted le l) (n : Nat) : Sorted le (l.drop n) :=
  Pairwise.sublist (drop_sublist n l) h

/-- the first `K` after an insertion depend only on the first `K` before it -/
theorem take_ins (e : β) (L : List β) (K : Nat) :
    (ins le e L).take K = (ins le e (L.take K)).take K := by
  induction L generalizing K with
  | nil => simp
  | cons x xs ih =>
    cases K with
    | zero => simp
    | succ k =>
      rw [take_succ_cons]
      unfold ins
      split
      · rw [take_succ_cons, take_succ_cons, ih k]
      · rw [take_succ_cons, take_succ_cons]
        congr 1
        cases k with
        | zero => simp
        | succ j => simp [take_take, Nat.min_eq_left (Nat.le_succ j)]

/-- an element that comes after at least `K` members does not enter the first `K` -/
theorem take_ins_of_count (hle : TotalPreorder le) (e : β) {L : List β} (hs : Sorted le L)
    {K : Nat} (hc : K ≤ L.countP (fun x => le x e)) : (ins le e L).take K = L.take K := by
  induction L generalizing K with
  | nil => simp at hc; subst hc; simp
  | cons x xs ih =>
    cases K with
    | zero => simp
    | succ k =>
      unfold Sorted at hs
      rw [pairwise_cons] at hs
      unfold ins
      split
      · rename_i hx
        rw [take_succ_cons, take_succ_cons]
        congr 1
        apply ih hs.2
        rw [countP_cons_of_pos (by simpa using hx)] at hc
        omega
      · rename_i hx
        exfalso
        have hz : xs.countP (fun y => le y e) = 0 := by
          rw [countP_eq_zero]
          intro y hy hye
          exact hx (hle.trans _ _ _ (hs.1 y hy) hye)
        rw [countP_cons_of_neg (by simpa using hx), hz] at hc
        omega

theorem take_foldr_ins (S B : List β) (K : Nat) :
    (B.foldr (ins le) S).take K = (B.foldr (ins le) (S.take K)).take K := by
  induction B with
  | nil => simp [take_take]
  | cons b bs ih =>
    simp only [foldr_cons]
    rw [take_ins, ih, ← take_ins]

theorem isort_append (A B : List β) : isort le (B ++ A) = B.foldr (ins le) (isort le A) := by
  simp [isort, foldr_append]

/-- the `K` best of `A ++ B` are the `K` best of (the `K` best of `A`) `++ B` -/
theorem takeK_isort_append (hle : TotalPreorder le) {A B : List β} (ha : Antisym le (A ++ B))
    (K : Nat) :
    (isort le (A ++ B)).take K = (isort le ((isort le A).take K ++ B)).take K := by
  have hBA : isort le (A ++ B) = isort le (B ++ A) := isort_eq_of_perm hle ha perm_append_comm
  have hsub : ∀ x, x ∈ (isort le A).take K ++ B → x ∈ A ++ B := by
    intro x hx
    rcases mem_append.mp hx with h | h
    · exact mem_append_left _ (mem_isort.mp (mem_of_mem_take h))
    · exact mem_append_right _ h
  have ha' : Antisym le ((isort le A).take K ++ B) := ha.mono hsub
  have hBA' : isort le ((isort le A).take K ++ B) = isort le (B ++ (isort le A).take K) :=
    isort_eq_of_perm hle ha' perm_append_comm
  have hS : isort le ((isort le A).take K) = (isort le A).take K :=
    isort_of_sorted hle (ha'.mono fun x hx => mem_append_left _ hx)
      ((isort_sorted hle A).take K)
  rw [hBA, hBA', isort_append, isort_append, hS, take_foldr_ins]

/-- sorting a concatenation whose left part is entirely before its right part -/
theorem isort_append_of_le (hle : TotalPreorder le) {A B : List β} (ha : Antisym le (A ++ B))
    (h : ∀ a ∈ A, ∀ b ∈ B, le a b = true) : isort le (A ++ B) = isort le A ++ isort le B := by
  apply sorted_perm_unique (ha.mono fun _ hx => mem_isort.mp hx) (isort_sorted hle _)
  · unfold Sorted
    rw [pairwise_append]
    refine ⟨isort_sorted hle A, isort_sorted hle B, ?_⟩
    intro a ha' b hb'
    exact h a (mem_isort.mp ha') b (mem_isort.mp hb')
  · exact (isort_perm _).trans (Perm.append (isort_perm A).symm (isort_perm B).symm)

end Generic

/-! ## the order of `compare_for_top_k` -/

section EntryOrder
variable {α : Type}

/-- laws of a comparator, in terms of `gt a b ⇔ compare(a,b) == Greater`: a strict weak order -/
structure StrictWeak (gt : α → α → Bool) : Prop where
  asymm : ∀ a b, gt a b = true → gt b a = false
  negTrans : ∀ a b c, gt a b = false → gt b c = false → gt a c = false

theorem StrictWeak.trans {gt : α → α → Bool} (h : StrictWeak gt) (a b c : α)
    (hab : gt a b = true) (hbc : gt b c = true) : gt a c = true := by
  cases hac : gt a c with
  | true => rfl
  | false =>
    have hcb : gt c b = false := h.asymm _ _ hbc
    have := h.negTrans a c b hac hcb
    rw [hab] at this; cases this

theorem le_totalPreorder {gt : α → α → Bool} (h : StrictWeak gt) :
    TotalPreorder (le gt : Entry α → Entry α → Bool) where
  total a b := by
    unfold le
    cases h1 : gt a.key b.key <;> cases h2 : gt b.key a.key <;> simp <;> omega
  trans a b c hab hbc := by
    unfold le at *
    have t1 := h.trans a.key b.key c.key
    have n1 := h.negTrans a.key b.key c.key
    have n2 := h.negTrans c.key b.key a.key
    have n3 := h.negTrans b.key a.key c.key
    have n4 := h.negTrans a.key c.key b.key
    have n5 := h.negTrans b.key c.key a.key
    have n6 := h.negTrans c.key a.key b.key
    have a1 := h.asymm a.key b.key
    have a2 := h.asymm b.key c.key
    have a3 := h.asymm a.key c.key
    cases h1 : gt a.key b.key <;> cases h2 : gt b.key a.key <;> cases h3 : gt b.key c.key <;>
      cases h4 : gt c.key b.key <;> cases h5 : gt a.key c.key <;> cases h6 : gt c.key a.key <;>
      simp_all <;> omega

/-- distinct addresses -/
def AddrNodup (l : List (Entry α)) : Prop := l.Pairwise (fun a b => a.addr ≠ b.addr)

/-- strictly ascending addresses (the order in which a segment is scanned) -/
def AddrAsc (l : List (Entry α)) : Prop := l.Pairwise (fun a b => a.addr < b.addr)

theorem AddrAsc.nodup {l : List (Entry α)} (h : AddrAsc l) : AddrNodup l :=
  Pairwise.imp (fun hab => Nat.ne_of_lt hab) h

theorem AddrNodup.eq_of_addr {l : List (Entry α)} (h : AddrNodup l) {a b : Entry α}
    (ha : a ∈ l) (hb : b ∈ l) (hab : a.addr = b.addr) : a = b := by
  induction l with
  | nil => cases ha
  | cons x xs ih =>
    unfold AddrNodup at h
    rw [pairwise_cons] at h
    rcases mem_cons.mp ha with rfl | ha' <;> rcases mem_cons.mp hb with rfl | hb'
    · rfl
    · exact absurd hab (h.1 b hb')
    · exact absurd hab.symm (h.1 a ha')
    · exact ih h.2 ha' hb'

theorem AddrNodup.antisym {gt : α → α → Bool} (hgt : StrictWeak gt) {l : List (Entry α)}
    (h : AddrNodup l) : Antisym (le gt) l := by
  intro a b ha hb hab hba
  apply h.eq_of_addr ha hb
  unfold le at hab hba
  have a1 := hgt.asymm a.key b.key
  have a2 := hgt.asymm b.key a.key
  cases h1 : gt a.key b.key <;> cases h2 : gt b.key a.key <;> simp_all <;> omega

theorem AddrNodup.perm {l₁ l₂ : List (Entry α)} (h : AddrNodup l₁) (hp : l₁ ~ l₂) : AddrNodup l₂ :=
  hp.pairwise h (fun hab => fun e => hab e.symm)

theorem AddrNodup.sublist {l₁ l₂ : List (Entry α)} (h : AddrNodup l₁) (hs : l₂.Sublist l₁) :
    AddrNodup l₂ := Pairwise.sublist hs h

end EntryOrder
end TantivyModel.TopN
