import TantivyModel.Proofs.BlockWandPivot
/-!
Every array operation of the mirrored `block_wand` loop either leaves the totals unchanged
(permutations, removal of exhausted scorers, shallow seeks) or lowers them only at documents the
moved scorer passes (deep seeks, advances).
-/
namespace TantivyModel.BlockWand
open List TantivyModel.Wand

/-- invariant of the scorer array: well-formed scorers (incl. the bound hypotheses), nothing before `lo` -/
structure Inv (lo : Nat) (arr : List S) : Prop where
  wf : ∀ s, s ∈ arr → WF s
  ge : ∀ s, s ∈ arr → ∀ p, p ∈ s.rest → lo ≤ p.1

/-- `arr'` has totals not above those of `arr`, different only at documents satisfying `D` -/
def Lower (D : Nat → Prop) (arr arr' : List S) : Prop :=
  ∀ d, tot arr' d ≤ tot arr d ∧ (tot arr' d ≠ tot arr d → D d)

theorem Lower.refl (D : Nat → Prop) (arr : List S) : Lower D arr arr :=
  fun _ => ⟨Nat.le_refl _, fun h => absurd rfl h⟩

theorem Lower.trans {D : Nat → Prop} {a b c : List S} (h₁ : Lower D a b) (h₂ : Lower D b c) : Lower D a c := by
  intro d
  have := h₁ d; have := h₂ d
  refine ⟨by omega, ?_⟩
  intro hne
  by_cases hbc : tot c d = tot b d
  · exact (h₁ d).2 (by omega)
  · exact (h₂ d).2 hbc

theorem Lower.of_tot_eq {D : Nat → Prop} {a b : List S} (h : ∀ d, tot b d = tot a d) : Lower D a b :=
  fun d => ⟨by rw [h d]; exact Nat.le_refl _, fun hne => absurd (h d) hne⟩

theorem Lower.of_perm {D : Nat → Prop} {a b : List S} (h : a ~ b) : Lower D a b :=
  Lower.of_tot_eq fun d => (tot_perm h d).symm

theorem Inv.of_subset {lo : Nat} {a b : List S} (h : Inv lo a) (hs : ∀ s, s ∈ b → s ∈ a) : Inv lo b :=
  ⟨fun s hs' => h.wf s (hs s hs'), fun s hs' => h.ge s (hs s hs')⟩

/-! ### replacing one scorer by a sought one -/

theorem posts_set_seek (arr : List S) (i t : Nat) (s : S) (hi : arr[i]? = some s) (hasc : Asc s.rest) :
    posts (arr.set i (s.seek t)) = modifyAt (seekP · t) (posts arr) i := by
  induction arr generalizing i with
  | nil => simp at hi
  | cons x xs ih =>
    cases i with
    | zero =>
      simp at hi; subst hi
      simp [posts, modifyAt, seek_rest x hasc]
    | succ j =>
      simp only [getElem?_cons_succ] at hi
      have := ih j hi
      simp only [posts, set_cons_succ, map_cons, modifyAt] at this ⊢
      rw [this]

theorem posts_getElem? (arr : List S) (i : Nat) (s : S) (hi : arr[i]? = some s) :
    (posts arr)[i]? = some s.rest := by simp [posts, hi]

theorem mem_of_set {β : Type} {l : List β} {i : Nat} {x y : β} (h : y ∈ l.set i x) : y = x ∨ y ∈ l := by
  induction l generalizing i with
  | nil => simp at h
  | cons a as ih =>
    cases i with
    | zero => simp at h; rcases h with h | h <;> simp [h]
    | succ j =>
      simp only [set_cons_succ, mem_cons] at h
      rcases h with h | h
      · right; simp [h]
      · rcases ih h with h' | h'
        · left; exact h'
        · right; simp [h']

/-- a deep seek of `arr[i]` to `t` lowers totals only at documents `< t` -/
theorem lower_set_seek {lo : Nat} (arr : List S) (hinv : Inv lo arr) (i t : Nat) (s : S) (hi : arr[i]? = some s) :
    Lower (· < t) arr (arr.set i (s.seek t)) ∧ Inv lo (arr.set i (s.seek t)) := by
  have hs : s ∈ arr := mem_of_getElem? hi
  have hasc : ∀ p, p ∈ posts arr → Asc p := by
    intro p hp
    obtain ⟨x, hx, rfl⟩ := mem_map.mp hp
    exact (hinv.wf x hx).asc
  constructor
  · intro d
    unfold tot
    rw [posts_set_seek arr i t s hi (hinv.wf s hs).asc]
    refine ⟨unionTotal_modifyAt_le _ hasc i t d, ?_⟩
    intro hne
    obtain ⟨_, _, _, _, _, hlt⟩ := unionTotal_modifyAt_ne _ hasc i t d hne
    exact hlt
  · constructor
    · intro x hx
      rcases mem_of_set hx with rfl | hx
      · exact (hinv.wf s hs).seek t
      · exact hinv.wf x hx
    · intro x hx p hp
      rcases mem_of_set hx with rfl | hx
      · rw [seek_rest s (hinv.wf s hs).asc] at hp
        exact hinv.ge s hs p ((seekP_sublist _ _).subset hp)
      · exact hinv.ge x hx p hp

/-! ### permutations and removal of exhausted scorers -/

theorem restoreOrdering_perm (arr : List S) (ord : Nat) : restoreOrdering arr ord ~ arr := by
  unfold restoreOrdering
  cases hx : arr[ord]? with
  | none => exact Perm.refl _
  | some x =>
    simp only
    have hlen : ord < arr.length := by
      rcases Nat.lt_or_ge ord arr.length with h | h
      · exact h
      · rw [getElem?_eq_none h] at hx; cases hx
    have hsplit : arr = arr.take ord ++ x :: arr.drop (ord + 1) := by
      conv => lhs; rw [← take_append_drop ord arr]
      congr 1
      rw [drop_eq_getElem_cons hlen]
      congr 1
      rw [getElem?_eq_getElem hlen] at hx
      exact Option.some.inj hx
    generalize arr.drop (ord + 1) = following at hsplit ⊢
    conv => rhs; rw [hsplit]
    have h1 : following.takeWhile (fun s => decide (s.doc < x.doc)) ++ [x]
        ++ following.dropWhile (fun s => decide (s.doc < x.doc)) ~ x :: following := by
      have : x :: following = x :: (following.takeWhile (fun s => decide (s.doc < x.doc))
          ++ following.dropWhile (fun s => decide (s.doc < x.doc))) := by rw [takeWhile_append_dropWhile]
      rw [this]
      simp only [append_assoc, singleton_append]
      exact perm_middle
    simp only [append_assoc] at h1 ⊢
    exact Perm.append_left _ h1

theorem insertByDoc_perm (x : S) (l : List S) : insertByDoc x l ~ x :: l := by
  induction l with
  | nil => simp [insertByDoc]
  | cons y ys ih =>
    unfold insertByDoc
    split
    · exact Perm.refl _
    · exact (Perm.cons y ih).trans (Perm.swap x y ys)

theorem sortByDoc_perm (l : List S) : sortByDoc l ~ l := by
  induction l with
  | nil => simp [sortByDoc]
  | cons x xs ih =>
    have : sortByDoc (x :: xs) = insertByDoc x (sortByDoc xs) := rfl
    rw [this]
    exact (insertByDoc_perm x _).trans (Perm.cons x ih)

theorem scoreIn_nil (d : Nat) : scoreIn [] d = 0 := rfl

/-- removing a scorer without postings does not change the totals -/
theorem swapRemove_tot (arr : List S) (i : Nat) (s : S) (hi : arr[i]? = some s) (hnil : s.rest = []) (d : Nat) :
    tot (swapRemove arr i) d = tot arr d := by
  have hlen : i < arr.length := by
    rcases Nat.lt_or_ge i arr.length with h | h
    · exact h
    · rw [getElem?_eq_none h] at hi; cases hi
  have hne : arr ≠ [] := by intro h; rw [h] at hlen; simp at hlen
  unfold swapRemove
  rw [getLast?_eq_some_getLast hne]
  simp only
  have hsplit : arr = arr.take i ++ s :: arr.drop (i + 1) := by
    conv => lhs; rw [← take_append_drop i arr]
    congr 1
    rw [drop_eq_getElem_cons hlen]
    congr 1
    rw [getElem?_eq_getElem hlen] at hi
    exact Option.some.inj hi
  have hs0 : scoreIn s.rest d = 0 := by rw [hnil]; rfl
  split
  · rename_i hlt
    -- the part behind `s` is non-empty and ends with the last element of the array
    have hdne : arr.drop (i + 1) ≠ [] := by
      intro h
      have := congrArg length h
      simp at this; omega
    have hlast : (arr.drop (i + 1)).getLast hdne = arr.getLast hne := by
      rw [getLast_drop]
    have hd : arr.drop (i + 1) = (arr.drop (i + 1)).dropLast ++ [arr.getLast hne] := by
      rw [← hlast]; exact (dropLast_concat_getLast hdne).symm
    conv => rhs; rw [hsplit, hd]
    simp only [tot_append, tot_cons, hs0]
    simp [tot, posts, unionTotal]
    omega
  · rename_i hge
    -- `s` is the last element
    have hi' : i + 1 = arr.length := by omega
    have hd0 : arr.drop (i + 1) = [] := by rw [drop_eq_nil_iff]; omega
    have harr : arr = arr.take i ++ [s] := by rw [hd0] at hsplit; exact hsplit
    have : arr.dropLast = arr.take i := by
      conv => lhs; rw [harr]
      simp
    rw [this]
    conv => rhs; rw [harr]
    simp only [tot_append, tot_cons, hs0]
    simp [tot, posts, unionTotal]

theorem mem_swapRemove {arr : List S} {i : Nat} {x : S} (h : x ∈ swapRemove arr i) : x ∈ arr := by
  unfold swapRemove at h
  cases hl : arr.getLast? with
  | none => rw [hl] at h; exact h
  | some last =>
    rw [hl] at h
    simp only at h
    split at h
    · rcases mem_append.mp h with h | h
      · exact mem_of_mem_take h
      · rcases mem_cons.mp h with rfl | h
        · exact mem_of_getLast? hl
        · exact mem_of_mem_drop ((dropLast_sublist _).subset h)
    · exact (dropLast_sublist _).subset h

end TantivyModel.BlockWand
