import TantivyModel.Model.Footer
import TantivyModel.Proofs.Crc32
namespace TantivyModel.Footer
open TantivyModel

theorem u32le_length (n : Nat) : (u32le n).length = 4 := rfl

theorem readU32le_u32le (n : Nat) (h : n < 4294967296) (rest : Bytes) :
    readU32le (u32le n ++ rest) = n := by
  simp only [u32le, readU32le, List.cons_append, List.nil_append, UInt8.toNat_ofNat']
  omega

theorem footerBytesOfPayload_length (p : Bytes) :
    (footerBytesOfPayload p).length = p.length + 8 := by
  simp [footerBytesOfPayload, u32le_length]

/-- extraction of a well-formed file, for an arbitrary payload -/
theorem extract_payload (C : PayloadCodec) (body p : Bytes) (f : Footer)
    (hlen : p.length ≤ Gen.FOOTER_MAX_LEN) (hdec : C.dec p = some f) :
    extract C (body ++ footerBytesOfPayload p) = .ok (f, body) := by
  have hmax : Gen.FOOTER_MAX_LEN = 50000 := rfl
  have hmagic : Gen.FOOTER_MAGIC_NUMBER = 1337 := rfl
  have hmin : Gen.FOOTER_MIN_FILE_LEN = 8 := rfl
  have hn : (body ++ footerBytesOfPayload p).length = body.length + p.length + 8 := by
    simp [footerBytesOfPayload_length]; omega
  have htail : (body ++ footerBytesOfPayload p).drop (body.length + p.length + 8 - 8)
      = u32le p.length ++ u32le Gen.FOOTER_MAGIC_NUMBER := by
    have : body ++ footerBytesOfPayload p
        = (body ++ p) ++ (u32le p.length ++ u32le Gen.FOOTER_MAGIC_NUMBER) := by
      simp [footerBytesOfPayload, List.append_assoc]
    rw [this]
    have hl : body.length + p.length + 8 - 8 = (body ++ p).length := by simp
    rw [hl, List.drop_left]
  have hlenrd : readU32le (u32le p.length ++ u32le Gen.FOOTER_MAGIC_NUMBER) = p.length :=
    readU32le_u32le _ (by omega) _
  have hmagrd : readU32le ((u32le p.length ++ u32le Gen.FOOTER_MAGIC_NUMBER).drop 4)
      = Gen.FOOTER_MAGIC_NUMBER := by
    have : (u32le p.length ++ u32le Gen.FOOTER_MAGIC_NUMBER).drop 4 = u32le Gen.FOOTER_MAGIC_NUMBER ++ [] := by
      simp [u32le]
    rw [this]; exact readU32le_u32le _ (by rw [hmagic]; omega) _
  have hpay : ((body ++ footerBytesOfPayload p).drop (body.length + p.length + 8 - (p.length + 8))).take p.length = p := by
    have : body.length + p.length + 8 - (p.length + 8) = body.length := by omega
    rw [this, List.drop_left]
    simp [footerBytesOfPayload, List.append_assoc, List.take_left']
  have hbody : (body ++ footerBytesOfPayload p).take (body.length + p.length + 8 - (p.length + 8)) = body := by
    have : body.length + p.length + 8 - (p.length + 8) = body.length := by omega
    rw [this, List.take_left']
    rfl
  unfold extract
  simp only [hn, htail, hlenrd, hmagrd, hpay, hbody, hdec]
  simp only [hmin, hmax, ne_eq, not_true_eq_false, if_false]
  rw [if_neg (by omega), if_neg (by omega), if_neg (by omega)]

/-- converse: whatever `extract` accepts has the file shape -/
theorem extract_shape (C : PayloadCodec) (file : Bytes) (f : Footer) (body : Bytes)
    (h : extract C file = .ok (f, body)) :
    ∃ p rest, file = body ++ p ++ rest ∧ rest.length = 8 ∧ C.dec p = some f
      ∧ p.length ≤ Gen.FOOTER_MAX_LEN := by
  unfold extract at h
  simp only at h
  split at h
  · cases h
  · split at h
    · cases h
    · split at h
      · cases h
      · split at h
        · cases h
        · rename_i h1 h2 h3 h4
          split at h
          · cases h
          · rename_i f' hd
            injection h with h
            injection h with hf hb
            subst hf
            let L := readU32le (List.drop (file.length - 8) file)
            refine ⟨(file.drop (file.length - (L + 8))).take L,
                    file.drop (file.length - 8), ?_, ?_, hd, ?_⟩
            · have h4' : L + 8 ≤ file.length := by simpa [L] using Nat.not_lt.mp h4
              rw [← hb]
              show file = List.take (file.length - (L + 8)) file
                ++ List.take L (List.drop (file.length - (L + 8)) file) ++ List.drop (file.length - 8) file
              have e1 : file.length - 8 = (file.length - (L + 8)) + L := by omega
              rw [e1, ← List.drop_drop, List.append_assoc, List.take_append_drop, List.take_append_drop]
            · simp only [List.length_drop]
              have : Gen.FOOTER_MIN_FILE_LEN = 8 := rfl
              omega
            · have : L ≤ Gen.FOOTER_MAX_LEN := Nat.not_lt.mp h3
              simp only [List.length_take, List.length_drop]
              omega

end TantivyModel.Footer

namespace TantivyModel.Footer
open TantivyModel

theorem u8_ofNat_toNat_mod (a : UInt8) (k : Nat) (h : k % 256 = a.toNat) : UInt8.ofNat k = a := by
  apply UInt8.toNat_inj.mp
  simp [UInt8.toNat_ofNat', h]

/-- an 8-byte trailer is determined by the two little-endian words read from it -/
theorem trailer_eq (rest : Bytes) (h8 : rest.length = 8) :
    rest = u32le (readU32le rest) ++ u32le (readU32le (rest.drop 4)) := by
  match rest, h8 with
  | [a, b, c, d, e, f, g, h], _ =>
    have ha := a.toNat_lt; have hb := b.toNat_lt; have hc := c.toNat_lt; have hd := d.toNat_lt
    have he := e.toNat_lt; have hf := f.toNat_lt; have hg := g.toNat_lt; have hh := h.toNat_lt
    simp only [readU32le, u32le, List.drop, List.cons_append, List.nil_append]
    congr 1
    · exact (u8_ofNat_toNat_mod _ _ (by omega)).symm
    congr 1
    · exact (u8_ofNat_toNat_mod _ _ (by omega)).symm
    congr 1
    · exact (u8_ofNat_toNat_mod _ _ (by omega)).symm
    congr 1
    · exact (u8_ofNat_toNat_mod _ _ (by omega)).symm
    congr 1
    · exact (u8_ofNat_toNat_mod _ _ (by omega)).symm
    congr 1
    · exact (u8_ofNat_toNat_mod _ _ (by omega)).symm
    congr 1
    · exact (u8_ofNat_toNat_mod _ _ (by omega)).symm
    congr 1
    · exact (u8_ofNat_toNat_mod _ _ (by omega)).symm

end TantivyModel.Footer

namespace TantivyModel.Footer
open TantivyModel

/-- whatever `extract` accepts is literally `body ++ payload ++ u32le |payload| ++ u32le MAGIC` -/
theorem extract_shape' (C : PayloadCodec) (file : Bytes) (f : Footer) (body : Bytes)
    (h : extract C file = .ok (f, body)) :
    ∃ p, file = body ++ footerBytesOfPayload p ∧ C.dec p = some f
      ∧ p.length ≤ Gen.FOOTER_MAX_LEN := by
  unfold extract at h
  simp only at h
  split at h
  · cases h
  · split at h
    · cases h
    · split at h
      · cases h
      · split at h
        · cases h
        · rename_i h1 h2 h3 h4
          split at h
          · cases h
          · rename_i f' hd
            injection h with h
            injection h with hf hb
            subst hf
            have hmin : Gen.FOOTER_MIN_FILE_LEN = 8 := rfl
            have hrl : (file.drop (file.length - 8)).length = 8 := by
              simp only [List.length_drop]; omega
            have htr := trailer_eq _ hrl
            have hmag : readU32le (List.drop 4 (List.drop (file.length - 8) file)) = Gen.FOOTER_MAGIC_NUMBER := by
              simpa using h2
            generalize hL : readU32le (List.drop (file.length - 8) file) = L at *
            rw [hmag] at htr
            have h4' : L + 8 ≤ file.length := Nat.not_lt.mp h4
            have hpl : ((file.drop (file.length - (L + 8))).take L).length = L := by
              simp only [List.length_take, List.length_drop]; omega
            refine ⟨(file.drop (file.length - (L + 8))).take L, ?_, hd, ?_⟩
            · rw [← hb]
              unfold footerBytesOfPayload
              rw [hpl]
              have e1 : file.length - 8 = (file.length - (L + 8)) + L := by omega
              have : u32le L ++ u32le Gen.FOOTER_MAGIC_NUMBER = List.drop (file.length - 8) file := htr.symm
              rw [List.append_assoc (List.take L _), this, e1, ← List.drop_drop,
                List.take_append_drop, List.take_append_drop]
            · rw [hpl]; exact Nat.not_lt.mp h3

end TantivyModel.Footer
