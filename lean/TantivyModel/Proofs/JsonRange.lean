import TantivyModel.Model.JsonRange
/-
The bound conversion of `search_on_json_numerical_field` is exact for every integer bound type ×
integer column type × bound kind, except for the u64-lower-bound-above-i64::MAX on an i64 column.
-/
set_option linter.unusedSimpArgs false
set_option linter.unusedVariables false
namespace TantivyModel.JsonRange
open TantivyModel.QuerySem

theorem toInt_i (v : Int) : (BV.i v).toInt = v := rfl
theorem toInt_u (v : Nat) : (BV.u v).toInt = (v : Int) := rfl
theorem enc_i64 (v : Int) : enc .i64 v = (v + 2 ^ 63).toNat := rfl
theorem enc_u64 (v : Int) : enc .u64 v = v.toNat := rfl

/-- Bool equation between `decide`s → arithmetic -/
macro "fin_bool" : tactic =>
  `(tactic| (rw [Bool.eq_iff_iff]
             try simp only [decide_eq_true_eq, true_iff, iff_true, eq_self_iff_true]
             try simp only [enc_i64, enc_u64, encI, toInt_i, toInt_u]
             omega))

theorem pow63 : (2 : Int) ^ 63 = 9223372036854775808 := by decide
theorem pow64 : (2 : Nat) ^ 64 = 18446744073709551616 := by decide

/-- how a coerced lower bound reads on an encoded value -/
def lowerHolds (b : BndN) (x : Nat) : Bool :=
  match b with
  | .incl n => decide (n ≤ x)
  | .excl n => decide (n < x)
  | .unb => true

def upperHolds (b : BndN) (x : Nat) : Bool :=
  match b with
  | .incl n => decide (x ≤ n)
  | .excl n => decide (x < n)
  | .unb => true

def lowerSpec (b : B) (v : Int) : Bool :=
  match b with
  | .incl x => decide (x.toInt ≤ v)
  | .excl x => decide (x.toInt < v)
  | .unb => true

def upperSpec (b : B) (v : Int) : Bool :=
  match b with
  | .incl x => decide (v ≤ x.toInt)
  | .excl x => decide (v < x.toInt)
  | .unb => true

theorem inRangeN_eq (lo hi : BndN) (x : Nat) : inRangeN lo hi x = (lowerHolds lo x && upperHolds hi x) := by
  cases lo <;> cases hi <;> rfl

theorem specMatch_eq (lo hi : B) (v : Int) : specMatch lo hi v = (lowerSpec lo v && upperSpec hi v) := by
  cases lo <;> cases hi <;> rfl

/-- i64 bound on an i64 column -/
theorem lower_ii (w v : Int) (hw : -(2 ^ 63) ≤ w ∧ w ≤ I64MAX) (hv : -(2 ^ 63) ≤ v ∧ v ≤ I64MAX) :
    (encI w ≤ encI v ↔ w ≤ v) ∧ (encI w < encI v ↔ w < v) := by
  have p := pow63
  unfold encI I64MAX at *
  constructor <;> omega

theorem lower_exact (col : ColT) (b : B) (v : Int) (hv : inCol col v) (hb : b.wf)
    (hok : lowerOk col b = true) :
    lowerHolds (applyT (lowerT col) b) (enc col v) = lowerSpec b v := by
  have p63 := pow63
  have p64 := pow64
  cases b with
  | unb => rfl
  | incl x =>
    cases x with
    | i w =>
      cases col
      · have h := lower_ii w v hb hv
        simp only [applyT, lowerT, lowerHolds, lowerSpec]
        show decide (encI w ≤ encI v) = decide (w ≤ v)
        rw [Bool.eq_iff_iff, decide_eq_true_eq, decide_eq_true_eq]; exact h.1
      · simp only [inCol, B.wf, BV.wf, I64MAX] at hv hb
        by_cases hneg : w < 0
        · simp only [applyT, lowerT, hneg, if_true, lowerHolds, lowerSpec]
          fin_bool
        · simp only [applyT, lowerT, hneg, if_false, lowerHolds, lowerSpec]
          fin_bool
    | u w =>
      cases col
      · have hle : ¬ (I64MAX < (w : Int)) := by simpa [lowerOk] using hok
        simp only [inCol, B.wf, BV.wf] at hv hb
        simp only [applyT, lowerT, hle, if_false, lowerHolds, lowerSpec]
        unfold I64MAX at hle hv
        fin_bool
      · simp only [inCol, B.wf, BV.wf] at hv hb
        simp only [applyT, lowerT, lowerHolds, lowerSpec]
        fin_bool
  | excl x =>
    cases x with
    | i w =>
      cases col
      · have h := lower_ii w v hb hv
        simp only [applyT, lowerT, lowerHolds, lowerSpec]
        show decide (encI w < encI v) = decide (w < v)
        rw [Bool.eq_iff_iff, decide_eq_true_eq, decide_eq_true_eq]; exact h.2
      · simp only [inCol, B.wf, BV.wf, I64MAX] at hv hb
        by_cases hneg : w < 0
        · simp only [applyT, lowerT, hneg, if_true, lowerHolds, lowerSpec]
          fin_bool
        · simp only [applyT, lowerT, hneg, if_false, lowerHolds, lowerSpec]
          fin_bool
    | u w =>
      cases col
      · have hle : ¬ (I64MAX < (w : Int)) := by simpa [lowerOk] using hok
        simp only [inCol, B.wf, BV.wf] at hv hb
        simp only [applyT, lowerT, hle, if_false, lowerHolds, lowerSpec]
        unfold I64MAX at hle hv
        fin_bool
      · simp only [inCol, B.wf, BV.wf] at hv hb
        simp only [applyT, lowerT, lowerHolds, lowerSpec]
        fin_bool

theorem upper_exact (col : ColT) (b : B) (v : Int) (hv : inCol col v) (hb : b.wf) :
    upperHolds (applyT (upperT col) b) (enc col v) = upperSpec b v := by
  have p63 := pow63
  have p64 := pow64
  cases b with
  | unb => rfl
  | incl x =>
    cases x with
    | i w =>
      cases col
      · have h := lower_ii v w hv hb
        show decide (encI v ≤ encI w) = decide (v ≤ w)
        rw [Bool.eq_iff_iff, decide_eq_true_eq, decide_eq_true_eq]; exact h.1
      · simp only [inCol, B.wf, BV.wf, I64MAX] at hv hb
        by_cases hneg : w < 0
        · simp only [applyT, upperT, hneg, if_true, upperHolds, upperSpec]
          fin_bool
        · simp only [applyT, upperT, hneg, if_false, upperHolds, upperSpec]
          fin_bool
    | u w =>
      cases col
      · simp only [inCol, B.wf, BV.wf] at hv hb
        unfold I64MAX at hv
        by_cases hbig : I64MAX < (w : Int)
        · simp only [applyT, upperT, hbig, if_true, upperHolds, upperSpec]
          unfold I64MAX at hbig
          fin_bool
        · simp only [applyT, upperT, hbig, if_false, upperHolds, upperSpec]
          unfold I64MAX at hbig
          fin_bool
      · simp only [inCol, B.wf, BV.wf] at hv hb
        simp only [applyT, upperT, upperHolds, upperSpec]
        fin_bool
  | excl x =>
    cases x with
    | i w =>
      cases col
      · have h := lower_ii v w hv hb
        show decide (encI v < encI w) = decide (v < w)
        rw [Bool.eq_iff_iff, decide_eq_true_eq, decide_eq_true_eq]; exact h.2
      · simp only [inCol, B.wf, BV.wf, I64MAX] at hv hb
        by_cases hneg : w < 0
        · simp only [applyT, upperT, hneg, if_true, upperHolds, upperSpec]
          fin_bool
        · simp only [applyT, upperT, hneg, if_false, upperHolds, upperSpec]
          fin_bool
    | u w =>
      cases col
      · simp only [inCol, B.wf, BV.wf] at hv hb
        unfold I64MAX at hv
        by_cases hbig : I64MAX < (w : Int)
        · simp only [applyT, upperT, hbig, if_true, upperHolds, upperSpec]
          unfold I64MAX at hbig
          fin_bool
        · simp only [applyT, upperT, hbig, if_false, upperHolds, upperSpec]
          unfold I64MAX at hbig
          fin_bool
      · simp only [inCol, B.wf, BV.wf] at hv hb
        simp only [applyT, upperT, upperHolds, upperSpec]
        fin_bool

end TantivyModel.JsonRange
