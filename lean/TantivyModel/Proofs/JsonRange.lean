import TantivyModel.Model.JsonRange
/-
The bound conversion of `search_on_json_numerical_field` is exact for every bound type
(i64 / u64 / f64 term) × integer column type (i64 / u64) × bound kind, except for the
combinations singled out by `lowerOk` / `upperOk`.
-/
set_option linter.unusedSimpArgs false
set_option linter.unusedVariables false
namespace TantivyModel.JsonRange
open TantivyModel.QuerySem

theorem twice_i (v : Int) : (BV.i v).twice = 2 * v := rfl
theorem twice_u (v : Nat) : (BV.u v).twice = 2 * (v : Int) := rfl
theorem twice_f (h : Int) : (BV.f h).twice = h := rfl
theorem enc_i64 (v : Int) : enc .i64 v = (v + 2 ^ 63).toNat := rfl
theorem enc_u64 (v : Int) : enc .u64 v = v.toNat := rfl

/-- Bool equation between `decide`s → arithmetic -/
macro "fin_bool" : tactic =>
  `(tactic| (rw [Bool.eq_iff_iff]
             try simp only [decide_eq_true_eq, true_iff, iff_true, eq_self_iff_true]
             try simp only [enc_i64, enc_u64, encI, twice_i, twice_u, twice_f, truncHalf]
             try split
             all_goals omega))

theorem pow63 : (2 : Int) ^ 63 = 9223372036854775808 := by decide
theorem pow64 : (2 : Nat) ^ 64 = 18446744073709551616 := by decide
theorem pow53 : (2 : Int) ^ 53 = 9007199254740992 := by decide

/-- how a coerced lower bound reads on an encoded value -/
def lowerHolds (b : BndN) (x : Nat) : Bool :=
  match b with
  | .incl n => decide (n ≤ x)
  | .excl n => decide (n < x)
  | .unb => true

def upperHolds (b : BndN) (x : Nat) : Bool :=
  match b with
  | .incl n => decide (x ≤ n)
  | .excl n => decide (x < n)
  | .unb => true

def lowerSpec (b : B) (v : Int) : Bool :=
  match b with
  | .incl x => decide (x.twice ≤ 2 * v)
  | .excl x => decide (x.twice < 2 * v)
  | .unb => true

def upperSpec (b : B) (v : Int) : Bool :=
  match b with
  | .incl x => decide (2 * v ≤ x.twice)
  | .excl x => decide (2 * v < x.twice)
  | .unb => true

theorem inRangeN_eq (lo hi : BndN) (x : Nat) : inRangeN lo hi x = (lowerHolds lo x && upperHolds hi x) := by
  cases lo <;> cases hi <;> rfl

theorem specMatch_eq (lo hi : B) (v : Int) : specMatch lo hi v = (lowerSpec lo v && upperSpec hi v) := by
  cases lo <;> cases hi <;> rfl

/-- i64-typed lower bound -/
theorem lower_i (col : ColT) (incl : Bool) (w v : Int) (hv : inCol col v)
    (hw : -(2 ^ 63) ≤ w ∧ w ≤ I64MAX) :
    lowerHolds (applyT (lowerT col) (if incl then .incl (.i w) else .excl (.i w))) (enc col v)
      = lowerSpec (if incl then .incl (.i w) else .excl (.i w)) v := by
  have p63 := pow63
  have p64 := pow64
  unfold I64MAX at hw
  cases col
  · simp only [inCol, I64MAX] at hv
    cases incl <;> simp only [applyT, lowerT, lowerHolds, lowerSpec, if_true, if_false, Bool.false_eq_true] <;> fin_bool
  · simp only [inCol] at hv
    by_cases hneg : w < 0
    · cases incl <;> simp only [applyT, lowerT, hneg, if_true, if_false, Bool.false_eq_true, lowerHolds, lowerSpec] <;> fin_bool
    · cases incl <;> simp only [applyT, lowerT, hneg, if_true, if_false, Bool.false_eq_true, lowerHolds, lowerSpec] <;> fin_bool

/-- u64-typed lower bound (not above i64::MAX on an i64 column) -/
theorem lower_u (col : ColT) (incl : Bool) (w : Nat) (v : Int) (hv : inCol col v) (hw : w < 2 ^ 64)
    (hok : ¬ (col = .i64 ∧ I64MAX < (w : Int))) :
    lowerHolds (applyT (lowerT col) (if incl then .incl (.u w) else .excl (.u w))) (enc col v)
      = lowerSpec (if incl then .incl (.u w) else .excl (.u w)) v := by
  have p63 := pow63
  have p64 := pow64
  cases col
  · have hle : ¬ (I64MAX < (w : Int)) := fun h => hok ⟨rfl, h⟩
    simp only [inCol, I64MAX] at hv
    cases incl <;> simp only [applyT, lowerT, hle, if_true, if_false, Bool.false_eq_true, lowerHolds, lowerSpec] <;>
      (unfold I64MAX at hle; fin_bool)
  · simp only [inCol] at hv
    cases incl <;> simp only [applyT, lowerT, if_true, if_false, Bool.false_eq_true, lowerHolds, lowerSpec] <;> fin_bool

theorem upper_i (col : ColT) (incl : Bool) (w v : Int) (hv : inCol col v)
    (hw : -(2 ^ 63) ≤ w ∧ w ≤ I64MAX) :
    upperHolds (applyT (upperT col) (if incl then .incl (.i w) else .excl (.i w))) (enc col v)
      = upperSpec (if incl then .incl (.i w) else .excl (.i w)) v := by
  have p63 := pow63
  have p64 := pow64
  unfold I64MAX at hw
  cases col
  · simp only [inCol, I64MAX] at hv
    cases incl <;> simp only [applyT, upperT, upperHolds, upperSpec, if_true, if_false, Bool.false_eq_true] <;> fin_bool
  · simp only [inCol] at hv
    by_cases hneg : w < 0
    · cases incl <;> simp only [applyT, upperT, hneg, if_true, if_false, Bool.false_eq_true, upperHolds, upperSpec] <;> fin_bool
    · cases incl <;> simp only [applyT, upperT, hneg, if_true, if_false, Bool.false_eq_true, upperHolds, upperSpec] <;> fin_bool

theorem upper_u (col : ColT) (incl : Bool) (w : Nat) (v : Int) (hv : inCol col v) (hw : w < 2 ^ 64) :
    upperHolds (applyT (upperT col) (if incl then .incl (.u w) else .excl (.u w))) (enc col v)
      = upperSpec (if incl then .incl (.u w) else .excl (.u w)) v := by
  have p63 := pow63
  have p64 := pow64
  cases col
  · simp only [inCol, I64MAX] at hv
    by_cases hbig : I64MAX < (w : Int)
    · cases incl <;> simp only [applyT, upperT, hbig, if_true, if_false, Bool.false_eq_true, upperHolds, upperSpec] <;>
        (unfold I64MAX at hbig; fin_bool)
    · cases incl <;> simp only [applyT, upperT, hbig, if_true, if_false, Bool.false_eq_true, upperHolds, upperSpec] <;>
        (unfold I64MAX at hbig; fin_bool)
  · simp only [inCol] at hv
    cases incl <;> simp only [applyT, upperT, if_true, if_false, Bool.false_eq_true, upperHolds, upperSpec] <;> fin_bool

/-- an f64-typed bound value h/2, lower end: exact unless it is positive and fractional -/
theorem lower_f64 (col : ColT) (incl : Bool) (h v : Int) (hv : inCol col v)
    (hh : -(2 ^ 53) < h ∧ h < 2 ^ 53) (hok : ¬ (0 < h ∧ h % 2 ≠ 0)) :
    lowerHolds (applyT (lowerT col) (if incl then .incl (.f h) else .excl (.f h))) (enc col v)
      = lowerSpec (if incl then .incl (.f h) else .excl (.f h)) v := by
  have p63 := pow63
  have p64 := pow64
  have p53 := pow53
  cases col
  · simp only [inCol, I64MAX] at hv
    have hc : ((ColT.i64 == ColT.u64) && decide (h < 0)) = false := by
      have : (ColT.i64 == ColT.u64) = false := by decide
      simp [this]
    by_cases hev : h % 2 = 0
    · cases incl <;> simp only [applyT, lowerT, hc, hev, if_true, if_false, Bool.false_eq_true, lowerHolds, lowerSpec] <;> fin_bool
    · cases incl <;> simp only [applyT, lowerT, hc, hev, if_true, if_false, Bool.false_eq_true, lowerHolds, lowerSpec] <;> fin_bool
  · simp only [inCol] at hv
    have hu : (ColT.u64 == ColT.u64) = true := by decide
    by_cases hneg : h < 0
    · have hc : ((ColT.u64 == ColT.u64) && decide (h < 0)) = true := by simp [hu, hneg]
      cases incl <;> simp only [applyT, lowerT, hc, if_true, if_false, Bool.false_eq_true, lowerHolds, lowerSpec] <;> fin_bool
    · have hc : ((ColT.u64 == ColT.u64) && decide (h < 0)) = false := by simp [hu, hneg]
      by_cases hev : h % 2 = 0
      · cases incl <;> simp only [applyT, lowerT, hc, hev, if_true, if_false, Bool.false_eq_true, lowerHolds, lowerSpec] <;> fin_bool
      · cases incl <;> simp only [applyT, lowerT, hc, hev, if_true, if_false, Bool.false_eq_true, lowerHolds, lowerSpec] <;> fin_bool

/-- an f64-typed bound value h/2, upper end: exact unless it lies below the minimum of a u64
column or is negative and fractional -/
theorem upper_f64 (col : ColT) (incl : Bool) (h v : Int) (hv : inCol col v)
    (hh : -(2 ^ 53) < h ∧ h < 2 ^ 53) (hok1 : ¬ (col = .u64 ∧ h < 0)) (hok2 : ¬ (h < 0 ∧ h % 2 ≠ 0)) :
    upperHolds (applyT (upperT col) (if incl then .incl (.f h) else .excl (.f h))) (enc col v)
      = upperSpec (if incl then .incl (.f h) else .excl (.f h)) v := by
  have p63 := pow63
  have p64 := pow64
  have p53 := pow53
  cases col
  · simp only [inCol, I64MAX] at hv
    have hc : ((ColT.i64 == ColT.u64) && decide (h < 0)) = false := by
      have : (ColT.i64 == ColT.u64) = false := by decide
      simp [this]
    by_cases hev : h % 2 = 0
    · cases incl <;> simp only [applyT, upperT, hc, hev, if_true, if_false, Bool.false_eq_true, upperHolds, upperSpec] <;> fin_bool
    · cases incl <;> simp only [applyT, upperT, hc, hev, if_true, if_false, Bool.false_eq_true, upperHolds, upperSpec] <;> fin_bool
  · simp only [inCol] at hv
    have hu : (ColT.u64 == ColT.u64) = true := by decide
    have hneg : ¬ h < 0 := fun hn => hok1 ⟨rfl, hn⟩
    have hc : ((ColT.u64 == ColT.u64) && decide (h < 0)) = false := by simp [hu, hneg]
    by_cases hev : h % 2 = 0
    · cases incl <;> simp only [applyT, upperT, hc, hev, if_true, if_false, Bool.false_eq_true, upperHolds, upperSpec] <;> fin_bool
    · cases incl <;> simp only [applyT, upperT, hc, hev, if_true, if_false, Bool.false_eq_true, upperHolds, upperSpec] <;> fin_bool

theorem lower_exact (col : ColT) (b : B) (v : Int) (hv : inCol col v) (hb : b.wf)
    (hok : lowerOk col b = true) :
    lowerHolds (applyT (lowerT col) b) (enc col v) = lowerSpec b v := by
  cases b with
  | unb => rfl
  | incl x =>
    cases x with
    | f h =>
      have hok' : ¬ (0 < h ∧ h % 2 ≠ 0) := by
        simp [lowerOk] at hok
        omega
      exact lower_f64 col true h v hv hb hok'
    | i w => exact lower_i col true w v hv hb
    | u w =>
      have hok' : ¬ (col = .i64 ∧ I64MAX < (w : Int)) := by
        cases col
        · simpa [lowerOk] using hok
        · intro hc; cases hc.1
      exact lower_u col true w v hv hb hok'
  | excl x =>
    cases x with
    | f h =>
      have hok' : ¬ (0 < h ∧ h % 2 ≠ 0) := by
        simp [lowerOk] at hok
        omega
      exact lower_f64 col false h v hv hb hok'
    | i w => exact lower_i col false w v hv hb
    | u w =>
      have hok' : ¬ (col = .i64 ∧ I64MAX < (w : Int)) := by
        cases col
        · simpa [lowerOk] using hok
        · intro hc; cases hc.1
      exact lower_u col false w v hv hb hok'

theorem upper_exact (col : ColT) (b : B) (v : Int) (hv : inCol col v) (hb : b.wf)
    (hok : upperOk col b = true) :
    upperHolds (applyT (upperT col) b) (enc col v) = upperSpec b v := by
  cases b with
  | unb => rfl
  | incl x =>
    cases x with
    | f h =>
      have hok' : ¬ (col = .u64 ∧ h < 0) ∧ ¬ (h < 0 ∧ h % 2 ≠ 0) := by
        constructor
        · cases col
          · intro hc; cases hc.1
          · simp [upperOk] at hok; omega
        · cases col <;> simp [upperOk] at hok <;> omega
      exact upper_f64 col true h v hv hb hok'.1 hok'.2
    | i w => exact upper_i col true w v hv hb
    | u w => exact upper_u col true w v hv hb
  | excl x =>
    cases x with
    | f h =>
      have hok' : ¬ (col = .u64 ∧ h < 0) ∧ ¬ (h < 0 ∧ h % 2 ≠ 0) := by
        constructor
        · cases col
          · intro hc; cases hc.1
          · simp [upperOk] at hok; omega
        · cases col <;> simp [upperOk] at hok <;> omega
      exact upper_f64 col false h v hv hb hok'.1 hok'.2
    | i w => exact upper_i col false w v hv hb
    | u w => exact upper_u col false w v hv hb

/-! ### the guarded table -/

theorem lowerTG_pinned (col : ColT) (x : BV) : lowerTG Guards.pinned col x = lowerT col x := by
  cases x <;> cases col <;> simp [lowerTG, lowerT, Guards.pinned]

theorem upperTG_pinned (col : ColT) (x : BV) : upperTG Guards.pinned col x = upperT col x := by
  cases x <;> cases col <;> simp [upperTG, upperT, Guards.pinned]

theorem implMatchG_pinned (col : ColT) (lo hi : B) (v : Int) :
    implMatchG Guards.pinned col lo hi v = implMatch col lo hi v := by
  have e1 : lowerTG Guards.pinned col = lowerT col := funext (lowerTG_pinned col)
  have e2 : upperTG Guards.pinned col = upperT col := funext (upperTG_pinned col)
  unfold implMatchG implMatch coerce
  rw [e1, e2]

/-- repaired table, lower end: exact for every bound -/
theorem lower_exact_repaired (col : ColT) (b : B) (v : Int) (hv : inCol col v) (hb : b.wf) :
    lowerHolds (applyT (lowerTG Guards.repaired col) b) (enc col v) = lowerSpec b v := by
  have p63 := pow63
  have p64 := pow64
  have p53 := pow53
  have hfix : ∀ (incl : Bool) (x : BV), x.wf →
      lowerHolds (applyT (lowerTG Guards.repaired col) (if incl then .incl x else .excl x)) (enc col v)
        = lowerSpec (if incl then .incl x else .excl x) v := by
    intro incl x hx
    cases x with
    | i w =>
      have := lower_i col incl w v hv hx
      cases incl <;> simpa [applyT, lowerTG] using this
    | u w =>
      by_cases hbig : col = .i64 ∧ I64MAX < (w : Int)
      · obtain ⟨hc, hw⟩ := hbig
        subst hc
        simp only [inCol, I64MAX] at hv
        simp only [BV.wf] at hx
        cases incl <;>
          simp only [applyT, lowerTG, hw, Guards.repaired, if_true, if_false, Bool.false_eq_true, lowerHolds, lowerSpec] <;>
          (unfold I64MAX at hw ⊢; fin_bool)
      · have := lower_u col incl w v hv hx hbig
        have hl : lowerTG Guards.repaired col (.u w) = lowerT col (.u w) := by
          cases col
          · have hle : ¬ (I64MAX < (w : Int)) := fun h => hbig ⟨rfl, h⟩
            simp [lowerTG, lowerT, hle]
          · rfl
        cases incl <;> simpa [applyT, hl] using this
    | f h =>
      simp only [BV.wf] at hx
      cases col
      · simp only [inCol, I64MAX] at hv
        have hc : ((ColT.i64 == ColT.u64) && decide (h < 0)) = false := by
          have : (ColT.i64 == ColT.u64) = false := by decide
          simp [this]
        by_cases hev : h % 2 = 0
        · cases incl <;> simp only [applyT, lowerTG, Guards.repaired, hc, hev, if_true, if_false, Bool.false_eq_true, lowerHolds, lowerSpec] <;> fin_bool
        · cases incl <;> simp only [applyT, lowerTG, Guards.repaired, hc, hev, if_true, if_false, Bool.false_eq_true, lowerHolds, lowerSpec] <;> fin_bool
      · simp only [inCol] at hv
        have hu : (ColT.u64 == ColT.u64) = true := by decide
        by_cases hneg : h < 0
        · have hc : ((ColT.u64 == ColT.u64) && decide (h < 0)) = true := by simp [hu, hneg]
          cases incl <;> simp only [applyT, lowerTG, hc, if_true, if_false, Bool.false_eq_true, lowerHolds, lowerSpec] <;> fin_bool
        · have hc : ((ColT.u64 == ColT.u64) && decide (h < 0)) = false := by simp [hu, hneg]
          by_cases hev : h % 2 = 0
          · cases incl <;> simp only [applyT, lowerTG, Guards.repaired, hc, hev, if_true, if_false, Bool.false_eq_true, lowerHolds, lowerSpec] <;> fin_bool
          · cases incl <;> simp only [applyT, lowerTG, Guards.repaired, hc, hev, if_true, if_false, Bool.false_eq_true, lowerHolds, lowerSpec] <;> fin_bool
  cases b with
  | unb => rfl
  | incl x => exact hfix true x hb
  | excl x => exact hfix false x hb

/-- repaired table, upper end: exact for every bound -/
theorem upper_exact_repaired (col : ColT) (b : B) (v : Int) (hv : inCol col v) (hb : b.wf) :
    upperHolds (applyT (upperTG Guards.repaired col) b) (enc col v) = upperSpec b v := by
  have p63 := pow63
  have p64 := pow64
  have p53 := pow53
  have hfix : ∀ (incl : Bool) (x : BV), x.wf →
      upperHolds (applyT (upperTG Guards.repaired col) (if incl then .incl x else .excl x)) (enc col v)
        = upperSpec (if incl then .incl x else .excl x) v := by
    intro incl x hx
    cases x with
    | i w =>
      have := upper_i col incl w v hv hx
      cases incl <;> simpa [applyT, upperTG] using this
    | u w =>
      have := upper_u col incl w v hv hx
      cases incl <;> simpa [applyT, upperTG] using this
    | f h =>
      simp only [BV.wf] at hx
      cases col
      · simp only [inCol, I64MAX] at hv
        have hc : ((ColT.i64 == ColT.u64) && decide (h < 0)) = false := by
          have : (ColT.i64 == ColT.u64) = false := by decide
          simp [this]
        by_cases hev : h % 2 = 0
        · cases incl <;> simp only [applyT, upperTG, Guards.repaired, hc, hev, if_true, if_false, Bool.false_eq_true, upperHolds, upperSpec] <;> fin_bool
        · cases incl <;> simp only [applyT, upperTG, Guards.repaired, hc, hev, if_true, if_false, Bool.false_eq_true, upperHolds, upperSpec] <;> fin_bool
      · simp only [inCol] at hv
        have hu : (ColT.u64 == ColT.u64) = true := by decide
        by_cases hneg : h < 0
        · have hc : ((ColT.u64 == ColT.u64) && decide (h < 0)) = true := by simp [hu, hneg]
          cases incl <;> simp only [applyT, upperTG, Guards.repaired, hc, if_true, if_false, Bool.false_eq_true, upperHolds, upperSpec] <;> fin_bool
        · have hc : ((ColT.u64 == ColT.u64) && decide (h < 0)) = false := by simp [hu, hneg]
          by_cases hev : h % 2 = 0
          · cases incl <;> simp only [applyT, upperTG, Guards.repaired, hc, hev, if_true, if_false, Bool.false_eq_true, upperHolds, upperSpec] <;> fin_bool
          · cases incl <;> simp only [applyT, upperTG, Guards.repaired, hc, hev, if_true, if_false, Bool.false_eq_true, upperHolds, upperSpec] <;> fin_bool
  cases b with
  | unb => rfl
  | incl x => exact hfix true x hb
  | excl x => exact hfix false x hb

theorem encF_le (a b : Int) (ha : -(2 ^ 53) < a ∧ a < 2 ^ 53) (hb : -(2 ^ 53) < b ∧ b < 2 ^ 53) :
    (encF a ≤ encF b ↔ a ≤ b) ∧ (encF a < encF b ↔ a < b) := by
  have p53 := pow53
  have p54 : (2 : Int) ^ 54 = 18014398509481984 := by decide
  unfold encF
  rw [p54]
  rw [p53] at ha hb
  constructor <;> omega

theorem f64_column_exact (lo hi : B) (hv : Int) (hs : -(2 ^ 53) < hv ∧ hv < 2 ^ 53)
    (hlo : lo.small) (hhi : hi.small) : implMatchF lo hi hv = specMatchF lo hi hv := by
  unfold implMatchF specMatchF
  rw [inRangeN_eq]
  congr 1
  · cases lo with
    | unb => rfl
    | incl b =>
      have h := encF_le b.twice hv hlo hs
      simp only [coerceF, lowerHolds]
      rw [Bool.eq_iff_iff, decide_eq_true_eq, decide_eq_true_eq]; exact h.1
    | excl b =>
      have h := encF_le b.twice hv hlo hs
      simp only [coerceF, lowerHolds]
      rw [Bool.eq_iff_iff, decide_eq_true_eq, decide_eq_true_eq]; exact h.2
  · cases hi with
    | unb => rfl
    | incl b =>
      have h := encF_le hv b.twice hs hhi
      simp only [coerceF, upperHolds]
      rw [Bool.eq_iff_iff, decide_eq_true_eq, decide_eq_true_eq]; exact h.1
    | excl b =>
      have h := encF_le hv b.twice hs hhi
      simp only [coerceF, upperHolds]
      rw [Bool.eq_iff_iff, decide_eq_true_eq, decide_eq_true_eq]; exact h.2

/-! ### merged column type = write-time type of the union (values supplied as u64) -/

/-- a segment's values with the min / max its column records -/
structure SegVals where
  vals : List Int
  mn : Int
  mx : Int

def SegVals.ok (s : SegVals) : Prop :=
  s.mn ∈ s.vals ∧ s.mx ∈ s.vals ∧ (∀ v ∈ s.vals, s.mn ≤ v ∧ v ≤ s.mx) ∧ (∀ v ∈ s.vals, 0 ≤ v)

def SegVals.src (s : SegVals) : Src := ⟨(colOf true s.vals).lift, s.mn, s.mx⟩

theorem colOf_true_i64_iff (vals : List Int) : colOf true vals = .i64 ↔ ∀ v ∈ vals, v < I64MAX := by
  unfold colOf
  simp only [Bool.not_true, Bool.false_or]
  constructor
  · intro h
    split at h
    · rename_i hall
      intro v hv
      simpa using List.all_eq_true.mp hall v hv
    · cases h
  · intro h
    have : vals.all (fun v => decide (v < I64MAX)) = true := by
      rw [List.all_eq_true]; intro v hv; simpa using h v hv
    simp [this]

theorem mergedCol_u64_supplied (segs : List SegVals) (hok : ∀ s ∈ segs, s.ok) :
    mergedCol (segs.map SegVals.src) = (colOf true (segs.flatMap (·.vals))).lift := by
  have hallU : allU64 (segs.map SegVals.src) = true := by
    unfold allU64
    rw [List.all_eq_true]
    intro x hx
    obtain ⟨s, hs, rfl⟩ := List.mem_map.mp hx
    have h := hok s hs
    have h1 := h.2.2.2 s.mn h.1
    have h2 := h.2.2.2 s.mx h.2.1
    simp only [SegVals.src]
    cases colOf true s.vals <;> simp [ColT.lift, h1, h2]
  have hallI : allI64 (segs.map SegVals.src) = true ↔ ∀ s ∈ segs, colOf true s.vals = .i64 := by
    unfold allI64
    rw [List.all_eq_true]
    constructor
    · intro h s hs
      have hx := h (SegVals.src s) (List.mem_map.mpr ⟨s, hs, rfl⟩)
      simp only [SegVals.src] at hx
      cases hc : colOf true s.vals with
      | i64 => rfl
      | u64 =>
        exfalso
        rw [hc] at hx
        simp only [ColT.lift, Bool.and_eq_true, decide_eq_true_eq] at hx
        have hmx := hx.2
        have hnot : ¬ (∀ v ∈ s.vals, v < I64MAX) := by
          intro hall
          have := (colOf_true_i64_iff s.vals).mpr hall
          rw [hc] at this; cases this
        apply hnot
        intro v hv
        have hle : v ≤ s.mx := ((hok s hs).2.2.1 v hv).2
        exact Int.lt_of_le_of_lt hle (of_decide_eq_true hmx)
    · intro h x hx
      obtain ⟨s, hs, rfl⟩ := List.mem_map.mp hx
      simp [SegVals.src, h s hs, ColT.lift]
  unfold mergedCol
  by_cases hI : ∀ s ∈ segs, colOf true s.vals = .i64
  · have hall : colOf true (segs.flatMap (·.vals)) = .i64 := by
      rw [colOf_true_i64_iff]
      intro v hv
      obtain ⟨s, hs, hvs⟩ := List.mem_flatMap.mp hv
      exact (colOf_true_i64_iff s.vals).mp (hI s hs) v hvs
    rw [if_pos (hallI.mpr hI), hall]; rfl
  · have hall : colOf true (segs.flatMap (·.vals)) = .u64 := by
      cases hc : colOf true (segs.flatMap (·.vals)) with
      | u64 => rfl
      | i64 =>
        exfalso
        apply hI
        intro s hs
        rw [colOf_true_i64_iff]
        intro v hv
        exact (colOf_true_i64_iff _).mp hc v (List.mem_flatMap.mpr ⟨s, hs, hv⟩)
    have hnI : ¬ (allI64 (segs.map SegVals.src) = true) := fun h => hI (hallI.mp h)
    rw [if_neg hnI, if_pos hallU, hall]; rfl

/-! ### merged column type = write-time type of the union (any mix of supplied types) -/

/-- a segment's values (`true`: supplied as u64) with the min / max its column records -/
structure SegMix where
  vals : List (Bool × Int)
  mn : Int
  mx : Int

def SegMix.ok (s : SegMix) : Prop :=
  (∃ b, (b, s.mn) ∈ s.vals) ∧ (∃ b, (b, s.mx) ∈ s.vals) ∧ (∀ p ∈ s.vals, s.mn ≤ p.2 ∧ p.2 ≤ s.mx)
    ∧ (∀ p ∈ s.vals, p.1 = true → 0 ≤ p.2)

def SegMix.src (s : SegMix) : Src := ⟨writtenCol s.vals, s.mn, s.mx⟩

theorem pI_false_elim {vals : List (Bool × Int)} (h : ¬ pI vals = true) :
    ∃ p ∈ vals, p.1 = true ∧ I64MAX ≤ p.2 := by
  apply Classical.byContradiction
  intro hn
  apply h
  unfold pI
  rw [List.all_eq_true]
  intro p hp
  cases hb : p.1 with
  | false => rfl
  | true =>
    simp only [Bool.not_true, Bool.false_or, decide_eq_true_eq]
    apply Int.lt_of_not_ge
    intro hge
    exact hn ⟨p, hp, hb, hge⟩

theorem pU_false_elim {vals : List (Bool × Int)} (h : ¬ pU vals = true) :
    ∃ p ∈ vals, p.1 = false ∧ p.2 < 0 := by
  apply Classical.byContradiction
  intro hn
  apply h
  unfold pU
  rw [List.all_eq_true]
  intro p hp
  cases hb : p.1 with
  | true => rfl
  | false =>
    simp only [Bool.false_or, decide_eq_true_eq]
    apply Int.le_of_not_gt
    intro hlt
    exact hn ⟨p, hp, hb, hlt⟩

theorem src_allI (s : SegMix) (h : s.ok) :
    (match s.src.col with
      | .u64 => decide (s.src.mn < I64MAX) && decide (s.src.mx < I64MAX)
      | .i64 => true
      | .f64 => false) = pI s.vals := by
  simp only [SegMix.src, writtenCol]
  by_cases hI : pI s.vals = true
  · rw [if_pos hI, hI]
  · have hf : pI s.vals = false := by cases hx : pI s.vals <;> simp_all
    rw [if_neg hI, hf]
    by_cases hU : pU s.vals = true
    · rw [if_pos hU]
      obtain ⟨p, hp, _, hge⟩ := pI_false_elim hI
      have hle := (h.2.2.1 p hp).2
      have : ¬ (s.mx < I64MAX) := by omega
      simp [this]
    · rw [if_neg hU]

theorem src_allU (s : SegMix) (h : s.ok) :
    (match s.src.col with
      | .i64 => decide (0 ≤ s.src.mn) && decide (0 ≤ s.src.mx)
      | .u64 => true
      | .f64 => false) = pU s.vals := by
  simp only [SegMix.src, writtenCol]
  by_cases hI : pI s.vals = true
  · rw [if_pos hI]
    by_cases hU : pU s.vals = true
    · rw [hU]
      obtain ⟨b, hb⟩ := h.1
      obtain ⟨b', hb'⟩ := h.2.1
      have hmn : 0 ≤ s.mn := by
        cases b with
        | true => exact h.2.2.2 _ hb rfl
        | false =>
          have := List.all_eq_true.mp hU _ hb
          simpa using this
      have hle : s.mn ≤ s.mx := (h.2.2.1 _ hb').1
      have hmx : 0 ≤ s.mx := by omega
      simp [hmn, hmx]
    · have hf : pU s.vals = false := by cases hx : pU s.vals <;> simp_all
      rw [hf]
      obtain ⟨p, hp, _, hlt⟩ := pU_false_elim hU
      have hle := (h.2.2.1 p hp).1
      have : ¬ (0 ≤ s.mn) := by omega
      simp [this]
  · rw [if_neg hI]
    by_cases hU : pU s.vals = true
    · rw [if_pos hU, hU]
    · have hf : pU s.vals = false := by cases hx : pU s.vals <;> simp_all
      rw [if_neg hU, hf]

theorem all_map_congr' {α β : Type} (l : List α) (f : α → β) (p : β → Bool) (q : α → Bool)
    (h : ∀ a ∈ l, p (f a) = q a) : (l.map f).all p = l.all q := by
  induction l with
  | nil => rfl
  | cons a t ih =>
    simp only [List.map_cons, List.all_cons]
    rw [h a (List.mem_cons_self ..), ih (fun x hx => h x (List.mem_cons_of_mem _ hx))]

theorem pI_flatMap (segs : List SegMix) : pI (segs.flatMap (·.vals)) = segs.all (fun s => pI s.vals) := by
  unfold pI
  rw [List.all_flatMap]

theorem pU_flatMap (segs : List SegMix) : pU (segs.flatMap (·.vals)) = segs.all (fun s => pU s.vals) := by
  unfold pU
  rw [List.all_flatMap]

/-- the merged segment's column type is the write-time type of all source values together, for any
mix of i64- and u64-supplied values (f64 included: negative values next to values ≥ i64::MAX) -/
theorem mergedCol_mixed (segs : List SegMix) (hok : ∀ s ∈ segs, s.ok) :
    mergedCol (segs.map SegMix.src) = writtenCol (segs.flatMap (·.vals)) := by
  have hI : allI64 (segs.map SegMix.src) = segs.all (fun s => pI s.vals) :=
    all_map_congr' segs SegMix.src _ _ (fun s hs => src_allI s (hok s hs))
  have hU : allU64 (segs.map SegMix.src) = segs.all (fun s => pU s.vals) :=
    all_map_congr' segs SegMix.src _ _ (fun s hs => src_allU s (hok s hs))
  unfold mergedCol writtenCol
  rw [hI, hU, pI_flatMap, pU_flatMap]

end TantivyModel.JsonRange
