import TantivyModel.Model.PositionReader
import TantivyModel.Proofs.Positions
/-! the stateful PositionReader returns, for every sequence of reads, the slices of the stream -/
namespace TantivyModel.Positions
open TantivyModel.Postings

theorem mul_div8 (B : Nat) (h8 : 8 ∣ B) (a b : Nat) : (a + b) * B / 8 = a * B / 8 + b * B / 8 := by
  obtain ⟨m, rfl⟩ := h8
  have e : ∀ x : Nat, x * (8 * m) / 8 = x * m := by
    intro x
    rw [Nat.mul_left_comm, Nat.mul_div_cancel_left _ (by omega)]
  rw [e, e, e, Nat.add_mul]

/-- skipping `a` bit-packed blocks of an encoded stream (by the sum of their widths) leaves the
encoding of the rest of the stream -/
theorem dropBlocks (c : Cfg) (h8 : 8 ∣ c.B) (hP : GoodPacker c.B c.P) (a : Nat) :
    ∀ (k : Nat) (l : List Nat), a ≤ k → k * c.B ≤ l.length →
      (encBlocks c k l).1.drop a = (encBlocks c (k - a) (l.drop (a * c.B))).1 ∧
      (encBlocks c k l).2.drop (((encBlocks c k l).1.take a).sum * c.B / 8) =
        (encBlocks c (k - a) (l.drop (a * c.B))).2 := by
  induction a with
  | zero => intro k l _ _; simp
  | succ a ih =>
    intro k l hak hl
    obtain ⟨k', rfl⟩ : ∃ k', k = k' + 1 := ⟨k - 1, by omega⟩
    have hmul : (k' + 1) * c.B = k' * c.B + c.B := by rw [Nat.add_mul, Nat.one_mul]
    have hlen : c.B ≤ l.length := by omega
    have htake : (l.take c.B).length = c.B := by simp; omega
    have ih' := ih k' (l.drop c.B) (by omega) (by simp; omega)
    have hpl := hP.pack_length (numBits (l.take c.B)) (l.take c.B) htake
    have hdd : (l.drop c.B).drop (a * c.B) = l.drop ((a + 1) * c.B) := by
      rw [List.drop_drop]; congr 1; rw [Nat.add_mul, Nat.one_mul, Nat.add_comm]
    have hk : k' + 1 - (a + 1) = k' - a := by omega
    simp only [encBlocks, List.drop_succ_cons, List.take_succ_cons, List.sum_cons, hk]
    rw [hdd] at ih'
    refine ⟨ih'.1, ?_⟩
    rw [mul_div8 c.B h8, ← hpl, List.drop_append, List.drop_eq_nil_of_le (by omega), List.nil_append]
    have e : (c.P.pack (numBits (l.take c.B)) (l.take c.B)).length +
        ((encBlocks c k' (l.drop c.B)).1.take a).sum * c.B / 8 -
        (c.P.pack (numBits (l.take c.B)) (l.take c.B)).length =
        ((encBlocks c k' (l.drop c.B)).1.take a).sum * c.B / 8 := by omega
    rw [e]; exact ih'.2

/-- block `j` of the stream -/
def blk (B : Nat) (D : List Nat) (j : Nat) : List Nat := (D.drop (j * B)).take B

/-- what the reader holds when its anchor is block `a` of the stream `D` -/
structure Core (c : Cfg) (D : List Nat) (s : Reader) (a : Nat) : Prop where
  le : a ≤ D.length / c.B
  anchor : s.anchor = a * c.B
  widths : s.widths = (encBlocks c (D.length / c.B - a) (D.drop (a * c.B))).1
  data : s.data = (encBlocks c (D.length / c.B - a) (D.drop (a * c.B))).2
  origW : s.origWidths = (encBlocks c (D.length / c.B) D).1
  origD : s.origData = (encBlocks c (D.length / c.B) D).2

/-- … and the decoded block, if any: block `b ≥ a` of the stream -/
def Loaded (c : Cfg) (D : List Nat) (s : Reader) (a : Nat) : Prop :=
  s.blockOffset = none ∨ ∃ b, a ≤ b ∧ b ≤ D.length / c.B ∧ s.blockOffset = some (b * c.B) ∧ s.buf = blk c.B D b

theorem rest_len (c : Cfg) (D : List Nat) (a : Nat) (ha : a ≤ D.length / c.B) :
    (D.length / c.B - a) * c.B ≤ (D.drop (a * c.B)).length := by
  have h1 : D.length / c.B * c.B ≤ D.length := Nat.div_mul_le_self _ _
  have h2 : a * c.B ≤ D.length / c.B * c.B := Nat.mul_le_mul_right _ ha
  simp only [List.length_drop, Nat.sub_mul]
  omega

theorem advance_core (c : Cfg) (h8 : 8 ∣ c.B) (hP : GoodPacker c.B c.P) (D : List Nat) (s : Reader)
    (a k : Nat) (hc : Core c D s a) (hk : a + k ≤ D.length / c.B) :
    Core c D (s.advanceNumBlocks c k) (a + k) ∧ (s.advanceNumBlocks c k).buf = s.buf ∧
      (s.advanceNumBlocks c k).blockOffset = s.blockOffset := by
  have hd := dropBlocks c h8 hP k (D.length / c.B - a) (D.drop (a * c.B)) (by omega) (rest_len c D a hc.le)
  have e1 : D.length / c.B - a - k = D.length / c.B - (a + k) := by omega
  have e2 : (D.drop (a * c.B)).drop (k * c.B) = D.drop ((a + k) * c.B) := by
    rw [List.drop_drop, Nat.add_mul]
  rw [e1, e2] at hd
  refine ⟨⟨hk, ?_, ?_, ?_, hc.origW, hc.origD⟩, rfl, rfl⟩
  · simp [Reader.advanceNumBlocks, hc.anchor, Nat.add_mul]
  · simp only [Reader.advanceNumBlocks, hc.widths]; exact hd.1
  · simp only [Reader.advanceNumBlocks, hc.widths, hc.data]; exact hd.2

theorem load_block (c : Cfg) (h8 : 8 ∣ c.B) (hB : 0 < c.B) (hS : 2 ≤ c.S) (hP : GoodPacker c.B c.P)
    (D : List Nat) (s : Reader) (a rel : Nat) (hc : Core c D s a) (hk : a + rel ≤ D.length / c.B) :
    Core c D (s.loadBlock c rel) a ∧ (s.loadBlock c rel).blockOffset = some ((a + rel) * c.B) ∧
      (s.loadBlock c rel).buf = blk c.B D (a + rel) := by
  have hd := dropBlocks c h8 hP rel (D.length / c.B - a) (D.drop (a * c.B)) (by omega) (rest_len c D a hc.le)
  have e1 : D.length / c.B - a - rel = D.length / c.B - (a + rel) := by omega
  have e2 : (D.drop (a * c.B)).drop (rel * c.B) = D.drop ((a + rel) * c.B) := by
    rw [List.drop_drop, Nat.add_mul]
  rw [e1, e2] at hd
  refine ⟨⟨hc.le, hc.anchor, hc.widths, hc.data, hc.origW, hc.origD⟩, ?_, ?_⟩
  · simp [Reader.loadBlock, hc.anchor, Nat.add_mul]
  · have hwl : s.widths.length = D.length / c.B - a := by rw [hc.widths, encBlocks_widths_length]
    simp only [Reader.loadBlock, hwl]
    rw [hc.data, hc.widths, hd.2]
    by_cases hlt : rel < D.length / c.B - a
    · -- a bit-packed block
      simp only [hlt, if_true]
      obtain ⟨m, hm⟩ : ∃ m, D.length / c.B - (a + rel) = m + 1 := ⟨D.length / c.B - (a + rel) - 1, by omega⟩
      have hw : (encBlocks c (D.length / c.B - a) (D.drop (a * c.B))).1.getD rel 0 =
          numBits ((D.drop ((a + rel) * c.B)).take c.B) := by
        have : ((encBlocks c (D.length / c.B - a) (D.drop (a * c.B))).1.drop rel).headD 0 =
            numBits ((D.drop ((a + rel) * c.B)).take c.B) := by
          rw [hd.1, hm]; simp [encBlocks]
        simpa [List.getD_eq_getElem?_getD, List.head?_drop, List.headD_eq_head?_getD] using this
      rw [hw, hm]
      simp only [encBlocks]
      have hfull : c.B ≤ (D.drop ((a + rel) * c.B)).length := by
        have := rest_len c D (a + rel) hk
        rw [hm, Nat.add_mul, Nat.one_mul] at this
        omega
      rw [hP.unpack_pack _ _ _ (by rw [List.length_take]; omega) (lt_two_pow_numBits _)]
      rfl
    · -- the VInt tail
      have hrel : D.length / c.B - (a + rel) = 0 := by omega
      simp only [hlt, if_false, hrel, encBlocks, VInt.decAll_encList c.S hS]
      have hshort : (D.drop ((a + rel) * c.B)).length < c.B := by
        have hak : a + rel = D.length / c.B := by omega
        rw [hak, List.length_drop]
        have := Nat.mod_lt D.length hB
        have := Nat.div_add_mod D.length c.B
        rw [Nat.mul_comm] at this
        omega
      simp only [blk]

theorem blk_drop_take (B : Nat) (D : List Nat) (j r len : Nat) (hl : len ≤ B - r) :
    ((blk B D j).drop r).take len = (D.drop (j * B + r)).take len := by
  unfold blk
  rw [List.drop_take, List.take_take, Nat.min_eq_left hl, List.drop_drop]

theorem blk_drop (B : Nat) (D : List Nat) (j r : Nat) :
    (blk B D j).drop r = (D.drop (j * B + r)).take (B - r) := by
  unfold blk
  rw [List.drop_take, List.drop_drop]

theorem copy_spec (c : Cfg) (h8 : 8 ∣ c.B) (hB : 0 < c.B) (hS : 2 ≤ c.S) (hP : GoodPacker c.B c.P)
    (D : List Nat) (fuel : Nat) :
    ∀ (s : Reader) (a i offset len : Nat), Core c D s a → 1 ≤ i → s.buf = blk c.B D (a + i - 1) →
      s.blockOffset = some ((a + i - 1) * c.B) → offset / c.B = a + i - 1 → offset + len ≤ D.length →
      len + offset % c.B ≤ fuel * c.B →
      (Reader.copy c fuel s i offset len).1 = (D.drop offset).take len ∧
      Core c D (Reader.copy c fuel s i offset len).2 a ∧ Loaded c D (Reader.copy c fuel s i offset len).2 a := by
  induction fuel with
  | zero =>
    intro s a i offset len hc hi hbuf hbo hj hrange hf
    have hle : offset / c.B ≤ D.length / c.B := Nat.div_le_div_right (by omega)
    have : len = 0 := by simp at hf; omega
    subst this
    simp only [Reader.copy, List.take_zero, true_and]
    exact ⟨hc, Or.inr ⟨a + i - 1, by omega, by omega, hbo, hbuf⟩⟩
  | succ fuel ih =>
    intro s a i offset len hc hi hbuf hbo hj hrange hf
    have hle : offset / c.B ≤ D.length / c.B := Nat.div_le_div_right (by omega)
    have hoff : offset = (a + i - 1) * c.B + offset % c.B := by
      have := Nat.div_add_mod offset c.B
      rw [hj, Nat.mul_comm] at this
      omega
    have hmod : offset % c.B < c.B := Nat.mod_lt _ hB
    unfold Reader.copy
    simp only
    by_cases hfit : len ≤ c.B - offset % c.B
    · simp only [hfit, if_true]
      refine ⟨?_, hc, Or.inr ⟨a + i - 1, by omega, by omega, hbo, hbuf⟩⟩
      rw [hbuf, blk_drop_take c.B D _ _ _ hfit, ← hoff]
    · simp only [hfit, if_false]
      -- the rest of this block, then block a + i
      have hnext : (a + i) * c.B < offset + len := by
        have e : (a + i) * c.B = (a + i - 1) * c.B + c.B := by
          have : a + i = (a + i - 1) + 1 := by omega
          conv => lhs; rw [this, Nat.add_mul, Nat.one_mul]
        omega
      have hai : a + i ≤ D.length / c.B := by
        rw [Nat.le_div_iff_mul_le hB]; omega
      have hl := load_block c h8 hB hS hP D s a i hc hai
      have hoff' : offset + (c.B - offset % c.B) = (a + i) * c.B := by
        have e : (a + i) * c.B = (a + i - 1) * c.B + c.B := by
          have : a + i = (a + i - 1) + 1 := by omega
          conv => lhs; rw [this, Nat.add_mul, Nat.one_mul]
        omega
      have hdiv : (offset + (c.B - offset % c.B)) / c.B = a + (i + 1) - 1 := by
        rw [hoff', Nat.mul_div_cancel _ hB]; omega
      have hmod0 : (offset + (c.B - offset % c.B)) % c.B = 0 := by
        rw [hoff', Nat.mul_mod_left]
      have hrec := ih (s.loadBlock c i) a (i + 1) (offset + (c.B - offset % c.B)) (len - (c.B - offset % c.B))
        hl.1 (by omega) (by rw [hl.2.2]; congr 1) (by rw [hl.2.1]; congr 1) hdiv (by omega)
        (by rw [hmod0]; have : (fuel + 1) * c.B = fuel * c.B + c.B := by rw [Nat.add_mul, Nat.one_mul]
            omega)
      refine ⟨?_, hrec.2.1, hrec.2.2⟩
      rw [hrec.1, hbuf, blk_drop, ← hoff]
      have hsplit : len = (c.B - offset % c.B) + (len - (c.B - offset % c.B)) := by omega
      conv => rhs; rw [hsplit, List.take_add, List.drop_drop]

theorem read_loaded (c : Cfg) (s : Reader) (offset len b : Nat)
    (hbo : (if offset < s.anchor then s.reset else s).blockOffset = some b)
    (h1 : b ≤ offset) (h2 : offset < b + c.B) :
    s.read c offset len = Reader.copy c (len / c.B + 2)
      ((if offset < s.anchor then s.reset else s).advanceNumBlocks c
        ((b - (if offset < s.anchor then s.reset else s).anchor) / c.B)) 1 offset len := by
  unfold Reader.read
  simp only
  generalize (if offset < s.anchor then s.reset else s) = s1 at hbo ⊢
  simp [hbo, h1, h2]

theorem read_not_loaded (c : Cfg) (s : Reader) (offset len : Nat)
    (h : ∀ b, (if offset < s.anchor then s.reset else s).blockOffset = some b →
      ¬ (b ≤ offset ∧ offset < b + c.B)) :
    s.read c offset len = Reader.copy c (len / c.B + 2)
      (((if offset < s.anchor then s.reset else s).advanceNumBlocks c
        ((offset - (if offset < s.anchor then s.reset else s).anchor) / c.B)).loadBlock c 0) 1 offset len := by
  unfold Reader.read
  simp only
  generalize (if offset < s.anchor then s.reset else s) = s1 at h ⊢
  cases hbo : s1.blockOffset with
  | none => simp
  | some b0 =>
    have := h b0 hbo
    simp [this]

/-- **one read**: whatever the reader did before, `read(offset, len)` returns the slice
`stream[offset .. offset+len)` and leaves the reader in a consistent state -/
theorem read_spec (c : Cfg) (h8 : 8 ∣ c.B) (hB : 0 < c.B) (hS : 2 ≤ c.S) (hP : GoodPacker c.B c.P)
    (D : List Nat) (s : Reader) (a : Nat) (hc : Core c D s a) (hl : Loaded c D s a)
    (offset len : Nat) (hrange : offset + len ≤ D.length) :
    (s.read c offset len).1 = (D.drop offset).take len ∧
    ∃ a', Core c D (s.read c offset len).2 a' ∧ Loaded c D (s.read c offset len).2 a' := by
  have hle : offset / c.B ≤ D.length / c.B := Nat.div_le_div_right (by omega)
  have hfuel : len + offset % c.B ≤ (len / c.B + 2) * c.B := by
    have h1 := Nat.mod_lt offset hB
    have h2 := Nat.div_add_mod len c.B
    have h3 := Nat.mod_lt len hB
    rw [Nat.add_mul, Nat.mul_comm (len / c.B)]
    omega
  -- the state after the optional reset
  obtain ⟨s1, a1, hs1, hc1, hl1, ha1⟩ : ∃ s1 a1, (if offset < s.anchor then s.reset else s) = s1 ∧
      Core c D s1 a1 ∧ Loaded c D s1 a1 ∧ a1 * c.B ≤ offset := by
    by_cases hlt : offset < s.anchor
    · refine ⟨s.reset, 0, by simp [hlt], ?_, Or.inl rfl, by omega⟩
      exact ⟨Nat.zero_le _, by simp [Reader.reset], by simp [Reader.reset, hc.origW],
        by simp [Reader.reset, hc.origD], hc.origW, hc.origD⟩
    · exact ⟨s, a, by simp [hlt], hc, hl, by rw [← hc.anchor]; omega⟩
  -- is the offset inside the loaded block?
  by_cases hin : ∃ b, s1.blockOffset = some b ∧ b ≤ offset ∧ offset < b + c.B
  · obtain ⟨b0, hb0, hb1, hb2⟩ := hin
    rcases hl1 with hnone | ⟨b, hab, hbn, hbo, hbuf⟩
    · rw [hnone] at hb0; simp at hb0
    · rw [hbo] at hb0
      have hb0' : b0 = b * c.B := by simpa using hb0.symm
      subst hb0'
      have hjb : offset / c.B = b :=
        Nat.div_eq_of_lt_le hb1 (by rw [Nat.add_mul, Nat.one_mul]; exact hb2)
      rw [read_loaded c s offset len (b * c.B) (by rw [hs1]; exact hbo) hb1 hb2, hs1, hc1.anchor]
      have hk : (b * c.B - a1 * c.B) / c.B = b - a1 := by
        rw [← Nat.sub_mul, Nat.mul_div_cancel _ hB]
      rw [hk]
      have hadv := advance_core c h8 hP D s1 a1 (b - a1) hc1 (by omega)
      have e : a1 + (b - a1) = b := by omega
      rw [e] at hadv
      have := copy_spec c h8 hB hS hP D (len / c.B + 2) (s1.advanceNumBlocks c (b - a1)) b 1 offset len
        hadv.1 (Nat.le_refl _) (by rw [hadv.2.1, hbuf]; simp) (by rw [hadv.2.2, hbo]; simp)
        (by rw [hjb]; simp) hrange hfuel
      exact ⟨this.1, b, this.2.1, this.2.2⟩
  · rw [read_not_loaded c s offset len (by
        rw [hs1]; intro b hb hcon; exact hin ⟨b, hb, hcon.1, hcon.2⟩), hs1, hc1.anchor]
    have hk : a1 + (offset - a1 * c.B) / c.B = offset / c.B := by
      have e : offset = (offset - a1 * c.B) + a1 * c.B := by omega
      conv => rhs; rw [e, Nat.add_mul_div_right _ _ hB]
      omega
    have hadv := advance_core c h8 hP D s1 a1 ((offset - a1 * c.B) / c.B) hc1 (by omega)
    rw [hk] at hadv
    have hload := load_block c h8 hB hS hP D _ (offset / c.B) 0 hadv.1 (by omega)
    have := copy_spec c h8 hB hS hP D (len / c.B + 2)
      ((s1.advanceNumBlocks c ((offset - a1 * c.B) / c.B)).loadBlock c 0) (offset / c.B) 1 offset len
      hload.1 (Nat.le_refl _) (by rw [hload.2.2]; simp) (by rw [hload.2.1]; simp)
      (by simp) hrange hfuel
    exact ⟨this.1, offset / c.B, this.2.1, this.2.2⟩

/-- **any sequence of reads** (forwards, backwards, overlapping) on one reader -/
theorem reads_spec (c : Cfg) (h8 : 8 ∣ c.B) (hB : 0 < c.B) (hS : 2 ≤ c.S) (hP : GoodPacker c.B c.P)
    (D : List Nat) (rs : List (Nat × Nat)) :
    ∀ (s : Reader) (a : Nat), Core c D s a → Loaded c D s a → (∀ r ∈ rs, r.1 + r.2 ≤ D.length) →
      Reader.reads c s rs = rs.map (fun r => (D.drop r.1).take r.2) := by
  induction rs with
  | nil => intro _ _ _ _ _; rfl
  | cons r rest ih =>
    intro s a hc hl hr
    obtain ⟨o, l⟩ := r
    have h := read_spec c h8 hB hS hP D s a hc hl o l (hr (o, l) (by simp))
    obtain ⟨a', hc', hl'⟩ := h.2
    simp only [Reader.reads, List.map_cons, h.1]
    rw [ih _ a' hc' hl' (fun r hr' => hr r (by simp [hr']))]

theorem open_encode (c : Cfg) (hS : 2 ≤ c.S) (D : List Nat) :
    ∃ s, Reader.open c (encode c D) = some s ∧ Core c D s 0 ∧ Loaded c D s 0 := by
  unfold Reader.open encode
  simp only [List.append_assoc]
  rw [VInt.dec_enc c.S hS]
  simp only [List.length_append]
  rw [if_neg (by omega)]
  simp only [List.take_left', List.drop_left']
  exact ⟨_, rfl, ⟨Nat.zero_le _, by simp, by simp, by simp, rfl, rfl⟩, Or.inl rfl⟩

end TantivyModel.Positions
