import TantivyModel.Proofs.Crc32Order
/-!
Bit-serial view of the CRC-32 model and the textbook burst guarantee at bit granularity: two
equally long byte strings that differ only inside a window of 32 consecutive *bit* positions
(not necessarily byte aligned) have different checksums.
-/
namespace TantivyModel.Crc32

def bitE (e : Bool) : BitVec 32 := if e then 1#32 else 0#32

/-- absorb one message bit -/
def absorbBit (c : BitVec 32) (e : Bool) : BitVec 32 := bitStep (c ^^^ bitE e)

def updateBits (s : BitVec 32) (es : List Bool) : BitVec 32 := es.foldl absorbBit s

/-- the bits of a byte in the order the register consumes them (least significant first) -/
def bitsOfByte (b : UInt8) : List Bool := (List.range 8).map (fun t => b.toNat.testBit t)

def bitsOf (m : List UInt8) : List Bool := m.flatMap bitsOfByte

theorem updateBits_cons (s : BitVec 32) (e : Bool) (es : List Bool) :
    updateBits s (e :: es) = updateBits (absorbBit s e) es := rfl

theorem updateBits_append (s : BitVec 32) (xs ys : List Bool) :
    updateBits s (xs ++ ys) = updateBits (updateBits s xs) ys := by
  simp [updateBits, List.foldl_append]

theorem absorbBit_injective_state {a b : BitVec 32} {e : Bool} (h : absorbBit a e = absorbBit b e) :
    a = b := (BitVec.xor_left_inj _).mp (bitStep_injective h)

theorem updateBits_injective_state (es : List Bool) {a b : BitVec 32}
    (h : updateBits a es = updateBits b es) : a = b := by
  induction es generalizing a b with
  | nil => exact h
  | cons e es ih => exact absorbBit_injective_state (ih h)

theorem bitE_xor (e f : Bool) : bitE e ^^^ bitE f = bitE (e ^^ f) := by
  cases e <;> cases f <;> decide

theorem absorbBit_xor (s t : BitVec 32) (e f : Bool) :
    absorbBit s e ^^^ absorbBit t f = absorbBit (s ^^^ t) (e ^^ f) := by
  unfold absorbBit
  rw [← bitStep_xor, ← bitE_xor]
  congr 1
  ac_rfl

theorem updateBits_xor (es fs : List Bool) (s t : BitVec 32) (h : es.length = fs.length) :
    updateBits s es ^^^ updateBits t fs
      = updateBits (s ^^^ t) (List.zipWith (fun a b => a ^^ b) es fs) := by
  induction es generalizing fs s t with
  | nil =>
    cases fs with
    | nil => rfl
    | cons f fs => simp at h
  | cons e es ih =>
    cases fs with
    | nil => simp at h
    | cons f fs =>
      simp only [List.zipWith_cons_cons, updateBits_cons]
      rw [ih fs _ _ (by simpa using h), absorbBit_xor]

theorem updateBits_shift (es : List Bool) (s t : BitVec 32) :
    updateBits (s ^^^ t) es = iter es.length s ^^^ updateBits t es := by
  induction es generalizing s t with
  | nil => rfl
  | cons e es ih =>
    simp only [updateBits_cons, List.length_cons, iter]
    have : absorbBit (s ^^^ t) e = bitStep s ^^^ absorbBit t e := by
      unfold absorbBit; rw [← bitStep_xor]; congr 1; ac_rfl
    rw [this, ih]

/-! ### bytes as eight bits -/

theorem byte_bits_aux : ∀ n, n < 256 →
    bitStep8 (BitVec.ofNat 32 n)
      = updateBits 0#32 ((List.range 8).map (fun t => n.testBit t)) := by
  decide +kernel

theorem zext_ofNat (b : UInt8) : b.toBitVec.setWidth 32 = BitVec.ofNat 32 b.toNat := by
  apply BitVec.eq_of_toNat_eq
  rw [zext_toNat]
  have := b.toNat_lt
  simp [BitVec.toNat_ofNat]

theorem bitsOfByte_length (b : UInt8) : (bitsOfByte b).length = 8 := by simp [bitsOfByte]

theorem step_eq_bits (c : BitVec 32) (b : UInt8) : step c b = updateBits c (bitsOfByte b) := by
  have h := updateBits_shift (bitsOfByte b) c 0#32
  rw [BitVec.xor_zero, bitsOfByte_length] at h
  rw [h]
  unfold step
  rw [bitStep8_xor, zext_ofNat, byte_bits_aux b.toNat b.toNat_lt]
  rfl

theorem update_eq_bits (m : List UInt8) (s : BitVec 32) : update s m = updateBits s (bitsOf m) := by
  induction m generalizing s with
  | nil => rfl
  | cons b bs ih =>
    have e1 : update s (b :: bs) = update (step s b) bs := by simp [update]
    rw [e1, ih, step_eq_bits]
    simp [bitsOf, updateBits_append]

theorem bitsOfByte_injective {a b : UInt8} (h : bitsOfByte a = bitsOfByte b) : a = b := by
  apply UInt8.toNat_inj.mp
  apply Nat.eq_of_testBit_eq
  intro i
  by_cases hi : i < 8
  · have := congrArg (fun l => l[i]?) h
    simpa [bitsOfByte, hi] using this
  · have ha : a.toNat < 2 ^ i :=
      Nat.lt_of_lt_of_le a.toNat_lt (by
        have : (2 : Nat) ^ 8 ≤ 2 ^ i := Nat.pow_le_pow_right (by decide) (by omega)
        simpa using this)
    have hb : b.toNat < 2 ^ i :=
      Nat.lt_of_lt_of_le b.toNat_lt (by
        have : (2 : Nat) ^ 8 ≤ 2 ^ i := Nat.pow_le_pow_right (by decide) (by omega)
        simpa using this)
    rw [Nat.testBit_lt_two_pow ha, Nat.testBit_lt_two_pow hb]

theorem bitsOf_length (m : List UInt8) : (bitsOf m).length = 8 * m.length := by
  induction m with
  | nil => rfl
  | cons b bs ih =>
    have : bitsOf (b :: bs) = bitsOfByte b ++ bitsOf bs := by simp [bitsOf]
    rw [this, List.length_append, bitsOfByte_length, ih, List.length_cons]; omega

theorem bitsOf_injective : ∀ (m m' : List UInt8), bitsOf m = bitsOf m' → m = m'
  | [], [], _ => rfl
  | [], b :: bs, h => by
    have := congrArg List.length h
    rw [bitsOf_length, bitsOf_length] at this; simp at this
  | a :: as, [], h => by
    have := congrArg List.length h
    rw [bitsOf_length, bitsOf_length] at this; simp at this
  | a :: as, b :: bs, h => by
    have e1 : bitsOf (a :: as) = bitsOfByte a ++ bitsOf as := by simp [bitsOf]
    have e2 : bitsOf (b :: bs) = bitsOfByte b ++ bitsOf bs := by simp [bitsOf]
    rw [e1, e2] at h
    have hl : (bitsOfByte a).length = (bitsOfByte b).length := by
      rw [bitsOfByte_length, bitsOfByte_length]
    obtain ⟨h1, h2⟩ := List.append_inj h hl
    rw [bitsOfByte_injective h1, bitsOf_injective as bs h2]

/-! ### a burst of at most 32 bits never cancels -/

theorem bitE_lt (e : Bool) : (bitE e).toNat < 2 := by cases e <;> decide

/-- if absorbing `es` (at most 31 bits) from `c` ends in the zero state, `c` was below `2^|es|` -/
theorem updateBits_zero_bound (es : List Bool) : ∀ (c : BitVec 32), es.length ≤ 31 →
    updateBits c es = 0#32 → c.toNat < 2 ^ es.length := by
  induction es with
  | nil =>
    intro c _ h
    have : c = 0#32 := h
    subst this; decide
  | cons e es ih =>
    intro c hl h
    have hl' : es.length ≤ 30 := by simpa using Nat.le_of_succ_le_succ (by simpa using hl)
    have h1 := ih (absorbBit c e) (by omega) h
    have hp : (2 : Nat) ^ es.length ≤ 2 ^ 30 := Nat.pow_le_pow_right (by decide) hl'
    have hsmall : (bitStep (c ^^^ bitE e)).toNat < 2147483648 := by
      have : (absorbBit c e).toNat < 2 ^ 30 := Nat.lt_of_lt_of_le h1 hp
      unfold absorbBit at this; omega
    obtain ⟨_, hhalf⟩ := bitStep_small _ hsmall
    have h2 : (c ^^^ bitE e).toNat < 2 ^ (es.length + 1) := by
      unfold absorbBit at h1
      rw [Nat.pow_succ]; omega
    have h3 : (bitE e).toNat < 2 ^ (es.length + 1) :=
      Nat.lt_of_lt_of_le (bitE_lt e) (by
        have : (2 : Nat) ^ 1 ≤ 2 ^ (es.length + 1) := Nat.pow_le_pow_right (by decide) (by omega)
        simpa using this)
    have h4 := xor_toNat_lt _ _ _ h2 h3
    rw [BitVec.xor_assoc, BitVec.xor_self, BitVec.xor_zero] at h4
    simpa using h4

theorem bitStep_one : bitStep 1#32 = poly := by decide

theorem poly_big : 2147483648 ≤ poly.toNat := by decide

/-- a non-zero error pattern of at most 32 bits leaves a non-zero difference in the register -/
theorem updateBits_zero_all_false (es : List Bool) : es.length ≤ 32 → updateBits 0#32 es = 0#32 →
    ∀ e ∈ es, e = false := by
  induction es with
  | nil => intro _ _ e he; simp at he
  | cons e es ih =>
    intro hl h
    have hl' : es.length ≤ 31 := by simpa using Nat.le_of_succ_le_succ (by simpa using hl)
    rw [updateBits_cons] at h
    have hb := updateBits_zero_bound es (absorbBit 0#32 e) hl' h
    have hp : (2 : Nat) ^ es.length ≤ 2 ^ 31 := Nat.pow_le_pow_right (by decide) hl'
    have he : e = false := by
      cases e with
      | false => rfl
      | true =>
        have : absorbBit 0#32 true = poly := by decide
        rw [this] at hb
        have := poly_big
        omega
    subst he
    have h0 : absorbBit 0#32 false = 0#32 := by decide
    rw [h0] at h
    intro x hx
    rcases List.mem_cons.mp hx with hx | hx
    · exact hx
    · exact ih (by omega) h x hx

theorem zipWith_xor_all_false : ∀ (xs ys : List Bool), xs.length = ys.length →
    (∀ e ∈ List.zipWith (fun a b => a ^^ b) xs ys, e = false) → xs = ys
  | [], [], _, _ => rfl
  | [], _ :: _, h, _ => by simp at h
  | _ :: _, [], h, _ => by simp at h
  | x :: xs, y :: ys, h, hall => by
    have h1 : (x ^^ y) = false := hall _ (by simp)
    have h2 := zipWith_xor_all_false xs ys (by simpa using h) (fun e he => hall e (by simp [he]))
    have : x = y := by cases x <;> cases y <;> simp_all
    rw [this, h2]

/-- bit-level burst guarantee -/
theorem updateBits_burst (s : BitVec 32) (pre suf w1 w2 : List Bool) (hl : w1.length = w2.length)
    (h32 : w1.length ≤ 32) (hne : w1 ≠ w2) :
    updateBits s (pre ++ w1 ++ suf) ≠ updateBits s (pre ++ w2 ++ suf) := by
  intro h
  rw [updateBits_append, updateBits_append, updateBits_append, updateBits_append] at h
  have h1 := updateBits_injective_state suf h
  have h2 : updateBits (updateBits s pre) w1 ^^^ updateBits (updateBits s pre) w2 = 0#32 := by
    rw [h1, BitVec.xor_self]
  rw [updateBits_xor w1 w2 _ _ hl, BitVec.xor_self] at h2
  have hz := updateBits_zero_all_false _ (by
    rw [List.length_zipWith]; omega) h2
  exact hne (zipWith_xor_all_false w1 w2 hl hz)

/-- two equally long byte strings that differ, and differ only inside a window of 32 consecutive
bit positions, have different CRC-32 checksums -/
theorem crc32_burst_bits (m m' : List UInt8) (hlen : m.length = m'.length) (p : Nat)
    (hout : ∀ i, (i < p ∨ p + 32 ≤ i) → (bitsOf m)[i]? = (bitsOf m')[i]?) (hne : m ≠ m') :
    crc32 m ≠ crc32 m' := by
  intro he
  unfold crc32 at he
  have h1 := finalize_injective he
  rw [update_eq_bits, update_eq_bits] at h1
  have hL : (bitsOf m).length = (bitsOf m').length := by
    rw [bitsOf_length, bitsOf_length, hlen]
  generalize hB : bitsOf m = B at h1 hout hL
  generalize hB' : bitsOf m' = B' at h1 hout hL
  have dec : ∀ (X : List Bool), X = X.take p ++ (X.drop p).take 32 ++ (X.drop p).drop 32 := by
    intro X
    rw [List.append_assoc, List.take_append_drop, List.take_append_drop]
  have hpre : B.take p = B'.take p := by
    apply List.ext_getElem?
    intro i
    rw [List.getElem?_take, List.getElem?_take]
    by_cases hi : i < p
    · simp [hi, hout i (Or.inl hi)]
    · simp [hi]
  have hsuf : (B.drop p).drop 32 = (B'.drop p).drop 32 := by
    apply List.ext_getElem?
    intro i
    rw [List.getElem?_drop, List.getElem?_drop, List.getElem?_drop, List.getElem?_drop]
    exact hout _ (Or.inr (by omega))
  have hwl : ((B.drop p).take 32).length = ((B'.drop p).take 32).length := by
    simp [List.length_take, List.length_drop, hL]
  have hw32 : ((B.drop p).take 32).length ≤ 32 := by
    rw [List.length_take]; exact Nat.min_le_left _ _
  have hwne : (B.drop p).take 32 ≠ (B'.drop p).take 32 := by
    intro hw
    apply hne
    apply bitsOf_injective
    rw [hB, hB', dec B, dec B', hpre, hw, hsuf]
  have := updateBits_burst init (B.take p) ((B.drop p).drop 32) _ _ hwl hw32 hwne
  apply this
  rw [← dec B, hpre, hsuf, ← dec B']
  exact h1

end TantivyModel.Crc32
