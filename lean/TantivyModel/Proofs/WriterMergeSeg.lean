import TantivyModel.Proofs.WriterIds
/-!
Merges, segment level: what `merge` (advance every source, concatenate the alive documents, take
the first cursor) and the catch-up of `end_merge` compute.
-/
namespace TantivyModel.Writer
open TantivyModel.WriterSpec

variable {α : Type} [DecidableEq α]

/-- the cursor of a committed segment sits exactly at the commit: every delete before it is older
than the commit opstamp `B`, every delete at or after it younger (none equals `B`) -/
def CommittedAt (log : List (DelOp α)) (B : Nat) (sg : Seg α) : Prop :=
  (∀ del ∈ log.take sg.cursor, del.op < B) ∧ (∀ del ∈ log.drop sg.cursor, B < del.op)

theorem committedAt_ne (log : List (DelOp α)) (B : Nat) (sg : Seg α) (h : CommittedAt log B sg) :
    ∀ del ∈ log, del.op ≠ B := by
  intro del hd
  rw [← List.take_append_drop sg.cursor log] at hd
  rcases List.mem_append.mp hd with h1 | h1
  · have := h.1 del h1; omega
  · have := h.2 del h1; omega

/-- two positions that both split the queue at `B` are the same position -/
theorem boundary_unique (log : List (DelOp α)) (B a b : Nat) (ha : a ≤ log.length) (hb : b ≤ log.length)
    (h1 : ∀ del ∈ log.take a, del.op < B) (h2 : ∀ del ∈ log.drop a, B < del.op)
    (h3 : ∀ del ∈ log.take b, del.op < B) (h4 : ∀ del ∈ log.drop b, B < del.op) : a = b := by
  rcases Nat.lt_trichotomy a b with hlt | heq | hgt
  · have hal : a < log.length := by omega
    have m1 : log[a] ∈ log.drop a :=
      List.mem_iff_getElem.mpr ⟨0, by simp; omega, by simp⟩
    have m2 : log[a] ∈ log.take b := by
      rw [List.mem_take_iff_getElem]
      exact ⟨a, by omega, rfl⟩
    have := h2 _ m1; have := h3 _ m2; omega
  · exact heq
  · have hbl : b < log.length := by omega
    have m1 : log[b] ∈ log.drop b :=
      List.mem_iff_getElem.mpr ⟨0, by simp; omega, by simp⟩
    have m2 : log[b] ∈ log.take a := by
      rw [List.mem_take_iff_getElem]
      exact ⟨b, by omega, rfl⟩
    have := h4 _ m1; have := h1 _ m2; omega

/-- advancing a committed segment to its own commit opstamp changes nothing -/
theorem advance_committedAt (log : List (DelOp α)) (B : Nat) (sg : Seg α) (h : CommittedAt log B sg) :
    advance log B sg = sg := by
  unfold advance
  cases hd : log.drop sg.cursor with
  | nil => simp [consume]
  | cons del rest =>
    have : B < del.op := h.2 del (by rw [hd]; simp)
    simp [consume, this]

/-- the alive documents of a finished segment, as pairs -/
theorem alivePairs_of_segOK (log : List (DelOp α)) (sg : Seg α) (h : SegOK log sg) :
    (sg.docs.filter (·.alive)).map (fun d => (d.doc, d.op))
      = (segPairs sg).filter (fun p => !dead (log.take sg.cursor) p) := by
  simp only [segPairs, List.filter_map]
  congr 1
  apply List.filter_congr
  intro d hd
  simp [h.bits d hd]

/-- `merge`: when every advanced source ends at the same cursor `c`, the merged segment is a
finished segment at `c` holding exactly the source documents that are alive under the deletes
before `c`; if there is none, every source document is dead -/
theorem mergeSegs_spec (log : List (DelOp α)) (target newId c : Nat) (srcs : List (Seg α))
    (hok : ∀ sg ∈ srcs, SegOK log sg) (hc : ∀ sg ∈ srcs, (advance log target sg).cursor = c)
    (hcl : c ≤ log.length) :
    match mergeSegs log target newId srcs with
    | some M => M.id = newId ∧ M.cursor = c ∧ SegOK log M ∧ (∀ d ∈ M.docs, d.alive = true)
        ∧ segPairs M = (srcs.flatMap segPairs).filter (fun p => !dead (log.take c) p)
    | none => ∀ p ∈ srcs.flatMap segPairs, dead (log.take c) p = true := by
  have hadv : ∀ a ∈ srcs.map (advance log target), SegOK log a ∧ a.cursor = c := by
    intro a ha
    obtain ⟨sg, hsg, rfl⟩ := List.mem_map.mp ha
    exact ⟨advance_segOK log target sg (hok sg hsg), hc sg hsg⟩
  have hpairs : ((srcs.map (advance log target)).flatMap (fun sg => sg.docs.filter (·.alive))).map (fun d => (d.doc, d.op))
      = (srcs.flatMap segPairs).filter (fun p => !dead (log.take c) p) := by
    rw [List.map_flatMap, filter_flatMap', List.flatMap_map]
    apply flatMap_congr'
    intro sg hsg
    have ha := hadv (advance log target sg) (List.mem_map.mpr ⟨sg, hsg, rfl⟩)
    rw [alivePairs_of_segOK log _ ha.1, ha.2, segPairs_advance]
  cases hs : srcs.map (advance log target) with
  | nil =>
    have : srcs = [] := by simpa using hs
    simp [this, mergeSegs]
  | cons first rest =>
    rw [hs] at hpairs hadv
    have hms : mergeSegs log target newId srcs =
        if ((first :: rest).flatMap (fun sg => sg.docs.filter (·.alive))).isEmpty then none
        else some { id := newId, docs := (first :: rest).flatMap (fun sg => sg.docs.filter (·.alive)),
                    cursor := first.cursor } := by
      simp only [mergeSegs, hs]
    rw [hms]
    by_cases hemp : ((first :: rest).flatMap (fun sg => sg.docs.filter (·.alive))).isEmpty = true
    · rw [if_pos hemp]
      intro p hp
      have hall : (srcs.flatMap segPairs).filter (fun p => !dead (log.take c) p) = [] := by
        rw [← hpairs]
        rw [List.isEmpty_iff.mp hemp]; rfl
      have := List.filter_eq_nil_iff.mp hall p hp
      simpa using this
    · rw [if_neg hemp]
      refine ⟨rfl, (hadv first (by simp)).2, ?_, ?_, hpairs⟩
      · refine ⟨by show first.cursor ≤ log.length; rw [(hadv first (by simp)).2]; exact hcl, ?_, ?_⟩
        · intro d hd
          obtain ⟨a, ha, hda⟩ := List.mem_flatMap.mp hd
          have hda' := List.mem_filter.mp hda
          have hb := (hadv a ha).1.bits d hda'.1
          rw [(hadv a ha).2] at hb
          show d.alive = !dead (log.take first.cursor) (d.doc, d.op)
          rw [(hadv first (by simp)).2]
          exact hb
        · intro del hdel d hd
          obtain ⟨a, ha, hda⟩ := List.mem_flatMap.mp hd
          have hda' := List.mem_filter.mp hda
          have hdel' : del ∈ log.drop a.cursor := by
            rw [(hadv a ha).2, ← (hadv first (by simp)).2]; exact hdel
          exact (hadv a ha).1.younger del hdel' d hda'.1
      · intro d hd
        obtain ⟨a, _, hda⟩ := List.mem_flatMap.mp hd
        simpa using (List.mem_filter.mp hda).2

theorem catchUp_cases (log : List (DelOp α)) (B : Nat) (M : Seg α) :
    (catchUp log B M = M ∧ (log.length ≤ M.cursor ∨ ∃ h : M.cursor < log.length, ¬ log[M.cursor].op < B))
      ∨ catchUp log B M = advance log B M := by
  unfold catchUp
  rcases Nat.lt_or_ge M.cursor log.length with h | h
  · rw [List.getElem?_eq_getElem h]
    by_cases hlt : log[M.cursor].op < B
    · right
      show (if catchUpGuard log[M.cursor].op B = true then advance log B M else M) = advance log B M
      rw [if_pos (by simpa using hlt)]
    · left; refine ⟨?_, Or.inr ⟨h, hlt⟩⟩
      show (if catchUpGuard log[M.cursor].op B = true then advance log B M else M) = M
      rw [if_neg (by simpa using hlt)]
  · rw [List.getElem?_eq_none h]
    left; exact ⟨rfl, Or.inl h⟩

/-- the catch-up of `end_merge`, on a sorted queue without a delete stamped exactly `B` -/
theorem catchUp_spec (log : List (DelOp α)) (B : Nat) (M : Seg α) (hs : SortedLog log) (hok : SegOK log M)
    (hbefore : ∀ del ∈ log.take M.cursor, del.op < B) (hne : ∀ del ∈ log, del.op ≠ B) :
    SegOK log (catchUp log B M) ∧ CommittedAt log B (catchUp log B M)
      ∧ segPairs (catchUp log B M) = segPairs M ∧ M.cursor ≤ (catchUp log B M).cursor := by
  have hadv : SegOK log (advance log B M) ∧ CommittedAt log B (advance log B M)
      ∧ segPairs (advance log B M) = segPairs M ∧ M.cursor ≤ (advance log B M).cursor := by
    refine ⟨advance_segOK log B M hok, ?_, segPairs_advance log B M, ?_⟩
    · unfold advance CommittedAt
      rw [consume_spec]
      simp only [processed]
      constructor
      · rw [take_add_takeWhile]
        intro del hd
        rcases List.mem_append.mp hd with h | h
        · exact hbefore del h
        · have h1 := mem_takeWhile_prop h
          have h2 := hne del ((List.drop_sublist _ _).subset ((List.takeWhile_sublist _).subset h))
          simp at h1; omega
      · rw [drop_add_takeWhile]
        exact sorted_dropWhile B _ (sorted_drop log _ hs)
    · unfold advance
      rw [consume_spec]
      simp
  rcases catchUp_cases log B M with ⟨he, hcase⟩ | he
  · rw [he]
    refine ⟨hok, ⟨hbefore, ?_⟩, rfl, Nat.le_refl _⟩
    rcases hcase with hlen | ⟨hlt, hge⟩
    · rw [List.drop_of_length_le hlen]; simp
    · have hmem : log[M.cursor] ∈ log := List.getElem_mem hlt
      have hgt : B < log[M.cursor].op := by have := hne _ hmem; omega
      intro d hd
      rw [List.drop_eq_getElem_cons hlt] at hd
      rcases List.mem_cons.mp hd with rfl | hrest
      · exact hgt
      · have hsd := sorted_drop log M.cursor hs
        rw [List.drop_eq_getElem_cons hlt] at hsd
        have := (List.pairwise_cons.mp hsd).1 d hrest
        omega
  · rw [he]; exact hadv

end TantivyModel.Writer
