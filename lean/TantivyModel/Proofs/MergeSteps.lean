import TantivyModel.Proofs.MergeInv
/-! every event of the machine preserves the invariant and the refinement relation -/
namespace TantivyModel.Merge

theorem step_delete (s : Sys) (a : Abs) (key : Nat) (hI : Inv s) (hR : Rel s a) :
    Inv (s.step (.delete key)) ∧ Rel (s.step (.delete key)) (a.step (.delete key)) := by
  have hlt : s.st.committedOpstamp < (⟨s.stamp, key⟩ : DelOp).opstamp := hI.c_lt
  constructor
  · refine { ops_lt := ?_, c_lt := ?_, ops_ne := ?_, wf := ?_, pwf := hI.pwf, comD1 := ?_,
             comD2 := hI.comD2, pubE := hI.pubE, ids := hI.ids, pids := hI.pids,
             repoch := hI.repoch, run := ?_ }
    · intro op hop
      simp only [Sys.step, pushDelete, List.mem_append, List.mem_singleton] at hop ⊢
      rcases hop with h | rfl
      · have := hI.ops_lt op h; omega
      · simp
    · have := hI.c_lt; simp only [Sys.step, pushDelete]; omega
    · intro op hop
      simp only [Sys.step, pushDelete, List.mem_append, List.mem_singleton] at hop ⊢
      rcases hop with h | rfl
      · exact hI.ops_ne op h
      · have := hI.c_lt; simp; omega
    · intro e he
      obtain ⟨h1, h2, h3⟩ := hI.wf e he
      refine ⟨h1, ?_, h3⟩
      simp only [Sys.step, pushDelete, List.length_append, List.length_singleton]; omega
    · intro e he
      simp only [Sys.step, pushDelete]
      rw [consumed_push_later _ _ _ _ hlt]
      exact hI.comD1 e he
    · intro r hr hep
      have hr0 := hI.run r hr hep
      refine { srcs_ne := hr0.srcs_ne, srcs_lt := hr0.srcs_lt, mwf := ?_, pendAll := ?_, pubC := ?_ }
      · intro m hm
        obtain ⟨h1, h2, h3, h4⟩ := hr0.mwf m hm
        refine ⟨h1, ?_, h3, h4⟩
        simp only [Sys.step, pushDelete, List.length_append, List.length_singleton]; omega
      · intro hc
        have h0 := hr0.pendAll hc
        simp only [Sys.step, pushDelete]
        rw [flatten_docsAll_push _ _ _ (fun m hm => (hr0.mwf m hm).2.1),
          flatten_docsAll_push _ _ _ (fun e he => (hI.wf e (List.mem_filter.1 he).1).2.1), h0]
      · intro hc
        obtain ⟨h1, h2⟩ := hr0.pubC hc
        simp only [Sys.step, pushDelete]
        constructor
        · rw [← h1]
          congr 1
          apply List.map_congr_left
          intro m _
          rw [advance_push_later _ _ _ _ hlt]
        · intro m hm e he
          rw [advance_push_later _ _ _ _ hlt]
          exact h2 m hm e he
  · obtain ⟨hp, hq⟩ := hR
    refine ⟨hp, ?_⟩
    simp only [Sys.step, Abs.step, pendDocs, pushDelete]
    rw [flatten_docsAll_push _ _ _ (fun e he => (hI.wf e he).2.1)]
    exact (hq.filter _)

theorem step_deleteAll (s : Sys) (a : Abs) (hI : Inv s) (hR : Rel s a) :
    Inv (s.step .deleteAll) ∧ Rel (s.step .deleteAll) (a.step .deleteAll) := by
  constructor
  · refine { ops_lt := hI.ops_lt, c_lt := hI.c_lt, ops_ne := hI.ops_ne, wf := ?_, pwf := hI.pwf,
             comD1 := ?_, comD2 := ?_, pubE := Or.inl rfl, ids := ?_, pids := hI.pids,
             repoch := hI.repoch, run := ?_ }
    · intro e he; simp [Sys.step, deleteAll] at he
    · intro e he; simp [Sys.step, deleteAll] at he
    · intro e he; simp [Sys.step, deleteAll] at he
    · simp [Sys.step, deleteAll]
    · intro r hr hep
      have hr0 := hI.run r hr hep
      refine { srcs_ne := hr0.srcs_ne, srcs_lt := hr0.srcs_lt, mwf := ?_, pendAll := ?_, pubC := ?_ }
      · intro m hm
        obtain ⟨h1, h2, h3, _⟩ := hr0.mwf m hm
        exact ⟨h1, h2, h3, fun e he => by simp [Sys.step, deleteAll] at he⟩
      · intro hc
        simp only [Sys.step, deleteAll, List.append_nil] at hc
        rw [containsAll_nil_left _ hr0.srcs_ne] at hc; cases hc
      · intro hc
        simp only [Sys.step, deleteAll] at hc
        rw [containsAll_nil_left _ hr0.srcs_ne] at hc; cases hc
  · exact ⟨hR.1, by simp [Sys.step, Abs.step, pendDocs, deleteAll]⟩

theorem step_rollback (s : Sys) (a : Abs) (hI : Inv s) (hR : Rel s a) :
    Inv (s.step .rollback) ∧ Rel (s.step .rollback) (a.step .rollback) := by
  have hcom : (s.step .rollback).st.committed
      = s.st.published.map (fun e => { e with cursor := s.st.queue.length }) := rfl
  have hlive : ∀ e : Entry, liveDocsOf { e with cursor := s.st.queue.length } = liveDocsOf e := fun _ => rfl
  have hcontent : ((s.step .rollback).st.committed.map liveDocsOf).flatten = pubDocs s.st := by
    rw [hcom, List.map_map]
    rfl
  constructor
  · refine { ops_lt := hI.ops_lt, c_lt := hI.c_lt, ops_ne := hI.ops_ne, wf := ?_, pwf := hI.pwf,
             comD1 := ?_, comD2 := ?_, pubE := ?_, ids := ?_, pids := hI.pids,
             repoch := ?_, run := ?_ }
    · intro e he
      simp only [Sys.step, rollback, List.nil_append, List.mem_map] at he
      obtain ⟨e0, he0, rfl⟩ := he
      obtain ⟨h1, h2⟩ := hI.pwf e0 he0
      exact ⟨h1, Nat.le_refl _, h2⟩
    · intro e he
      rw [hcom, List.mem_map] at he
      obtain ⟨e0, _, rfl⟩ := he
      simp [consumed, Sys.step, rollback]
    · intro e he e' he'
      rw [hcom, List.mem_map] at he he'
      obtain ⟨e0, _, rfl⟩ := he
      obtain ⟨e1, _, rfl⟩ := he'
      rfl
    · right
      rw [hcontent]
      exact List.Perm.refl _
    · simp only [Sys.step, rollback, List.nil_append, List.map_map]
      exact hI.pids
    · intro r hr
      have := hI.repoch r hr
      simp only [Sys.step, rollback]; omega
    · intro r hr hep
      have := hI.repoch r hr
      simp only [Sys.step, rollback] at hep
      omega
  · refine ⟨hR.1, ?_⟩
    have : pendDocs (s.step .rollback).st = pubDocs s.st := by
      simp only [pendDocs, Sys.step, rollback, List.nil_append, List.map_map]
      unfold pubDocs
      congr 1
      apply List.map_congr_left
      intro e _
      exact docsAll_of_cursor_end _ _ (Nat.le_refl _)
    rw [this]
    exact hR.1

theorem step_addSeg (s : Sys) (a : Abs) (docs : List DocRec) (hI : Inv s) (hR : Rel s a) :
    Inv (s.step (.addSeg docs)) ∧ Rel (s.step (.addSeg docs)) (a.step (.addSeg docs)) := by
  let e : Entry := { segId := s.nextId, docs := docs, alive := List.replicate docs.length true,
                     cursor := s.st.queue.length }
  have hunc : (s.step (.addSeg docs)).st.uncommitted = s.st.uncommitted ++ [e] := rfl
  have hcom : (s.step (.addSeg docs)).st.committed = s.st.committed := rfl
  have hfresh : ∀ x ∈ s.st.uncommitted ++ s.st.committed, x.segId ≠ e.segId := by
    intro x hx heq
    have := (hI.wf x hx).2.2
    simp only [e] at heq
    omega
  have hmem : ∀ x, x ∈ (s.st.uncommitted ++ [e]) ++ s.st.committed ↔
      x = e ∨ x ∈ s.st.uncommitted ++ s.st.committed := by
    intro x; simp only [List.mem_append, List.mem_singleton]
    constructor
    · rintro ((h | h) | h)
      · exact Or.inr (Or.inl h)
      · exact Or.inl h
      · exact Or.inr (Or.inr h)
    · rintro (h | h | h)
      · exact Or.inl (Or.inr h)
      · exact Or.inl (Or.inl h)
      · exact Or.inr h
  constructor
  · refine { ops_lt := hI.ops_lt, c_lt := hI.c_lt, ops_ne := hI.ops_ne, wf := ?_, pwf := ?_,
             comD1 := hI.comD1, comD2 := hI.comD2, pubE := hI.pubE, ids := ?_, pids := hI.pids,
             repoch := hI.repoch, run := ?_ }
    · intro x hx
      rw [hunc, hcom, hmem] at hx
      rcases hx with rfl | hx
      · exact ⟨by simp [e], Nat.le_refl _, by simp [e, Sys.step]⟩
      · obtain ⟨h1, h2, h3⟩ := hI.wf x hx
        exact ⟨h1, h2, by simp only [Sys.step]; omega⟩
    · intro x hx
      obtain ⟨h1, h2⟩ := hI.pwf x hx
      exact ⟨h1, by simp only [Sys.step]; omega⟩
    · rw [hunc, hcom]
      have hp : ((s.st.uncommitted ++ [e]) ++ s.st.committed).Perm (e :: (s.st.uncommitted ++ s.st.committed)) := by
        rw [List.append_assoc]
        exact List.perm_middle
      rw [(hp.map _).nodup_iff, List.map_cons, List.nodup_cons]
      refine ⟨?_, hI.ids⟩
      intro hin
      obtain ⟨x, hx, heq⟩ := List.mem_map.1 hin
      exact hfresh x hx heq
    · intro r hr hep
      have hr0 := hI.run r hr hep
      have hnot : e.segId ∉ r.sources := fun h => by
        have := hr0.srcs_lt _ h
        simp [e] at this
      have hP : inSources r.sources e = false := by
        cases h : inSources r.sources e with
        | false => rfl
        | true => exact absurd ((inSources_iff _ _).1 h) hnot
      have hall : containsAll ((s.st.uncommitted ++ [e]) ++ s.st.committed) r.sources
          = containsAll (s.st.uncommitted ++ s.st.committed) r.sources := by
        cases h1 : containsAll (s.st.uncommitted ++ s.st.committed) r.sources with
        | true =>
          exact containsAll_mono _ _ _ (fun x hx => (hmem x).2 (Or.inr hx)) h1
        | false =>
          cases h2 : containsAll ((s.st.uncommitted ++ [e]) ++ s.st.committed) r.sources with
          | false => rfl
          | true =>
            exfalso
            have : containsAll (s.st.uncommitted ++ s.st.committed) r.sources = true := by
              rw [containsAll_iff] at h2 ⊢
              intro id hid
              obtain ⟨x, hx, rfl⟩ := h2 id hid
              rcases (hmem x).1 hx with rfl | hx
              · exact absurd hid hnot
              · exact ⟨x, hx, rfl⟩
            rw [this] at h1; cases h1
      have hfilt : ((s.st.uncommitted ++ [e]) ++ s.st.committed).filter (inSources r.sources)
          = (s.st.uncommitted ++ s.st.committed).filter (inSources r.sources) := by
        simp [List.filter_append, hP]
      refine { srcs_ne := hr0.srcs_ne, srcs_lt := ?_, mwf := ?_, pendAll := ?_, pubC := hr0.pubC }
      · intro id hid
        have := hr0.srcs_lt id hid
        simp only [Sys.step]; omega
      · intro m hm
        obtain ⟨h1, h2, h3, h4⟩ := hr0.mwf m hm
        refine ⟨h1, h2, by simp only [Sys.step]; omega, ?_⟩
        intro x hx
        rw [hunc, hcom, hmem] at hx
        rcases hx with rfl | hx
        · simp only [e]; omega
        · exact h4 x hx
      · intro hc
        rw [hunc, hcom] at hc ⊢
        rw [hall] at hc
        rw [hfilt]
        exact hr0.pendAll hc
  · refine ⟨hR.1, ?_⟩
    have hde : docsAll s.st.queue e = docs := by
      rw [docsAll_of_cursor_end _ _ (Nat.le_refl _)]
      simp [liveDocsOf, e, liveDocs_replicate_true]
    have : pendDocs (s.step (.addSeg docs)).st
        = ((s.st.uncommitted.map (docsAll s.st.queue)).flatten ++ docs)
          ++ (s.st.committed.map (docsAll s.st.queue)).flatten := by
      have hq : (s.step (.addSeg docs)).st.queue = s.st.queue := rfl
      simp only [pendDocs, hunc, hcom, hq, List.map_append, List.flatten_append, List.map_cons,
        List.map_nil, List.flatten_cons, List.flatten_nil, List.append_nil]
      rw [hde]
    rw [this]
    simp only [Abs.step]
    have h2 : (pendDocs s.st) = (s.st.uncommitted.map (docsAll s.st.queue)).flatten
        ++ (s.st.committed.map (docsAll s.st.queue)).flatten := by
      simp [pendDocs]
    refine List.Perm.trans ?_ (List.Perm.append_right docs hR.2)
    rw [h2, List.append_assoc, List.append_assoc]
    exact List.Perm.append_left _ List.perm_append_comm

theorem nonEmpty_false_live (e : Entry) (h : nonEmpty e = false) : liveDocsOf e = [] := by
  unfold nonEmpty at h
  unfold liveDocsOf
  cases hl : liveDocs e.docs e.alive with
  | nil => rfl
  | cons a as => rw [hl] at h; simp at h

theorem flatten_filter_nonEmpty {β} (l : List Entry) (f : Entry → List β)
    (hf : ∀ e ∈ l, nonEmpty e = false → f e = []) :
    ((l.filter nonEmpty).map f).flatten = (l.map f).flatten := by
  induction l with
  | nil => rfl
  | cons e rest ih =>
    have ih' := ih (fun x hx => hf x (by simp [hx]))
    cases he : nonEmpty e with
    | true => simp [List.filter_cons, he, ih']
    | false => simp [List.filter_cons, he, ih', hf e (by simp) he]

theorem filter_filter_comm {α} (p q : α → Bool) (l : List α) :
    (l.filter p).filter q = (l.filter q).filter p := by
  rw [List.filter_filter, List.filter_filter]
  congr 1
  funext a
  exact Bool.and_comm _ _

/-- `remove_empty_segments`: committed segments without a live document leave the register and
meta.json; nothing a searcher or the next commit sees changes, and a running merge that had such
a segment among its sources becomes stale -/
theorem step_removeEmpty (s : Sys) (a : Abs) (hI : Inv s) (hR : Rel s a) :
    Inv (s.step .removeEmpty) ∧ Rel (s.step .removeEmpty) (a.step .removeEmpty) := by
  have hcom : (s.step .removeEmpty).st.committed = s.st.committed.filter nonEmpty := rfl
  have hpubl : (s.step .removeEmpty).st.published = s.st.published.filter nonEmpty := rfl
  have hunc : (s.step .removeEmpty).st.uncommitted = s.st.uncommitted := rfl
  have hq : (s.step .removeEmpty).st.queue = s.st.queue := rfl
  have hc0 : (s.step .removeEmpty).st.committedOpstamp = s.st.committedOpstamp := rfl
  have hmem : ∀ e, e ∈ s.st.uncommitted ++ s.st.committed.filter nonEmpty → e ∈ s.st.uncommitted ++ s.st.committed := by
    intro e he
    rw [List.mem_append] at he ⊢
    rcases he with he | he
    · exact Or.inl he
    · exact Or.inr (List.mem_filter.1 he).1
  have hlive : ∀ l : List Entry, ((l.filter nonEmpty).map liveDocsOf).flatten = (l.map liveDocsOf).flatten :=
    fun l => flatten_filter_nonEmpty l liveDocsOf (fun e _ h => nonEmpty_false_live e h)
  have hall : ∀ l : List Entry, ((l.filter nonEmpty).map (docsAll s.st.queue)).flatten
      = (l.map (docsAll s.st.queue)).flatten :=
    fun l => flatten_filter_nonEmpty l _ (fun e _ h => docsAll_nil_of_live_nil _ e (nonEmpty_false_live e h))
  have hpubd : pubDocs (s.step .removeEmpty).st = pubDocs s.st := by
    simp only [pubDocs, hpubl]; exact hlive _
  have hpend : pendDocs (s.step .removeEmpty).st = pendDocs s.st := by
    simp only [pendDocs, hunc, hcom, hq, List.map_append, List.flatten_append]
    rw [hall]
  constructor
  · refine { ops_lt := hI.ops_lt, c_lt := hI.c_lt, ops_ne := hI.ops_ne, wf := ?_, pwf := ?_,
             comD1 := ?_, comD2 := ?_, pubE := ?_, ids := ?_, pids := ?_, repoch := hI.repoch, run := ?_ }
    · intro e he
      rw [hunc, hcom] at he
      exact hI.wf e (hmem e he)
    · intro e he
      rw [hpubl] at he
      exact hI.pwf e (List.mem_filter.1 he).1
    · intro e he
      rw [hcom] at he
      exact hI.comD1 e (List.mem_filter.1 he).1
    · intro e he e' he'
      rw [hcom] at he he'
      exact hI.comD2 e (List.mem_filter.1 he).1 e' (List.mem_filter.1 he').1
    · rcases hI.pubE with h | h
      · left; rw [hcom, h]; rfl
      · right
        rw [hpubd, hcom, hlive]
        exact h
    · rw [hunc, hcom]
      exact hI.ids.sublist (((List.Sublist.refl _).append List.filter_sublist).map _)
    · rw [hpubl]
      exact hI.pids.sublist (List.filter_sublist.map _)
    · intro r hr hep
      have hr0 := hI.run r hr hep
      refine { srcs_ne := hr0.srcs_ne, srcs_lt := hr0.srcs_lt, mwf := ?_, pendAll := ?_, pubC := ?_ }
      · intro m hm
        obtain ⟨h1, h2, h3, h4⟩ := hr0.mwf m hm
        refine ⟨h1, h2, h3, ?_⟩
        intro e he
        rw [hunc, hcom] at he
        exact h4 e (hmem e he)
      · intro hc
        rw [hunc, hcom] at hc ⊢
        have hc' := containsAll_mono _ _ _ hmem hc
        rw [hq, List.filter_append, filter_filter_comm, List.map_append, List.flatten_append, hall,
          ← List.flatten_append, ← List.map_append, ← List.filter_append]
        exact hr0.pendAll hc'
      · intro hc
        rw [hcom] at hc ⊢
        have hc' := containsAll_mono _ _ _ (fun e he => (List.mem_filter.1 he).1) hc
        obtain ⟨h1, h2⟩ := hr0.pubC hc'
        rw [hq, hc0]
        constructor
        · rw [filter_filter_comm, hlive]
          exact h1
        · intro m hm e he
          exact h2 m hm e (List.mem_filter.1 he).1
  · exact ⟨by rw [hpubd]; exact hR.1, by rw [hpend]; exact hR.2⟩

theorem step_commit (s : Sys) (a : Abs) (hI : Inv s) (hR : Rel s a) :
    Inv (s.step .commit) ∧ Rel (s.step .commit) (a.step .commit) := by
  let reg := s.st.uncommitted ++ s.st.committed
  let all := reg.map fun e => advance s.st.queue e s.stamp
  have hq : (s.step .commit).st.queue = s.st.queue := rfl
  have hcom : (s.step .commit).st.committed = all := rfl
  have hunc : (s.step .commit).st.uncommitted = [] := rfl
  have hpub : (s.step .commit).st.published = all := rfl
  have hc' : (s.step .commit).st.committedOpstamp = s.stamp := rfl
  have hall : ∀ op ∈ s.st.queue, op.opstamp ≤ s.stamp := fun op hop => Nat.le_of_lt (hI.ops_lt op hop)
  have hmemall : ∀ x ∈ all, ∃ e ∈ reg, x = advance s.st.queue e s.stamp := by
    intro x hx
    obtain ⟨e, he, rfl⟩ := List.mem_map.1 hx
    exact ⟨e, he, rfl⟩
  have hdocs : ∀ l : List Entry, (∀ e ∈ l, e ∈ reg) →
      ((l.map fun e => advance s.st.queue e s.stamp).map (docsAll s.st.queue)).flatten
        = (l.map (docsAll s.st.queue)).flatten := by
    intro l hl
    rw [List.map_map]
    congr 1
    apply List.map_congr_left
    intro e he
    exact docsAll_advance _ _ _ (hI.wf e (hl e he)).1
  have hlive : ∀ l : List Entry, (∀ e ∈ l, e ∈ reg) →
      ((l.map fun e => advance s.st.queue e s.stamp).map liveDocsOf).flatten
        = (l.map (docsAll s.st.queue)).flatten := by
    intro l hl
    rw [List.map_map]
    congr 1
    apply List.map_congr_left
    intro e he
    exact liveDocsOf_advance_all _ _ _ (hI.wf e (hl e he)).1 hall
  have hpend : pendDocs (s.step .commit).st = pendDocs s.st := by
    simp only [pendDocs, hunc, hcom, hq, List.nil_append]
    exact hdocs reg (fun e he => he)
  have hpubd : pubDocs (s.step .commit).st = pendDocs s.st := by
    simp only [pubDocs, hpub]
    exact hlive reg (fun e he => he)
  constructor
  · refine { ops_lt := ?_, c_lt := ?_, ops_ne := ?_, wf := ?_, pwf := ?_, comD1 := ?_, comD2 := ?_,
             pubE := ?_, ids := ?_, pids := ?_, repoch := hI.repoch, run := ?_ }
    · intro op hop
      have := hI.ops_lt op hop
      simp only [Sys.step]; omega
    · simp only [Sys.step, commit]; omega
    · intro op hop
      have := hI.ops_lt op hop
      rw [hc']; omega
    · intro x hx
      rw [hunc, hcom, List.nil_append] at hx
      obtain ⟨e, he, rfl⟩ := hmemall x hx
      obtain ⟨h1, h2, h3⟩ := hI.wf e he
      exact ⟨advance_wf _ _ _ h1, advance_cursor_le _ _ _ h2, by simp only [Sys.step, advance_segId]; omega⟩
    · intro x hx
      rw [hpub] at hx
      obtain ⟨e, he, rfl⟩ := hmemall x hx
      obtain ⟨h1, _, h3⟩ := hI.wf e he
      exact ⟨advance_wf _ _ _ h1, by simp only [Sys.step, advance_segId]; omega⟩
    · intro x hx
      rw [hcom] at hx
      obtain ⟨e, _, rfl⟩ := hmemall x hx
      exact consumed_after_advance _ _ _
    · intro x hx y hy
      rw [hcom] at hx hy
      obtain ⟨e, he, rfl⟩ := hmemall x hx
      obtain ⟨e', he', rfl⟩ := hmemall y hy
      rw [advance_all_cursor _ _ _ (hI.wf e he).2.1 hall, advance_all_cursor _ _ _ (hI.wf e' he').2.1 hall]
    · right
      exact List.Perm.refl _
    · rw [hunc, hcom, List.nil_append, List.map_map]
      exact hI.ids
    · rw [hpub, List.map_map]
      exact hI.ids
    · intro r hr hep
      have hr0 := hI.run r hr hep
      have hcall : containsAll all r.sources = containsAll reg r.sources :=
        containsAll_map_advance reg _ _ _
      have hfilt : all.filter (inSources r.sources)
          = (reg.filter (inSources r.sources)).map fun e => advance s.st.queue e s.stamp :=
        filter_map_advance reg _ _ _
      have hsub : ∀ e ∈ reg.filter (inSources r.sources), e ∈ reg := fun e he => (List.mem_filter.1 he).1
      refine { srcs_ne := hr0.srcs_ne, srcs_lt := hr0.srcs_lt, mwf := ?_, pendAll := ?_, pubC := ?_ }
      · intro m hm
        obtain ⟨h1, h2, h3, h4⟩ := hr0.mwf m hm
        refine ⟨h1, h2, h3, ?_⟩
        intro x hx
        rw [hunc, hcom, List.nil_append] at hx
        obtain ⟨e, he, rfl⟩ := hmemall x hx
        exact h4 e he
      · intro hc
        rw [hunc, hcom, List.nil_append] at hc ⊢
        rw [hcall] at hc
        rw [hq, hfilt, hdocs _ hsub]
        exact hr0.pendAll hc
      · intro hc
        rw [hcom, hcall] at hc
        rw [hcom, hq, hc', hfilt, hlive _ hsub]
        constructor
        · rw [← hr0.pendAll hc]
          congr 1
          apply List.map_congr_left
          intro m hm
          exact liveDocsOf_advance_all _ _ _ (hr0.mwf m hm).1 hall
        · intro m hm x hx
          obtain ⟨e, he, rfl⟩ := hmemall x hx
          rw [advance_all_cursor _ _ _ (hr0.mwf m hm).2.1 hall,
            advance_all_cursor _ _ _ (hI.wf e he).2.1 hall]
  · constructor
    · rw [hpubd]; exact hR.2
    · rw [hpend]; exact hR.2

end TantivyModel.Merge
