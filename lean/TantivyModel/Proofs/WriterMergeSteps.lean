import TantivyModel.Proofs.WriterMergeInv
/-!
Preservation of `MInv` by the events that are not merges.
-/
namespace TantivyModel.Writer
open TantivyModel.WriterSpec

variable {α : Type} [DecidableEq α]

/-- the pairs of a merged segment are pairs of its (registered) sources, hence of the system -/
theorem merged_pairs_sub (s : WState α) (m : Merge α) (M : Seg α) (c : Nat)
    (hperm : List.Perm (segPairs M)
      (((srcsOf m.ids (s.uncommitted ++ s.committed)).flatMap segPairs).filter
        (fun p => !dead (s.log.take c) p))) :
    ∀ p ∈ segPairs M, p ∈ allPairs s := by
  intro p hp
  have h1 := (hperm.mem_iff.mp hp)
  have h2 := (List.mem_filter.mp h1).1
  exact regs_pairs_sub s p (srcsOf_pairs_sub _ _ p h2)

/-- `add` / `del` / `batch`: the queue grows by younger deletes -/
theorem minv_grow (s : WState α) (P C : List α) (hw : WInv s P C) (h : MInv s) (items : List (Item α))
    (extra : Nat) (channel' : List (List (α × Nat)))
    (hF8 : s.committed = [] ∨ ∀ del ∈ batchDels (stampItems s.stamper items), s.metas.opstamp < del.op) :
    MInv (growState s items extra channel') := by
  obtain ⟨h1, h2, h3, h4, h5, h6, h7, h8, h9, h10, h11⟩ := h
  refine ⟨h1, h2, h3, h4, h5, h6, h7, ?_, ?_, h10, h11⟩
  · intro m hm
    have old := h8 m hm
    show MergeGood (s.log ++ batchDels (stampItems s.stamper items)) s.uncommitted s.committed s.metas.opstamp m
    intro hp
    obtain ⟨c, hc, hr3, old'⟩ := old hp
    refine ⟨c, by simp; omega, by rw [List.take_append_of_le_length hc]; exact hr3, ?_⟩
    rw [List.take_append_of_le_length hc]
    cases hr : m.result with
    | none =>
      simp only [hr] at old' ⊢
      exact old'
    | some M =>
      simp only [hr] at old' ⊢
      obtain ⟨o0, o1, o2, o3⟩ := old'
      refine ⟨o0, ?_, o2, o3⟩
      apply segOK_append _ _ _ o1
      intro del hdel d hd
      have hpair := merged_pairs_sub s m M c o3 _ (mem_segPairs hd)
      have := hw.pairsLt _ hpair
      have := (batchDels_bounds items s.stamper del hdel).1
      simp at *; omega
  · intro sg hsg
    show CommittedAt (s.log ++ batchDels (stampItems s.stamper items)) s.metas.opstamp sg
    have hsg' : sg ∈ s.committed := hsg
    have old := h9 sg hsg'
    have hcur : sg.cursor ≤ s.log.length := (hw.segs sg (List.mem_append_right _ hsg')).cur
    constructor
    · rw [List.take_append_of_le_length hcur]; exact old.1
    · rw [List.drop_append_of_le_length hcur]
      intro del hdel
      rcases List.mem_append.mp hdel with hd | hd
      · exact old.2 del hd
      · rcases hF8 with he | hb
        · rw [he] at hsg'; simp at hsg'
        · exact hb del hd

/-- ids under a change of one worker -/
theorem workerIds_set_count (ws : List (Worker α)) (w : Nat) (wk x : Worker α) (hwk : ws[w]? = some wk) (i : Nat) :
    ((ws.set w x).flatMap workerIds).count i + (workerIds wk).count i
      = (ws.flatMap workerIds).count i + (workerIds x).count i :=
  count_flatMap_set workerIds ws w wk x hwk i

def recvIdleState (s : WState α) (w : Nat) (rest : List (List (α × Nat))) (fl c : Nat) (docs : List (SDoc α)) :
    WState α :=
  { s with channel := rest, flushed := fl, nextId := s.nextId + 1,
           workers := s.workers.set w { cur := c, seg := some { id := s.nextId, docs := docs, cursor := c } } }

/-- `recv` by an idle worker: a fresh id -/
theorem minv_recv_idle (s : WState α) (h : MInv s) (w : Nat) (wk : Worker α) (rest : List (List (α × Nat)))
    (fl c : Nat) (docs : List (SDoc α))
    (hwk : s.workers[w]? = some wk) (hseg : wk.seg = none) :
    MInv (recvIdleState s w rest fl c docs) := by
  obtain ⟨h1, h2, h3, h4, h5, h6, h7, h8, h9, h10, h11⟩ := h
  have hcnt := fun i => workerIds_set_count s.workers w wk
    { cur := c, seg := some { id := s.nextId, docs := docs, cursor := c } } hwk i
  have e1 : workerIds wk = [] := by simp [workerIds, hseg]
  have e2 : workerIds ({ cur := c, seg := some { id := s.nextId, docs := docs, cursor := c } } : Worker α) = [s.nextId] := by
    simp [workerIds]
  have hperm : List.Perm (allIds (recvIdleState s w rest fl c docs))
      (s.nextId :: allIds s) := by
    apply List.perm_iff_count.mpr
    intro i
    have := hcnt i
    rw [e1, e2] at this
    simp only [allIds, pipeIds, regs, recvIdleState, List.count_append, List.count_cons, List.count_nil] at this ⊢
    omega
  have hfresh : s.nextId ∉ allIds s := fun hmem => by have := h2 _ hmem; omega
  have hpipe : ∀ i, i ∈ pipeIds (recvIdleState s w rest fl c docs)
      → i = s.nextId ∨ i ∈ pipeIds s := by
    intro i hi
    have hc := hcnt i
    rw [e1, e2] at hc
    simp only [pipeIds, recvIdleState, List.mem_append] at hi ⊢
    rcases hi with (hi | hi) | hi
    · by_cases he : i = s.nextId
      · exact Or.inl he
      · right; left; left
        have : ((s.workers.set w { cur := c, seg := some { id := s.nextId, docs := docs, cursor := c } }).flatMap workerIds).count i > 0 :=
          List.count_pos_iff.mpr hi
        have hz : ([s.nextId] : List Nat).count i = 0 := by
          simp [List.count_cons, Ne.symm he]
        rw [hz] at hc
        simp only [List.count_nil] at hc
        exact List.count_pos_iff.mp (by omega)
    · exact Or.inr (Or.inl (Or.inr hi))
    · exact Or.inr (Or.inr hi)
  refine ⟨?_, ?_, h3, ?_, ?_, h6, ?_, h8, h9, h10, h11⟩
  · exact (hperm.nodup_iff).mpr (List.nodup_cons.mpr ⟨hfresh, h1⟩)
  · intro i hi
    have := hperm.mem_iff.mp hi
    rcases List.mem_cons.mp this with he | hm
    · show i < s.nextId + 1; omega
    · have := h2 i hm; show i < s.nextId + 1; omega
  · intro m hm i hi; have := h4 m hm i hi; show i < s.nextId + 1; omega
  · intro m hm i hi hpi
    rcases hpipe i hpi with rfl | hold
    · have := h4 m hm _ hi; omega
    · exact h5 m hm i hi hold
  · intro sg hsg; have := h7 sg hsg; show sg.id < s.nextId + 1; omega

/-- a step that only permutes the ids of the segments outside the registers -/
theorem minv_pipe_perm (s s' : WState α) (h : MInv s) (hperm : List.Perm (pipeIds s') (pipeIds s))
    (hu : s'.uncommitted = s.uncommitted) (hc : s'.committed = s.committed)
    (hm : s'.merges = s.merges) (hmeta : s'.metas = s.metas) (hn : s'.nextId = s.nextId) (hl : s'.log = s.log) :
    MInv s' := by
  have hr : regs s' = regs s := by simp only [regs, hu, hc]
  have ha : List.Perm (allIds s') (allIds s) := by
    simp only [allIds, hr]; exact List.Perm.append_right _ hperm
  obtain ⟨h1, h2, h3, h4, h5, h6, h7, h8, h9, h10, h11⟩ := h
  refine ⟨ha.nodup_iff.mpr h1, ?_, by rw [hm]; exact h3, by rw [hm, hn]; exact h4, ?_, by rw [hmeta]; exact h6,
    by rw [hmeta, hn]; exact h7, by rw [hm, hl, hu, hc, hmeta]; exact h8, by rw [hc, hl, hmeta]; exact h9,
    by rw [hc, hmeta]; exact h10, ?_⟩
  · intro i hi; rw [hn]; exact h2 i (ha.mem_iff.mp hi)
  · rw [hm]; intro m hm' i hi hpi; exact h5 m hm' i hi (hperm.mem_iff.mp hpi)
  · rw [hc]; simpa [published, hmeta] using h11

def cutState (s : WState α) (w : Nat) (wk : Worker α) (fl : Nat) (f : Seg α) : WState α :=
  { s with workers := s.workers.set w { wk with seg := none }, flushed := fl, inflight := s.inflight ++ [f] }

/-- `cut`: the segment keeps its id on the way to the finished list -/
theorem minv_cut (s : WState α) (h : MInv s) (w : Nat) (wk : Worker α) (sg f : Seg α) (fl : Nat)
    (hwk : s.workers[w]? = some wk) (hseg : wk.seg = some sg) (hid : f.id = sg.id) :
    MInv (cutState s w wk fl f) := by
  refine minv_pipe_perm s (cutState s w wk fl f) h ?_ rfl rfl rfl rfl rfl rfl
  apply List.perm_iff_count.mpr
  intro i
  have hc := workerIds_set_count s.workers w wk { wk with seg := none } hwk i
  have e1 : workerIds wk = [sg.id] := by simp [workerIds, hseg]
  have e2 : workerIds ({ wk with seg := none } : Worker α) = [] := by simp [workerIds]
  rw [e1, e2] at hc
  simp only [List.count_nil, Nat.add_zero] at hc
  simp only [pipeIds, cutState, segIds, List.map_append, List.map_cons, List.map_nil, List.count_append, hid]
  omega

def registerState (s : WState α) (sg : Seg α) (rest : List (Seg α)) : WState α :=
  { s with inflight := rest, uncommitted := s.uncommitted ++ [sg] }

theorem present_drop_fresh (ids : List Nat) (U C : List (Seg α)) (sg : Seg α) (hf : sg.id ∉ ids)
    (hp : present ids ((U ++ [sg]) ++ C)) : present ids (U ++ C) := by
  intro i hi
  obtain ⟨x, hx, he⟩ := hp i hi
  simp only [List.mem_append, List.mem_singleton] at hx
  rcases hx with (hx | rfl) | hx
  · exact ⟨x, by simp [hx], he⟩
  · exact absurd (he ▸ hi) hf
  · exact ⟨x, by simp [hx], he⟩

theorem srcsOf_drop_fresh (ids : List Nat) (U C : List (Seg α)) (sg : Seg α) (hf : sg.id ∉ ids) :
    srcsOf ids ((U ++ [sg]) ++ C) = srcsOf ids (U ++ C) := by
  have : ids.contains sg.id = false := by simpa using hf
  simp [srcsOf, List.filter_append, List.filter_cons, hf]

/-- `register`: the finished segment enters the uncommitted register; no merge in flight names it -/
theorem minv_register (s : WState α) (h : MInv s) (sg : Seg α) (rest : List (Seg α)) (hi : s.inflight = sg :: rest) :
    MInv (registerState s sg rest) := by
  obtain ⟨h1, h2, h3, h4, h5, h6, h7, h8, h9, h10, h11⟩ := h
  have hperm : List.Perm (allIds (registerState s sg rest)) (allIds s) := by
    apply List.perm_iff_count.mpr
    intro i
    simp only [allIds, pipeIds, regs, registerState, segIds, hi, List.map_append, List.map_cons, List.map_nil,
      List.count_append, List.count_cons, List.count_nil]
    omega
  have hsub : ∀ i, i ∈ pipeIds (registerState s sg rest) → i ∈ pipeIds s := by
    intro i hi'
    simp only [pipeIds, registerState, segIds, hi, List.map_cons, List.mem_append, List.mem_cons] at hi' ⊢
    rcases hi' with (hh | hh) | hh
    · exact Or.inl (Or.inl hh)
    · exact Or.inl (Or.inr (Or.inr hh))
    · exact Or.inr hh
  have hsgpipe : sg.id ∈ pipeIds s := by
    simp [pipeIds, segIds, hi]
  refine ⟨hperm.nodup_iff.mpr h1, fun i hi' => h2 i (hperm.mem_iff.mp hi'), h3, h4,
    fun m hm i hi' hp => h5 m hm i hi' (hsub i hp), h6, h7, ?_, h9, h10, h11⟩
  intro m hm
  have hf : sg.id ∉ m.ids := fun hmem => h5 m hm _ hmem hsgpipe
  have old := h8 m hm
  show MergeGood s.log (s.uncommitted ++ [sg]) s.committed s.metas.opstamp m
  intro hp
  have old' := old (present_drop_fresh m.ids _ _ sg hf hp)
  simp only [srcsOf_drop_fresh m.ids _ _ sg hf]
  exact old'

theorem aliveDocs_reload (sg : Seg α) : aliveDocs (reload sg) = aliveDocs sg := by
  simp [aliveDocs, reload, List.filter_filter]

/-- `rollback`: a new writer over `meta.json`; no merge survives -/
theorem minv_rollback (s : WState α) (P C : List α) (hw : WInv s P C) (h : MInv s) : MInv (rollbackState s) := by
  obtain ⟨h1, h2, h3, h4, h5, h6, h7, h8, h9, h10, h11⟩ := h
  have hwk : (rollbackState s).workers.flatMap workerIds = [] := by
    apply flatMap_nil_of
    intro w hw'
    simp only [rollbackState, List.mem_map] at hw'
    obtain ⟨_, _, rfl⟩ := hw'
    rfl
  have hall : allIds (rollbackState s) = segIds s.metas.segs := by
    simp only [allIds, pipeIds, hwk, regs]
    simp [rollbackState, segIds, resultIds, reload, List.map_map, Function.comp_def]
  refine ⟨by rw [hall]; exact h6, ?_, by intro m hm; simp [rollbackState] at hm,
    by intro m hm; simp [rollbackState] at hm, by intro m hm; simp [rollbackState] at hm, h6, h7,
    by intro m hm; simp [rollbackState] at hm, ?_, ?_, ?_⟩
  · intro i hi
    rw [hall] at hi
    obtain ⟨sg, hsg, rfl⟩ := List.mem_map.mp hi
    exact h7 sg hsg
  · intro sg _
    show CommittedAt ([] : List (DelOp α)) _ sg
    exact ⟨by simp, by simp⟩
  · intro a ha d hd
    simp only [rollbackState, List.mem_map] at ha
    obtain ⟨sg, hsg, rfl⟩ := ha
    simp only [reload, List.mem_filter] at hd
    exact hw.metaLt sg hsg d hd.1
  · right
    show List.Perm ((s.metas.segs.map reload).flatMap aliveDocs) (published s)
    simp only [List.flatMap_map, aliveDocs_reload, published]
    exact List.Perm.refl _

/-- clean `delete_all_documents`: both registers emptied -/
theorem minv_deleteAll (s : WState α) (h : MInv s) : MInv (deleteAllState s) := by
  obtain ⟨h1, h2, h3, h4, h5, h6, h7, h8, h9, h10, h11⟩ := h
  have hsub : List.Sublist (allIds (deleteAllState s)) (allIds s) := by
    simp only [allIds, regs, deleteAllState, segIds, List.map_nil, List.append_nil, pipeIds]
    exact List.sublist_append_left _ _
  refine ⟨hsub.nodup h1, fun i hi => h2 i (hsub.subset hi), h3, h4, h5, h6, h7, ?_,
    by intro sg hsg; simp [deleteAllState] at hsg, by intro sg hsg; simp [deleteAllState] at hsg, Or.inl rfl⟩
  intro m hm
  show MergeGood s.log [] [] s.metas.opstamp m
  intro hp
  exfalso
  have hne := h3 m hm
  cases hids : m.ids with
  | nil => exact hne hids
  | cons i is =>
    obtain ⟨x, hx, _⟩ := hp i (by simp [hids])
    simp at hx

theorem advance_id (log : List (DelOp α)) (t : Nat) (sg : Seg α) : (advance log t sg).id = sg.id := rfl

/-- in a register with unique ids a segment is determined by its id -/
theorem eq_of_id_eq (reg : List (Seg α)) (hn : (segIds reg).Nodup) (a b : Seg α) (ha : a ∈ reg) (hb : b ∈ reg)
    (h : a.id = b.id) : a = b := by
  have h1 := lookup_of_mem reg hn a ha
  have h2 := lookup_of_mem reg hn b hb
  rw [h] at h1
  exact Option.some.inj (h1.symm.trans h2)

/-- `commit`: both registers advanced to the commit opstamp and published -/
theorem minv_commit (s : WState α) (P C : List α) (hw : WInv s P C) (h : MInv s) (hq : quiescent s = true)
    (p : Option Nat) : MInv (commitState s p) := by
  obtain ⟨hch, hwk, hin⟩ := quiescent_iff s hq
  obtain ⟨h1, h2, h3, h4, h5, h6, h7, h8, h9, h10, h11⟩ := h
  let R := s.uncommitted ++ s.committed
  let K := (R.map (advance s.log s.stamper)).filter hasAlive
  have hKc : (commitState s p).committed = K := rfl
  have hKu : (commitState s p).uncommitted = [] := rfl
  have hKm : (commitState s p).metas.segs = K := rfl
  have hRn : (segIds R).Nodup := by
    have : List.Sublist (segIds R) (allIds s) := by
      simp only [allIds, regs]; exact List.sublist_append_right _ _
    exact this.nodup h1
  have hKsub : List.Sublist (segIds K) (segIds R) := by
    have e : segIds R = segIds (R.map (advance s.log s.stamper)) := by
      simp [segIds, List.map_map, Function.comp_def, advance_id]
    rw [e]
    exact List.Sublist.map _ (List.filter_sublist)
  have hwids : (commitState s p).workers.flatMap workerIds = s.workers.flatMap workerIds := by
    have a : (commitState s p).workers.flatMap workerIds = [] := by
      apply flatMap_nil_of
      intro w hw'
      simp only [commitState, saveMetas, List.mem_map] at hw'
      obtain ⟨_, _, rfl⟩ := hw'
      rfl
    have b : s.workers.flatMap workerIds = [] :=
      flatMap_nil_of _ _ (fun w hw' => by simp [workerIds, hwk w hw'])
    rw [a, b]
  have hpipe : pipeIds (commitState s p) = pipeIds s := by
    simp only [pipeIds, hwids]; rfl
  have hallsub : List.Sublist (allIds (commitState s p)) (allIds s) := by
    simp only [allIds, hpipe, regs, hKu, hKc, List.nil_append]
    exact List.Sublist.append (List.Sublist.refl _) hKsub
  have hle : ∀ del ∈ s.log, del.op ≤ s.stamper := fun del hd => Nat.le_of_lt (hw.logLt del hd)
  have hok : ∀ sg ∈ R, SegOK s.log sg := fun sg hsg => hw.segs sg (by
    simp only [R, List.mem_append] at hsg ⊢
    rcases hsg with h' | h' <;> simp [h'])
  have hKmem : ∀ k ∈ K, ∃ x ∈ R, k = advance s.log s.stamper x := by
    intro k hk
    obtain ⟨x, hx, rfl⟩ := List.mem_map.mp (List.mem_filter.mp hk).1
    exact ⟨x, hx, rfl⟩
  refine ⟨hallsub.nodup h1, fun i hi => h2 i (hallsub.subset hi), h3, h4, by rw [hpipe]; exact h5,
    by rw [hKm]; exact hKsub.nodup hRn, ?_, ?_, ?_, ?_, ?_⟩
  · intro sg hsg
    rw [hKm] at hsg
    exact h2 sg.id (hallsub.subset (by
      simp only [allIds, regs, hKu, hKc, List.nil_append]
      exact List.mem_append_right _ (mem_segIds hsg)))
  · -- merges in flight
    intro m hm
    show MergeGood s.log [] K s.stamper m
    intro hp
    simp only [List.nil_append] at hp ⊢
    have hpR : present m.ids R := by
      intro i hi
      obtain ⟨k, hk, he⟩ := hp i hi
      obtain ⟨x, hx, rfl⟩ := hKmem k hk
      exact ⟨x, hx, he⟩
    -- no source was dropped as empty
    have hkeep : ∀ x ∈ srcsOf m.ids R, hasAlive (advance s.log s.stamper x) = true := by
      intro x hx
      have hx' := List.mem_filter.mp hx
      have hid : x.id ∈ m.ids := by simpa using hx'.2
      obtain ⟨k, hk, he⟩ := hp x.id hid
      obtain ⟨y, hy, rfl⟩ := hKmem k hk
      have : y = x := eq_of_id_eq R hRn y x hy hx'.1 he
      rw [← this]
      exact (List.mem_filter.mp hk).2
    have hsrc : srcsOf m.ids K = (srcsOf m.ids R).map (advance s.log s.stamper) := by
      simp only [srcsOf, K, List.filter_filter, List.filter_map, Function.comp_def, advance_id]
      congr 1
      apply List.filter_congr
      intro x hx
      by_cases hc : m.ids.contains x.id = true
      · have := hkeep x (List.mem_filter.mpr ⟨hx, hc⟩)
        simp [hc, this]
      · have hc' : x.id ∉ m.ids := by simpa using hc
        simp [hc']
    have hpairs : (srcsOf m.ids K).flatMap segPairs = (srcsOf m.ids R).flatMap segPairs := by
      rw [hsrc, List.flatMap_map]
      simp only [segPairs_advance]
    obtain ⟨c, hc, _, old⟩ := h8 m hm hpR
    rw [hpairs]
    exact ⟨c, hc, fun _ del hdel => hw.logLt del ((List.take_sublist _ _).subset hdel), old⟩
  · intro k hk
    rw [hKc] at hk
    obtain ⟨x, hx, rfl⟩ := hKmem k hk
    obtain ⟨hcur, _⟩ := advance_full s.log s.stamper x (hok x hx) hle
    show CommittedAt s.log s.stamper _
    constructor
    · rw [hcur, List.take_length]; exact hw.logLt
    · rw [hcur, List.drop_length]; simp
  · intro k hk d hd
    rw [hKc] at hk
    obtain ⟨x, hx, rfl⟩ := hKmem k hk
    have hpair : (d.doc, d.op) ∈ segPairs x := by
      rw [← segPairs_advance s.log s.stamper x]; exact mem_segPairs hd
    have : (d.doc, d.op) ∈ allPairs s :=
      regs_pairs_sub s _ (List.mem_flatMap.mpr ⟨x, hx, hpair⟩)
    exact hw.pairsLt _ this
  · right
    show List.Perm (K.flatMap aliveDocs) (K.flatMap aliveDocs)
    exact List.Perm.refl _

end TantivyModel.Writer
