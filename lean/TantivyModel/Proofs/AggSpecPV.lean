import TantivyModel.Proofs.AggSpecEq
/-!
C14 helper lemmas for the hypothesis-free refinement `finalize (collect docs) = evalAggPV docs`:
what `bump` builds when a key is listed several times, and what the fold then holds per key.
-/
namespace TantivyModel.Agg

section pv
variable {M : Type} [AddOp M] [LawfulAddOp M]

/-- what `c` bumps of document `d` leave under a key -/
def bumpVal (sub : Req) (d : Doc) (c : Nat) : Option (Nat × Inter M sub) :=
  if c = 0 then Option.none else some (c, collect sub (List.replicate c d))

theorem bumpVal_succ (sub : Req) (d : Doc) (c : Nat) :
    optMerge (entryMerge (merge sub)) (some (1, collectDoc (M := M) sub d)) (bumpVal sub d c)
      = bumpVal sub d (c + 1) := by
  unfold bumpVal
  by_cases h : c = 0
  · subst h
    simp only [if_true, optMerge, Nat.zero_add, Nat.add_one_ne_zero, if_false, List.replicate]
    rw [collect_single]
  · simp only [h, if_false, optMerge, entryMerge, Nat.add_one_ne_zero, List.replicate_succ]
    rw [collect_cons, Nat.add_comm]

theorem bump_get_pv_aux (sub : Req) (d : Doc) (ks : List Int) (m0 : KMap (Nat × Inter M sub)) (k : Int) :
    (ks.foldl (fun m k' => KMap.merge (entryMerge (merge sub)) m (KMap.single k' (1, collectDoc sub d))) m0).get k
      = optMerge (entryMerge (merge sub)) (m0.get k) (bumpVal sub d (ks.count k)) := by
  induction ks generalizing m0 with
  | nil => simp [bumpVal, optMerge_none_right]
  | cons k' rest ih =>
    simp only [List.foldl_cons]
    rw [ih]
    simp only [KMap.merge, KMap.single]
    by_cases hk : k = k'
    · subst hk
      simp only [if_true, List.count_cons_self]
      rw [optMerge_assoc _ (entryMerge_assoc _ (merge_assoc sub)), bumpVal_succ]
    · have hne : (k' == k) = false := by simpa using (fun h : k' = k => hk h.symm)
      simp only [hk, if_false, optMerge_none_right, List.count_cons, hne, Bool.false_eq_true, Nat.add_zero]

theorem bump_get_pv (sub : Req) (d : Doc) (ks : List Int) (k : Int) :
    (bump (merge (M := M) sub) ks (collectDoc sub d)).get k = bumpVal sub d (ks.count k) := by
  unfold bump
  rw [bump_get_pv_aux]
  simp [KMap.empty, optMerge]

theorem repDocs_cons (keysOf : Doc → List Int) (k : Int) (d : Doc) (ds : List Doc) :
    repDocs keysOf k (d :: ds) = List.replicate ((keysOf d).count k) d ++ repDocs keysOf k ds := by
  simp [repDocs, List.flatMap_cons]

/-- the key map after collecting `docs`, for EVERY input: under key `k` the number of values
falling on `k` and the collection of the sub-request over one copy of the document per value -/
theorem collectB_spec_pv (sub : Req) (keysOf : Doc → List Int) (docs : List Doc) :
    (collectB (M := M) sub keysOf docs).hull = hullOfList (docs.flatMap keysOf)
      ∧ ∀ k, (collectB (M := M) sub keysOf docs).get k
          = if (repDocs keysOf k docs).isEmpty then Option.none
            else some ((repDocs keysOf k docs).length, collect sub (repDocs keysOf k docs)) := by
  induction docs with
  | nil => exact ⟨rfl, fun k => rfl⟩
  | cons d ds ih =>
    obtain ⟨ihh, ihg⟩ := ih
    rw [collectB_cons]
    constructor
    · simp only [KMap.merge, List.flatMap_cons]
      rw [hullOfList_append, bump_hull, ihh]
    · intro k
      simp only [KMap.merge]
      rw [bump_get_pv, ihg k, repDocs_cons]
      unfold bumpVal
      by_cases hc : (keysOf d).count k = 0
      · simp only [hc, if_true, List.replicate, List.nil_append, optMerge]
      · have hne : (List.replicate ((keysOf d).count k) d ++ repDocs keysOf k ds).isEmpty = false := by
          cases hr : List.replicate ((keysOf d).count k) d with
          | nil => exact absurd (by simpa using hr) hc
          | cons _ _ => rfl
        simp only [hc, if_false, hne, Bool.false_eq_true]
        by_cases he : (repDocs keysOf k ds).isEmpty
        · have h0 : repDocs keysOf k ds = [] := by simpa using he
          rw [h0]
          simp only [List.isEmpty_nil, if_true, optMerge, List.append_nil, List.length_replicate]
        · simp only [he, Bool.false_eq_true, if_false, optMerge, entryMerge, List.length_append,
            List.length_replicate]
          rw [collect_append]

theorem repDocs_isEmpty (keysOf : Doc → List Int) (k : Int) (docs : List Doc) :
    (repDocs keysOf k docs).isEmpty = !(docs.any (fun d => (keysOf d).contains k)) := by
  induction docs with
  | nil => rfl
  | cons d ds ih =>
    rw [repDocs_cons]
    by_cases hc : (keysOf d).contains k
    · have hpos : (keysOf d).count k ≠ 0 := by
        have : k ∈ keysOf d := by simpa using hc
        exact Nat.pos_iff_ne_zero.1 (List.count_pos_iff.2 this)
      have hne : (List.replicate ((keysOf d).count k) d ++ repDocs keysOf k ds).isEmpty = false := by
        cases hr : List.replicate ((keysOf d).count k) d with
        | nil => exact absurd (by simpa using hr) hpos
        | cons _ _ => rfl
      rw [hne]
      simp only [List.any_cons, hc, Bool.true_or, Bool.not_true]
    · have h0 : (keysOf d).count k = 0 := by
        have : k ∉ keysOf d := by simpa using hc
        exact List.count_eq_zero.2 this
      have hc' : (keysOf d).contains k = false := by simpa using hc
      simp only [h0, List.replicate, List.nil_append, List.any_cons, hc', Bool.false_or]
      exact ih

theorem bucket_eq_pv (sub : Req) (keysOf : Doc → List Int) (docs : List Doc)
    (ih : ∀ ds : List Doc, finalize sub (collect (M := M) sub ds) = evalAggPV M sub ds) (k : Int) :
    (match (collectB (M := M) sub keysOf docs).get k with
      | some e => (k, e.1, finalize sub e.2)
      | Option.none => (k, 0, finalize sub (empty sub)))
      = (k, (repDocs keysOf k docs).length, evalAggPV M sub (repDocs keysOf k docs)) := by
  rw [(collectB_spec_pv sub keysOf docs).2 k]
  by_cases he : (repDocs keysOf k docs).isEmpty
  · have h0 : repDocs keysOf k docs = [] := by simpa using he
    simp only [he, if_true]
    have := ih []
    rw [collect_nil] at this
    rw [h0, this]
    rfl
  · simp only [he, Bool.false_eq_true, if_false]
    rw [ih]

theorem entries_eq_pv (sub : Req) (keysOf : Doc → List Int) (docs : List Doc)
    (ih : ∀ ds : List Doc, finalize sub (collect (M := M) sub ds) = evalAggPV M sub ds) :
    ((collectB (M := M) sub keysOf docs).entries.map fun e => (e.1, e.2.1, finalize sub e.2.2))
      = ((spanOf (hullOfList (docs.flatMap keysOf))).filter
            (fun k => docs.any (fun d => (keysOf d).contains k))).map
          (fun k => (k, (repDocs keysOf k docs).length, evalAggPV M sub (repDocs keysOf k docs))) := by
  unfold KMap.entries
  rw [(collectB_spec_pv sub keysOf docs).1]
  apply filterMap_map_eq
  intro k
  have hspec := (collectB_spec_pv (M := M) sub keysOf docs).2 k
  have hany := repDocs_isEmpty keysOf k docs
  constructor
  · intro hq
    have he : (repDocs keysOf k docs).isEmpty = false := by rw [hany, hq]; rfl
    rw [he] at hspec
    simp only [Bool.false_eq_true, if_false] at hspec
    exact ⟨_, hspec, by simp only [ih]⟩
  · intro hq
    have he : (repDocs keysOf k docs).isEmpty = true := by rw [hany, hq]; rfl
    rw [he] at hspec
    simpa using hspec

/-- **what collecting and finalising computes, for every request and every document list** -/
theorem finalize_collect_pv : ∀ (r : Req) (docs : List Doc),
    finalize r (collect (M := M) r docs) = evalAggPV M r docs
  | .none, _ => rfl
  | .both a b, docs => by
    rw [collect_both]
    show (finalize a (collect a docs), finalize b (collect b docs)) = (evalAggPV M a docs, evalAggPV M b docs)
    rw [finalize_collect_pv a docs, finalize_collect_pv b docs]
  | .metric f missing, docs => by
    rw [collect_metric]; rfl
  | .filter f v sub, docs => by
    rw [collect_filter]
    show (_, finalize sub (collect sub (docs.filter (filterMatch f v)))) = (_, evalAggPV M sub (docs.filter (filterMatch f v)))
    rw [finalize_collect_pv sub _]
  | .range f cuts sub, docs => by
    rw [collect_range]
    show (intSpan 0 cuts.length).map _ = (intSpan 0 cuts.length).map _
    apply List.map_congr_left
    intro k _
    exact bucket_eq_pv sub (rangeIdxs f cuts) docs (fun ds => finalize_collect_pv sub ds) k
  | .hist p sub, docs => by
    have ih : ∀ ds : List Doc, finalize sub (collect (M := M) sub ds) = evalAggPV M sub ds :=
      fun ds => finalize_collect_pv sub ds
    rw [collect_hist]
    by_cases hm : p.minDocCount = 0
    · show (if p.minDocCount = 0 then _ else _) = (if p.minDocCount = 0 then _ else _)
      simp only [hm, if_true]
      rw [(collectB_spec_pv sub (histPoss p) docs).1]
      apply List.map_congr_left
      intro k _
      exact bucket_eq_pv sub (histPoss p) docs ih k
    · show (if p.minDocCount = 0 then _ else _) = (if p.minDocCount = 0 then _ else _)
      simp only [hm, if_false]
      rw [entries_eq_pv sub (histPoss p) docs ih]
      apply filter_map_filter
      intro k hk
      have he : (repDocs (histPoss p) k docs).isEmpty = true := by
        rw [repDocs_isEmpty, hk]; rfl
      have h0 : repDocs (histPoss p) k docs = [] := by simpa using he
      simp only [h0, List.length_nil]
      simp; omega
  | .topHits f addr k desc, docs => by
    rw [collect_topHits]; rfl
  | .composite srcs size after sub, docs => by
    have ih : ∀ ds : List Doc, finalize sub (collect (M := M) sub ds) = evalAggPV M sub ds :=
      fun ds => finalize_collect_pv sub ds
    rw [collect_composite]
    show compPage size after _ = compPage size after _
    rw [entries_eq_pv sub (compKeys srcs) docs ih]
  | .terms p sub, docs => by
    have ih : ∀ ds : List Doc, finalize sub (collect (M := M) sub ds) = evalAggPV M sub ds :=
      fun ds => finalize_collect_pv sub ds
    rw [collect_terms]
    show termsFinal p _ 0 0 = termsFinal p _ 0 0
    rw [entries_eq_pv sub (termKeys p) docs ih]

end pv

/-! ### under `DocOK` the two specifications coincide -/

theorem repDocs_eq_filter (keysOf : Doc → List Int) (k : Int) (docs : List Doc)
    (hnd : ∀ d ∈ docs, (keysOf d).Nodup) :
    repDocs keysOf k docs = docs.filter (fun d => (keysOf d).contains k) := by
  induction docs with
  | nil => rfl
  | cons d ds ih =>
    rw [repDocs_cons, ih (fun x hx => hnd x (List.mem_cons_of_mem _ hx)),
      List.Nodup.count (hnd d (List.mem_cons_self))]
    by_cases hm : k ∈ keysOf d
    · have hc : (keysOf d).contains k = true := by simpa using hm
      simp only [hm, if_true, List.replicate, List.filter_cons, hc, List.cons_append, List.nil_append]
    · have hc : (keysOf d).contains k = false := by simpa using hm
      simp only [hm, if_false, List.replicate, List.filter_cons, hc, List.nil_append, Bool.false_eq_true]

section bridge
variable {M : Type} [AddOp M]

theorem evalAggPV_eq_evalAgg : ∀ (r : Req) (docs : List Doc), (∀ d ∈ docs, DocOK r d) →
    evalAggPV M r docs = evalAgg M r docs
  | .none, _, _ => rfl
  | .both a b, docs, h => by
    show (evalAggPV M a docs, evalAggPV M b docs) = (evalAgg M a docs, evalAgg M b docs)
    rw [evalAggPV_eq_evalAgg a docs (fun d hd => (h d hd).1), evalAggPV_eq_evalAgg b docs (fun d hd => (h d hd).2)]
  | .metric _ _, _, _ => rfl
  | .topHits _ _ _ _, _, _ => rfl
  | .filter f v sub, docs, h => by
    show (_, evalAggPV M sub (docs.filter (filterMatch f v))) = (_, evalAgg M sub (docs.filter (filterMatch f v)))
    rw [evalAggPV_eq_evalAgg sub _ (docOK_filter _ (fun d hd => h d hd))]
  | .range f cuts sub, docs, h => by
    show (intSpan 0 cuts.length).map _ = (intSpan 0 cuts.length).map _
    apply List.map_congr_left
    intro k _
    simp only []
    rw [repDocs_eq_filter (rangeIdxs f cuts) k docs (fun d hd => (h d hd).1),
      evalAggPV_eq_evalAgg sub _ (docOK_filter _ (fun d hd => (h d hd).2))]
  | .hist p sub, docs, h => by
    have hb : ∀ k, (k, (repDocs (histPoss p) k docs).length, evalAggPV M sub (repDocs (histPoss p) k docs))
        = (k, (docs.filter (fun d => (histPoss p d).contains k)).length,
            evalAgg M sub (docs.filter (fun d => (histPoss p d).contains k))) := by
      intro k
      rw [repDocs_eq_filter (histPoss p) k docs (fun d hd => (h d hd).1),
        evalAggPV_eq_evalAgg sub _ (docOK_filter _ (fun d hd => (h d hd).2))]
    show (if p.minDocCount = 0 then _ else _) = (if p.minDocCount = 0 then _ else _)
    by_cases hm : p.minDocCount = 0
    · simp only [hm, if_true]
      exact List.map_congr_left (fun k _ => hb k)
    · simp only [hm, if_false]
      rw [List.map_congr_left (fun k _ => hb k)]
  | .terms p sub, docs, h => by
    show termsFinal p _ 0 0 = termsFinal p _ 0 0
    congr 1
    apply List.map_congr_left
    intro k _
    simp only []
    rw [repDocs_eq_filter (termKeys p) k docs (fun d _ => termKeys_nodup p d),
      evalAggPV_eq_evalAgg sub _ (docOK_filter _ (fun d hd => h d hd))]
  | .composite srcs size after sub, docs, h => by
    show compPage size after _ = compPage size after _
    congr 1
    apply List.map_congr_left
    intro k _
    simp only []
    rw [repDocs_eq_filter (compKeys srcs) k docs (fun d hd => (h d hd).1),
      evalAggPV_eq_evalAgg sub _ (docOK_filter _ (fun d hd => (h d hd).2))]

end bridge

end TantivyModel.Agg
