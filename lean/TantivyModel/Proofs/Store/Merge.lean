import TantivyModel.Proofs.Store.Iter
import TantivyModel.Proofs.Store.Cache
/-! Merging doc stores: per-document copy and block stacking (C09). -/
namespace TantivyModel.Store
open TantivyModel

/-- the store `sf` holds exactly `docs` (in doc-id order), written with codec `C` -/
def Holds (C : Compression) (P : Nat) (sf : StoreFile) (docs : List Bytes) : Prop :=
  ∃ (groups : List (List Bytes)) (cps : List Checkpoint),
    groups.flatten = docs ∧ Laid C 0 0 groups cps sf.data ∧ (∀ g ∈ groups, g ≠ [] ∧ Fits g) ∧
    sf.index = finishedLayers P cps

/-- the live documents among `xs`, the first of which has doc id `doc` -/
def liveDocs (alive : Nat → Bool) : Nat → List Bytes → List Bytes
  | _, [] => []
  | doc, x :: xs => (if alive doc then [x] else []) ++ liveDocs alive (doc + 1) xs

theorem aliveFrom_eq (alive : Nat → Bool) (xs : List Bytes) : ∀ doc,
    aliveFrom alive doc xs = (liveDocs alive doc xs).map some := by
  induction xs with
  | nil => intro doc; rfl
  | cons x xs ih => intro doc; simp only [aliveFrom, liveDocs, ih, List.map_append]; split <;> simp

theorem liveDocs_all (alive : Nat → Bool) (xs : List Bytes) : ∀ doc,
    (∀ i, i < xs.length → alive (doc + i) = true) → liveDocs alive doc xs = xs := by
  induction xs with
  | nil => intro doc _; rfl
  | cons x xs ih =>
    intro doc h
    have h0 := h 0 (by simp)
    simp only [Nat.add_zero] at h0
    simp only [liveDocs, h0, if_true, List.singleton_append]
    rw [ih (doc + 1) (fun i hi => by have := h (i + 1) (by simp; omega); rwa [show doc + (i + 1) = doc + 1 + i by omega] at this)]

theorem liveDocs_sub (alive : Nat → Bool) (xs : List Bytes) : ∀ doc, ∀ x ∈ liveDocs alive doc xs, x ∈ xs := by
  induction xs with
  | nil => intro doc x hx; cases hx
  | cons y ys ih =>
    intro doc x hx
    simp only [liveDocs, List.mem_append] at hx
    rcases hx with h | h
    · split at h
      · simp at h; subst h; exact List.mem_cons_self ..
      · cases h
    · exact List.mem_cons_of_mem _ (ih _ x h)

theorem copyDocs_some (C : Compression) (K : Nat) (xs : List Bytes) : ∀ w,
    copyDocs C K w (xs.map some) = some (xs.foldl (Writer.storeBytes C K) w) := by
  induction xs with
  | nil => intro w; rfl
  | cons x xs ih => intro w; simp [copyDocs, ih]

/-! ### shifting and concatenating laid-out stores -/

theorem laid_shift (C : Compression) (dd bb : Nat) : ∀ (gs : List (List Bytes)) (d b : Nat)
    (cps : List Checkpoint) (data : Bytes), Laid C d b gs cps data →
    Laid C (d + dd) (b + bb) gs (cps.map (shiftCheckpoint dd bb)) data := by
  intro gs
  induction gs with
  | nil => intro d b cps data h; obtain ⟨rfl, rfl⟩ := h; exact ⟨rfl, rfl⟩
  | cons g gs ih =>
    intro d b cps data h
    obtain ⟨cs, rest, rfl, rfl, hl⟩ := h
    refine ⟨cs.map (shiftCheckpoint dd bb), rest, ?_, rfl, ?_⟩
    · have : shiftCheckpoint dd bb (cpOf C d b g) = cpOf C (d + dd) (b + bb) g := by
        unfold cpOf shiftCheckpoint
        simp only [Checkpoint.mk.injEq]
        refine ⟨trivial, ?_, trivial, ?_⟩ <;> omega
      simp only [List.map_cons, this]
    · have := ih _ _ _ _ hl
      rw [show d + g.length + dd = d + dd + g.length by omega,
          show b + (C.comp (blockOf g)).length + bb = b + bb + (C.comp (blockOf g)).length by omega] at this
      exact this

theorem laid_append (C : Compression) (gs' : List (List Bytes)) (cps' : List Checkpoint) (data' : Bytes) :
    ∀ (gs : List (List Bytes)) (d b : Nat) (cps : List Checkpoint) (data : Bytes), Laid C d b gs cps data →
    Laid C (d + gs.flatten.length) (b + data.length) gs' cps' data' →
    Laid C d b (gs ++ gs') (cps ++ cps') (data ++ data') := by
  intro gs
  induction gs with
  | nil =>
    intro d b cps data h h'
    obtain ⟨rfl, rfl⟩ := h
    simpa using h'
  | cons g gs ih =>
    intro d b cps data h h'
    obtain ⟨cs, rest, rfl, rfl, hl⟩ := h
    refine ⟨cs ++ cps', rest ++ data', rfl, by simp, ?_⟩
    apply ih _ _ _ _ hl
    simp only [List.flatten_cons, List.length_append] at h'
    rw [show d + g.length + gs.flatten.length = d + (g.length + gs.flatten.length) by omega,
        show b + (C.comp (blockOf g)).length + rest.length = b + ((C.comp (blockOf g)).length + rest.length) by omega]
    exact h'

/-! ### the writer after a flush -/

theorem winv_flush (C : Compression) (K : Nat) (hK : 1 ≤ K) (w : Writer) (docs : List Bytes)
    (hbs : w.blockSize < 4294967296) (h : WInv C K w docs) :
    ∃ groups : List (List Bytes), groups.flatten = docs ∧
      Laid C 0 0 groups (w.sendBlock C).checkpoints (w.sendBlock C).written ∧
      (∀ g ∈ groups, g ≠ [] ∧ Fits g) ∧ (w.sendBlock C).cur = [] ∧ (w.sendBlock C).docPos = [] ∧
      (w.sendBlock C).numDocs = 0 ∧ (w.sendBlock C).firstDoc = docs.length ∧
      (w.sendBlock C).blockSize = w.blockSize := by
  obtain ⟨groups, curDocs, hd, hl, hcur, hpos, hnum, hfirst, hg, hne, hsz⟩ := h
  by_cases hcd : curDocs = []
  · subst hcd
    have hemp : w.cur.isEmpty = true := by rw [hcur]; rfl
    have hw : w.sendBlock C = w := by simp [Writer.sendBlock, hemp]
    rw [hw]
    refine ⟨groups, by simpa using hd, hl, hg, by simpa using hcur, by simpa [offsets] using hpos,
      by simpa using hnum, ?_, rfl⟩
    rw [hfirst, ← hd]; simp
  · obtain ⟨h1, h2, h3, h4, h5, h6⟩ := sendBlock_spec C w groups curDocs hl hcur hpos hnum hfirst hne hcd
    refine ⟨groups ++ [curDocs], by simp [← hd], h1, ?_, h2, h3, h4, ?_, h6⟩
    · intro g hgm
      rcases List.mem_append.mp hgm with h | h
      · exact hg g h
      · have hgeq : g = curDocs := by simpa using h
        rw [hgeq]
        refine ⟨hcd, by omega, ?_⟩
        have : curDocs.length ≤ curDocs.length * K := Nat.le_mul_of_pos_right _ hK
        omega
    · rw [h5, ← hd]; simp

/-- stacking a whole source store onto the writer -/
theorem winv_stack (C : Compression) (K P : Nat) (hK : 1 ≤ K) (hP : 2 ≤ P) (w : Writer) (docs : List Bytes)
    (hbs : w.blockSize < 4294967296) (h : WInv C K w docs) (src : StoreFile) (srcDocs : List Bytes)
    (hne : srcDocs ≠ []) (hsrc : Holds C P src srcDocs) :
    WInv C K (w.stack C src.data (checkpointsOf src.index)) (docs ++ srcDocs) ∧
      (w.stack C src.data (checkpointsOf src.index)).blockSize = w.blockSize := by
  unfold Writer.stack
  simp only
  obtain ⟨groups, hd, hl, hg, hcur, hpos, hnum, hfirst, hbsz⟩ := winv_flush C K hK w docs hbs h
  obtain ⟨sgroups, scps, shd, shl, shg, shidx⟩ := hsrc
  have hsg : sgroups ≠ [] := by intro h0; rw [h0] at shd; exact hne shd.symm
  have hschain := laid_chain C sgroups 0 0 scps src.data shl
  have hscne : scps ≠ [] := by
    intro h0
    have := laid_cps_length C sgroups 0 0 scps src.data shl
    rw [h0] at this
    exact hsg (List.length_eq_zero_iff.mp this.symm)
  have hcps : checkpointsOf src.index = scps := by rw [shidx]; exact checkpointsOf_finished P hP scps hscne hschain
  rw [hcps]
  generalize w.sendBlock C = w1 at *
  have hshift := laid_shift C w1.firstDoc w1.written.length sgroups 0 0 scps src.data shl
  simp only [Nat.zero_add] at hshift
  have hlen : w1.written.length = 0 + w1.written.length := by omega
  have hlaid := laid_append C sgroups (scps.map (shiftCheckpoint w1.firstDoc w1.written.length)) src.data
    groups 0 0 w1.checkpoints w1.written hl (by
      rw [hd, ← hfirst]; simpa using hshift)
  -- the first doc of the next block: end of the last shifted checkpoint
  have hfirst' : ((scps.map (shiftCheckpoint w1.firstDoc w1.written.length)).getLast?.map (·.docEnd)).getD w1.firstDoc
      = (docs ++ srcDocs).length := by
    have hchain' := laid_chain C _ _ _ _ _ hshift
    have hend' := laid_endD C _ _ _ _ _ hshift
    cases hm : scps.map (shiftCheckpoint w1.firstDoc w1.written.length) with
    | nil => simp at hm; exact absurd hm hscne
    | cons c cs =>
      have := getLast_docEnd cs c c w1.firstDoc
      rw [hm] at hend'
      rw [hend'] at this
      cases hh : (c :: cs).getLast? with
      | none => simp at hh
      | some x =>
        rw [hh] at this
        simp only [Option.map_some, Option.getD_some]
        simp only [Option.getD_some] at this
        rw [this, hfirst, shd]; simp
  refine ⟨⟨groups ++ sgroups, [], by simp [hd, shd], hlaid, by simpa using hcur, by simpa [offsets] using hpos,
    by simpa using hnum, ?_, ?_, by simp, by simp⟩, hbsz⟩
  · rw [hfirst']; simp [hd, shd]
  · intro g hgm
    rcases List.mem_append.mp hgm with h | h
    · exact hg g h
    · exact shg g h

/-! ### one merge step, then all of them -/

/-- what the merge may assume about one source segment holding `docs` -/
structure SegOK (C : Compression) (P bs : Nat) (s : SourceSegment) (docs : List Bytes) : Prop where
  holds : Holds s.codec P s.store docs
  codecRt : ∀ b, s.codec.decomp (s.codec.comp b) = some b
  nonempty : docs ≠ []
  docsOk : ∀ d ∈ docs, d ≠ [] ∧ bs + d.length < 4294967296
  /-- `has_deletes()` is false only if every document is alive -/
  noDeletes : s.hasDeletes = false → ∀ i, i < docs.length → s.alive i = true
  /-- the decompressor id in the footer identifies the codec -/
  sameCodec : s.store.decompId = C.id → s.codec = C

/-- stacking (the guard is false) is only chosen for a source without deletes, with enough blocks,
whose decompressor is the writer's compressor — for the three clauses as extracted from the source -/
theorem mustCopy_false (C : Compression) (minBlocks : Nat) (s : SourceSegment)
    (h : mustCopy C minBlocks s = false) :
    s.hasDeletes = false ∧ minBlocks ≤ ((checkpointsOf s.store.index).take (minBlocks + 1)).length ∧
      s.store.decompId = C.id := by
  have hne : Gen.STACK_CODEC_CLAUSE_IS_NE = 1 := by decide
  simp only [mustCopy, codecClause, hne, if_true, Bool.or_eq_false_iff, decide_eq_false_iff_not,
    Decidable.not_not, Nat.not_lt] at h
  exact ⟨h.1.1, h.1.2, h.2⟩

theorem mergeStep_spec (C : Compression) (K P minBlocks bs : Nat) (hK : 1 ≤ K) (hP : 2 ≤ P)
    (hbs : bs < 4294967296) (w : Writer) (done : List Bytes) (hw : WInv C K w done) (hwb : w.blockSize = bs)
    (s : SourceSegment) (docs : List Bytes) (hs : SegOK C P bs s docs) :
    ∃ w', mergeStep C K minBlocks (some w) s = some w' ∧
      WInv C K w' (done ++ liveDocs s.alive 0 docs) ∧ w'.blockSize = bs := by
  obtain ⟨groups, cps, hd, hl, hg, hidx⟩ := hs.holds
  have hgne : groups ≠ [] := by intro h0; rw [h0] at hd; exact hs.nonempty hd.symm
  unfold mergeStep
  simp only [Option.bind_some]
  by_cases hm : mustCopy C minBlocks s = true
  · -- per-document copy of the live documents
    rw [if_pos hm]
    have hit := iterRaw_laid s.codec hs.codecRt P hP groups cps s.store.data hl hg hgne s.store rfl hidx s.alive
    rw [hit, hd, aliveFrom_eq, copyDocs_some]
    have hlive : ∀ d ∈ liveDocs s.alive 0 docs, d ≠ [] ∧ w.blockSize + d.length < 4294967296 := by
      intro d hdm; rw [hwb]; exact hs.docsOk d (liveDocs_sub _ _ _ d hdm)
    obtain ⟨h1, h2⟩ := winv_fold C K hK (liveDocs s.alive 0 docs) w done hlive hw
    exact ⟨_, rfl, h1, by rw [h2, hwb]⟩
  · -- stacking: no deletes, same codec
    rw [if_neg hm]
    have hm' : mustCopy C minBlocks s = false := by simpa using hm
    obtain ⟨hdel, _, hid⟩ := mustCopy_false C minBlocks s hm'
    have hcodec := hs.sameCodec hid
    have hall : liveDocs s.alive 0 docs = docs :=
      liveDocs_all _ _ 0 (fun i hi => by simpa using hs.noDeletes hdel i hi)
    rw [hall]
    have hholds : Holds C P s.store docs := by rw [← hcodec]; exact hs.holds
    obtain ⟨h1, h2⟩ := winv_stack C K P hK hP w done (by rw [hwb]; exact hbs) hw s.store docs hs.nonempty hholds
    exact ⟨_, rfl, h1, by rw [h2, hwb]⟩

theorem mergeFold_spec (C : Compression) (K P minBlocks bs : Nat) (hK : 1 ≤ K) (hP : 2 ≤ P)
    (hbs : bs < 4294967296) : ∀ (segs : List (SourceSegment × List Bytes)) (w : Writer) (done : List Bytes),
    WInv C K w done → w.blockSize = bs → (∀ p ∈ segs, SegOK C P bs p.1 p.2) →
    ∃ w', (segs.map (·.1)).foldl (mergeStep C K minBlocks) (some w) = some w' ∧
      WInv C K w' (done ++ (segs.map fun p => liveDocs p.1.alive 0 p.2).flatten) ∧ w'.blockSize = bs := by
  intro segs
  induction segs with
  | nil => intro w done hw hwb _; exact ⟨w, rfl, by simpa using hw, hwb⟩
  | cons p ps ih =>
    intro w done hw hwb hall
    obtain ⟨w1, e1, h1, b1⟩ := mergeStep_spec C K P minBlocks bs hK hP hbs w done hw hwb p.1 p.2
      (hall p (List.mem_cons_self ..))
    obtain ⟨w2, e2, h2, b2⟩ := ih w1 _ h1 b1 (fun q hq => hall q (List.mem_cons_of_mem _ hq))
    refine ⟨w2, ?_, ?_, b2⟩
    · simp only [List.map_cons, List.foldl_cons, e1, e2]
    · simpa [List.append_assoc] using h2

/-! ### consequences for a store that `Holds` documents -/

theorem holds_written (C : Compression) (K P bs : Nat) (hK : 1 ≤ K) (hbs : bs < 4294967296) (docs : List Bytes)
    (hall : ∀ d ∈ docs, d ≠ [] ∧ bs + d.length < 4294967296) : Holds C P (writtenStore C K P bs docs) docs := by
  obtain ⟨groups, hflat, hl, hg⟩ := written_laid C K hK bs docs hall hbs
  exact ⟨groups, _, hflat, hl, hg, rfl⟩

theorem holds_get (C : Compression) (hrt : ∀ b, C.decomp (C.comp b) = some b) (P : Nat) (hP : 2 ≤ P)
    (sf : StoreFile) (docs : List Bytes) (hne : docs ≠ []) (h : Holds C P sf docs) (i : Nat) :
    getBytes C sf i = docs[i]? := by
  obtain ⟨groups, cps, hd, hl, hg, hidx⟩ := h
  have hgne : groups ≠ [] := by intro h0; rw [h0] at hd; exact hne hd.symm
  rw [getBytes_laid C hrt P hP groups cps sf.data hl hg hgne sf rfl hidx i, hd]

theorem holds_iter (C : Compression) (hrt : ∀ b, C.decomp (C.comp b) = some b) (P : Nat) (hP : 2 ≤ P)
    (sf : StoreFile) (docs : List Bytes) (hne : docs ≠ []) (h : Holds C P sf docs) (alive : Nat → Bool) :
    iterRaw C sf alive = (liveDocs alive 0 docs).map some := by
  obtain ⟨groups, cps, hd, hl, hg, hidx⟩ := h
  have hgne : groups ≠ [] := by intro h0; rw [h0] at hd; exact hne hd.symm
  rw [iterRaw_laid C hrt P hP groups cps sf.data hl hg hgne sf rfl hidx alive, hd, aliveFrom_eq]

/-- with non-empty compressed blocks, checkpoints of a laid-out store have distinct start offsets -/
theorem laid_starts (C : Compression) (hcne : ∀ b, b ≠ [] → C.comp b ≠ []) : ∀ (gs : List (List Bytes)) (d b : Nat)
    (cps : List Checkpoint) (data : Bytes), Laid C d b gs cps data →
    (∀ c ∈ cps, b ≤ c.byteStart) ∧ (∀ c ∈ cps, ∀ c' ∈ cps, c.byteStart = c'.byteStart → c = c') := by
  intro gs
  induction gs with
  | nil => intro d b cps data h; obtain ⟨rfl, _⟩ := h; simp
  | cons g gs ih =>
    intro d b cps data h
    obtain ⟨cs, rest, rfl, rfl, hl⟩ := h
    obtain ⟨i1, i2⟩ := ih _ _ _ _ hl
    have hpos : 0 < (C.comp (blockOf g)).length := by
      apply List.length_pos_iff.mpr
      apply hcne
      unfold blockOf blockBytes u32le
      intro h0
      have := congrArg List.length h0
      simp [leBytes_length] at this
    constructor
    · intro c hc
      rcases List.mem_cons.mp hc with rfl | hc
      · simp [cpOf]
      · have := i1 c hc; omega
    · intro c hc c' hc' he
      rcases List.mem_cons.mp hc with e1 | m1 <;> rcases List.mem_cons.mp hc' with e2 | m2
      · rw [e1, e2]
      · have := i1 c' m2; rw [e1] at he; simp only [cpOf] at he; omega
      · have := i1 c m1; rw [e2] at he; simp only [cpOf] at he; omega
      · exact i2 c m1 c' m2 he

theorem holds_keyDetermines (C : Compression) (hcne : ∀ b, b ≠ [] → C.comp b ≠ []) (P : Nat) (hP : 2 ≤ P)
    (sf : StoreFile) (docs : List Bytes) (hne : docs ≠ []) (h : Holds C P sf docs) : KeyDeterminesBlock sf := by
  obtain ⟨groups, cps, hd, hl, hg, hidx⟩ := h
  have hgne : groups ≠ [] := by intro h0; rw [h0] at hd; exact hne hd.symm
  have hc := laid_chain C groups 0 0 cps sf.data hl
  have hcne' : cps ≠ [] := by
    intro h0
    have := laid_cps_length C groups 0 0 cps sf.data hl
    rw [h0] at this
    exact hgne (List.length_eq_zero_iff.mp this.symm)
  obtain ⟨_, huniq⟩ := laid_starts C hcne groups 0 0 cps sf.data hl
  intro d d' cp cp' h1 h2 he
  rw [hidx, seek_finished P hP cps hcne' hc] at h1 h2
  exact huniq cp (List.mem_of_find?_eq_some h1) cp' (List.mem_of_find?_eq_some h2) he

/-! ### non-trivial doc-id mapping (sorted index): documents are taken in mapping order -/

/-- the documents a mapping picks: for each entry the next document of the named segment -/
def pickDocs : List (List Bytes) → List Nat → Option (List Bytes)
  | _, [] => some []
  | its, seg :: more =>
    match its[seg]? with
    | some (d :: tl) => (pickDocs (its.set seg tl) more).map (d :: ·)
    | _ => none

theorem mergeMapped_spec (C : Compression) (K : Nat) (hK : 1 ≤ K) (bs : Nat) : ∀ (order : List Nat)
    (its : List (List Bytes)) (picked : List Bytes) (w : Writer) (done : List Bytes),
    pickDocs its order = some picked → WInv C K w done → w.blockSize = bs →
    (∀ l ∈ its, ∀ d ∈ l, d ≠ [] ∧ bs + d.length < 4294967296) →
    ∃ w', mergeMapped C K w (its.map (List.map some)) order = some w' ∧ WInv C K w' (done ++ picked) ∧
      w'.blockSize = bs := by
  intro order
  induction order with
  | nil =>
    intro its picked w done hp hw hb _
    simp only [pickDocs, Option.some.injEq] at hp
    subst hp
    exact ⟨w, rfl, by simpa using hw, hb⟩
  | cons seg more ih =>
    intro its picked w done hp hw hb hall
    simp only [pickDocs] at hp
    cases hs : its[seg]? with
    | none => rw [hs] at hp; cases hp
    | some l =>
      rw [hs] at hp
      cases l with
      | nil => cases hp
      | cons d tl =>
        simp only at hp
        cases hrec : pickDocs (its.set seg tl) more with
        | none => rw [hrec] at hp; cases hp
        | some rest =>
          rw [hrec] at hp
          simp only [Option.map_some, Option.some.injEq] at hp
          subst hp
          have hmem : (d :: tl) ∈ its := List.mem_of_getElem? hs
          obtain ⟨hd1, hd2⟩ := hall _ hmem d (List.mem_cons_self ..)
          obtain ⟨h1, h2⟩ := winv_store C K hK w done d hd1 (by rw [hb]; exact hd2) hw
          have hall' : ∀ l ∈ its.set seg tl, ∀ x ∈ l, x ≠ [] ∧ bs + x.length < 4294967296 := by
            intro l hl x hx
            rcases List.mem_or_eq_of_mem_set hl with h | h
            · exact hall l h x hx
            · subst h; exact hall _ hmem x (List.mem_cons_of_mem _ hx)
          obtain ⟨w', e, hw', hb'⟩ := ih (its.set seg tl) rest _ _ hrec h1 (by rw [h2, hb]) hall'
          refine ⟨w', ?_, by simpa using hw', hb'⟩
          simp only [mergeMapped, List.getElem?_map, hs, Option.map_some, List.map_cons]
          rw [← e]
          congr 1
          simp [List.map_set]

/-! ### `has_deletes()` of a reader with a custom alive bitset -/

theorem numAlive_le (alive : Nat → Bool) (n : Nat) : numAlive alive n ≤ n := by
  unfold numAlive
  have := List.length_filter_le alive (List.range n)
  simpa using this

/-- `has_deletes() = false` means every document below `max_doc` is alive in the intersected set -/
theorem no_deletes_all_alive (alive : Nat → Bool) (n : Nat)
    (h : decide (n - numAlive alive n > 0) = false) : ∀ i, i < n → alive i = true := by
  have hle := numAlive_le alive n
  have heq : numAlive alive n = n := by
    have : ¬ (n - numAlive alive n > 0) := by simpa using h
    omega
  unfold numAlive at heq
  have hall : ∀ a ∈ List.range n, alive a = true := by
    have : ((List.range n).filter alive).length = (List.range n).length := by simpa using heq
    exact List.length_filter_eq_length_iff.mp this
  intro i hi
  exact hall i (List.mem_range.mpr hi)

/-- the segment the merger sees for a store holding `docs`, with the segment's own deletes and a
caller-supplied filter, satisfies the assumptions of the merge theorem by construction -/
theorem segOK_ofReader (C : Compression) (P bs : Nat) (store : StoreFile) (codec : Compression)
    (own custom : Option (Nat → Bool)) (docs : List Bytes)
    (hholds : Holds codec P store docs) (hrt : ∀ b, codec.decomp (codec.comp b) = some b)
    (hne : docs ≠ []) (hdocs : ∀ d ∈ docs, d ≠ [] ∧ bs + d.length < 4294967296)
    (hcodec : store.decompId = C.id → codec = C) :
    SegOK C P bs (SourceSegment.ofReader store codec own custom docs.length) docs :=
  { holds := hholds
    codecRt := hrt
    nonempty := hne
    docsOk := hdocs
    noDeletes := fun h => no_deletes_all_alive _ _ h
    sameCodec := hcodec }

/-! ### where a live document ends up: its rank among the live documents -/

theorem filter_range_succ (p : Nat → Bool) (j : Nat) :
    ((List.range (j + 1)).filter p).length
      = (if p 0 then 1 else 0) + ((List.range j).filter fun i => p (i + 1)).length := by
  rw [List.range_succ_eq_map, List.filter_cons]
  have : ((List.map Nat.succ (List.range j)).filter p).length = ((List.range j).filter fun i => p (i + 1)).length := by
    rw [List.filter_map, List.length_map]
    rfl
  split <;> simp [this] <;> omega

/-- the live document `j` of a segment is the `rank`-th element of the segment's live documents,
`rank` = number of live documents before it -/
theorem liveDocs_rank (alive : Nat → Bool) : ∀ (docs : List Bytes) (start j : Nat), j < docs.length →
    alive (start + j) = true →
    (liveDocs alive start docs)[((List.range j).filter fun i => alive (start + i)).length]? = docs[j]? := by
  intro docs
  induction docs with
  | nil => intro start j h; simp at h
  | cons x xs ih =>
    intro start j hj ha
    cases j with
    | zero =>
      simp only [Nat.add_zero] at ha
      simp [liveDocs, ha]
    | succ j =>
      have hrec := ih (start + 1) j (by simpa using hj) (by rwa [show start + 1 + j = start + (j + 1) by omega])
      rw [filter_range_succ (fun i => alive (start + i)) j]
      simp only [Nat.add_zero, liveDocs, List.getElem?_cons_succ]
      have hfun : (fun i => alive (start + (i + 1))) = (fun i => alive (start + 1 + i)) := by
        funext i; congr 1; omega
      rw [hfun]
      by_cases h0 : alive start = true
      · simp only [h0, if_true, List.singleton_append]
        rw [show 1 + ((List.range j).filter fun i => alive (start + 1 + i)).length
          = ((List.range j).filter fun i => alive (start + 1 + i)).length + 1 by omega, List.getElem?_cons_succ]
        exact hrec
      · simp only [h0, Bool.false_eq_true, if_false, List.nil_append, Nat.zero_add]
        exact hrec

theorem flatten_getElem_at (ls : List (List Bytes)) : ∀ (k r : Nat) (l : List Bytes), ls[k]? = some l → r < l.length →
    ls.flatten[(ls.take k).flatten.length + r]? = l[r]? := by
  induction ls with
  | nil => intro k r l h; simp at h
  | cons x xs ih =>
    intro k r l h hr
    cases k with
    | zero =>
      simp only [List.getElem?_cons_zero, Option.some.injEq] at h
      subst h
      simp only [List.take_zero, List.flatten_nil, List.length_nil, Nat.zero_add, List.flatten_cons]
      rw [List.getElem?_append_left hr]
    | succ k =>
      simp only [List.getElem?_cons_succ] at h
      simp only [List.take_succ_cons, List.flatten_cons, List.length_append]
      rw [List.getElem?_append_right (by omega)]
      have := ih k r l h hr
      rw [← this]
      congr 1; omega

/-! ### any mix of fetches and iterations through the cache -/

theorem runOps_spec (Adm : Checkpoint → Prop) (hk : KeyDetOn Adm) (C : Compression) (sf : StoreFile)
    (hseek : ∀ d cp, seek sf.index d = some cp → Adm cp) (hadm : ∀ cp ∈ checkpointsOf sf.index, Adm cp)
    (ops : List ReaderOp) : ∀ (c : BlockCache), CacheInvOn Adm C sf c →
    (runOps C sf c ops).1 = ops.map (ReaderOp.plain C sf) := by
  induction ops with
  | nil => intro c _; rfl
  | cons op ops ih =>
    intro c h
    cases op with
    | get d =>
      obtain ⟨h1, h2⟩ := getBytesCached_specOn Adm hk C sf hseek c h d
      simp only [runOps, List.map_cons, ReaderOp.plain]
      rw [ih _ h2, h1]
    | iter al =>
      obtain ⟨h1, h2⟩ := iterRawCached_spec Adm hk C sf hadm (aliveOfList al) c h
      simp only [runOps, List.map_cons, ReaderOp.plain]
      rw [ih _ h2, h1]

theorem holds_runOps (C : Compression) (hcne : ∀ b, b ≠ [] → C.comp b ≠ []) (P : Nat) (hP : 2 ≤ P)
    (sf : StoreFile) (docs : List Bytes) (hne : docs ≠ []) (h : Holds C P sf docs) (cap : Nat)
    (ops : List ReaderOp) :
    (runOps C sf (BlockCache.new cap) ops).1 = ops.map (ReaderOp.plain C sf) := by
  obtain ⟨groups, cps, hd, hl, hg, hidx⟩ := h
  have hgne : groups ≠ [] := by intro h0; rw [h0] at hd; exact hne hd.symm
  have hc := laid_chain C groups 0 0 cps sf.data hl
  have hcne' : cps ≠ [] := by
    intro h0
    have := laid_cps_length C groups 0 0 cps sf.data hl
    rw [h0] at this
    exact hgne (List.length_eq_zero_iff.mp this.symm)
  obtain ⟨_, huniq⟩ := laid_starts C hcne groups 0 0 cps sf.data hl
  apply runOps_spec (fun cp => cp ∈ cps) (fun a b ha hb he => huniq a ha b hb he) C sf
  · intro d cp hs
    rw [hidx, seek_finished P hP cps hcne' hc] at hs
    exact List.mem_of_find?_eq_some hs
  · intro cp hcp
    rw [hidx, checkpointsOf_finished P hP cps hcne' hc] at hcp
    exact hcp
  · exact cacheInvOn_new _ C sf cap

end TantivyModel.Store
