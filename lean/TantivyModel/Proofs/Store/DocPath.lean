import TantivyModel.Model.Store.DocPath
import TantivyModel.Proofs.Store.CompactDoc
import TantivyModel.Proofs.PureFns
/-! The in-memory and the on-disk reading of a value are inverse to each other (C09). -/
namespace TantivyModel.Store
open TantivyModel

mutual
theorem diskToMem_memToDisk : ∀ v : StoredValue, diskToMem (memToDisk v) = v
  | .f64 x => by simp [memToDisk, diskToMem, PureFns.u64_to_f64_f64_to_u64]
  | .array vs => by simp [memToDisk, diskToMem, diskToMemL_memToDiskL vs]
  | .object es => by simp [memToDisk, diskToMem, diskToMemE_memToDiskE es]
  | .null => rfl
  | .str _ => rfl
  | .u64 _ => rfl
  | .i64 _ => rfl
  | .bool _ => rfl
  | .date _ => rfl
  | .facet _ => rfl
  | .bytes _ => rfl
  | .ip _ => rfl
  | .preTok _ => rfl
theorem diskToMemL_memToDiskL : ∀ vs : List StoredValue, diskToMemL (memToDiskL vs) = vs
  | [] => rfl
  | v :: vs => by simp [memToDiskL, diskToMemL, diskToMem_memToDisk v, diskToMemL_memToDiskL vs]
theorem diskToMemE_memToDiskE : ∀ es : List (Bytes × StoredValue), diskToMemE (memToDiskE es) = es
  | [] => rfl
  | (k, v) :: es => by simp [memToDiskE, diskToMemE, diskToMem_memToDisk v, diskToMemE_memToDiskE es]
end

/-- what `serialize_doc` writes for the stored (field, value) pairs of an in-memory document -/
def docToDisk (d : List (BitVec 32 × StoredValue)) : StoredDoc := d.map fun fv => (fv.1, memToDisk fv.2)

/-- what the deserializer hands back to `CompactDoc` -/
def docToMem (d : StoredDoc) : List (BitVec 32 × StoredValue) := d.map fun fv => (fv.1, diskToMem fv.2)

theorem docToMem_docToDisk (d : List (BitVec 32 × StoredValue)) : docToMem (docToDisk d) = d := by
  unfold docToMem docToDisk
  rw [List.map_map]
  conv => rhs; rw [← List.map_id d]
  apply List.map_congr_left
  intro fv _
  simp [diskToMem_memToDisk]

end TantivyModel.Store
