import TantivyModel.Proofs.Store.Codec
import TantivyModel.Model.Store.SkipIndex
/-! The layered skip index finds, for every target, the first checkpoint whose doc range ends
after it — for every number of checkpoints and layers (C09). -/
namespace TantivyModel.Store
open TantivyModel

/-- contiguous checkpoints starting at doc `d`, byte `b` (each `follows` the previous one, every
range has start ≤ end) -/
def ChainFrom : Nat → Nat → List Checkpoint → Prop
  | _, _, [] => True
  | d, b, c :: cs =>
    c.docStart = d ∧ c.byteStart = b ∧ c.docStart ≤ c.docEnd ∧ c.byteStart ≤ c.byteEnd ∧
      ChainFrom c.docEnd c.byteEnd cs

instance decChainFrom : ∀ (d b : Nat) (cs : List Checkpoint), Decidable (ChainFrom d b cs)
  | _, _, [] => isTrue trivial
  | d, b, c :: cs =>
    have := decChainFrom c.docEnd c.byteEnd cs
    by unfold ChainFrom; infer_instance

def endD (d : Nat) : List Checkpoint → Nat
  | [] => d
  | c :: cs => endD c.docEnd cs

def endB (b : Nat) : List Checkpoint → Nat
  | [] => b
  | c :: cs => endB c.byteEnd cs

theorem chain_append (xs ys : List Checkpoint) : ∀ d b,
    ChainFrom d b (xs ++ ys) ↔ ChainFrom d b xs ∧ ChainFrom (endD d xs) (endB b xs) ys := by
  induction xs with
  | nil => intro d b; simp [ChainFrom, endD, endB]
  | cons c xs ih =>
    intro d b
    simp only [List.cons_append, ChainFrom, endD, endB, ih]
    constructor
    · rintro ⟨h1, h2, h3, h4, h5, h6⟩; exact ⟨⟨h1, h2, h3, h4, h5⟩, h6⟩
    · rintro ⟨⟨h1, h2, h3, h4, h5⟩, h6⟩; exact ⟨h1, h2, h3, h4, h5, h6⟩

theorem endD_append (xs ys : List Checkpoint) : ∀ d, endD d (xs ++ ys) = endD (endD d xs) ys := by
  induction xs with
  | nil => intro d; rfl
  | cons c xs ih => intro d; simp [endD, ih]

theorem endB_append (xs ys : List Checkpoint) : ∀ b, endB b (xs ++ ys) = endB (endB b xs) ys := by
  induction xs with
  | nil => intro b; rfl
  | cons c xs ih => intro b; simp [endB, ih]

theorem chain_le_endD : ∀ (cs : List Checkpoint) d b, ChainFrom d b cs → d ≤ endD d cs := by
  intro cs
  induction cs with
  | nil => intro d b _; exact Nat.le_refl _
  | cons c cs ih =>
    intro d b h
    obtain ⟨h1, _, h3, _, h5⟩ := h
    have := ih _ _ h5
    simp only [endD]; omega

/-- along a chain every doc range ends no later than the last one -/
theorem chain_docEnd_le : ∀ (cs : List Checkpoint) d b, ChainFrom d b cs →
    ∀ c ∈ cs, c.docEnd ≤ endD d cs := by
  intro cs
  induction cs with
  | nil => intro d b _ c hc; cases hc
  | cons x cs ih =>
    intro d b h c hc
    obtain ⟨_, _, _, _, h5⟩ := h
    simp only [endD]
    rcases List.mem_cons.mp hc with rfl | hc
    · exact chain_le_endD cs _ _ h5
    · exact ih _ _ h5 c hc

/-! ### one block -/

theorem decDeltas_enc : ∀ (cs : List Checkpoint) (d b : Nat) (rest : Bytes), ChainFrom d b cs →
    decDeltas cs.length d b (encDeltas cs ++ rest) = some (cs, rest) := by
  intro cs
  induction cs with
  | nil => intro d b rest _; simp [decDeltas, encDeltas]
  | cons c cs ih =>
    intro d b rest h
    obtain ⟨h1, h2, h3, h4, h5⟩ := h
    simp only [List.length_cons, decDeltas, encDeltas, List.append_assoc]
    rw [vintDec_enc]
    simp only [Option.bind_some]
    rw [vintDec_enc]
    simp only [Option.bind_some]
    have e1 : d + (c.docEnd - c.docStart) = c.docEnd := by omega
    have e2 : b + (c.byteEnd - c.byteStart) = c.byteEnd := by omega
    rw [e1, e2, ih _ _ _ h5]
    simp only [Option.map_some, Option.some.injEq, Prod.mk.injEq, List.cons.injEq, and_true]
    cases c; simp_all

theorem encBlock_ne_nil (cs : List Checkpoint) : encBlock cs ≠ [] := by
  unfold encBlock
  have := vintEnc_ne_nil cs.length
  simp [this]

theorem decBlock_enc (cs : List Checkpoint) (d b : Nat) (rest : Bytes) (hne : cs ≠ [])
    (h : ChainFrom d b cs) : decBlock (encBlock cs ++ rest) = some (cs, rest) := by
  cases cs with
  | nil => exact absurd rfl hne
  | cons c cs' =>
    have hnil : (encBlock (c :: cs') ++ rest).isEmpty = false := by
      have := encBlock_ne_nil (c :: cs')
      cases hh : encBlock (c :: cs') ++ rest with
      | nil => simp at hh; exact absurd hh.1 this
      | cons _ _ => rfl
    unfold decBlock
    rw [hnil]
    simp only [Bool.false_eq_true, if_false, encBlock, List.append_assoc]
    rw [vintDec_enc]
    simp only [Option.bind_some, List.length_cons, Nat.add_one_ne_zero, if_false]
    rw [vintDec_enc]
    simp only [Option.bind_some]
    rw [vintDec_enc]
    simp only [Option.bind_some]
    have := decDeltas_enc (c :: cs') c.docStart c.byteStart rest (by
      obtain ⟨h1, h2, h3, h4, h5⟩ := h
      exact ⟨rfl, rfl, h3, h4, h5⟩)
    simpa using this

/-! ### a layer -/

def encBlocks (blocks : List (List Checkpoint)) : Bytes := (blocks.map encBlock).flatten

theorem encBlocks_cons (b : List Checkpoint) (bs : List (List Checkpoint)) :
    encBlocks (b :: bs) = encBlock b ++ encBlocks bs := by simp [encBlocks]

theorem encBlocks_append (xs ys : List (List Checkpoint)) :
    encBlocks (xs ++ ys) = encBlocks xs ++ encBlocks ys := by simp [encBlocks]

theorem blocks_le_length (blocks : List (List Checkpoint)) : blocks.length ≤ (encBlocks blocks).length := by
  induction blocks with
  | nil => simp [encBlocks]
  | cons b bs ih =>
    rw [encBlocks_cons, List.length_append, List.length_cons]
    have := List.length_pos_iff.mpr (encBlock_ne_nil b)
    omega

theorem layerCursor_enc : ∀ (blocks : List (List Checkpoint)) (fuel d b : Nat),
    blocks.length < fuel → (∀ blk ∈ blocks, blk ≠ []) → ChainFrom d b blocks.flatten →
    layerCursor fuel (encBlocks blocks) = blocks.flatten := by
  intro blocks
  induction blocks with
  | nil =>
    intro fuel d b hf _ _
    cases fuel with
    | zero => omega
    | succ f => simp [encBlocks, layerCursor]
  | cons blk more ih =>
    intro fuel d b hf hne hc
    cases fuel with
    | zero => omega
    | succ f =>
      have hblk : blk ≠ [] := hne blk (List.mem_cons_self ..)
      rw [List.flatten_cons, chain_append] at hc
      obtain ⟨hc1, hc2⟩ := hc
      rw [encBlocks_cons]
      have hnil : (encBlock blk ++ encBlocks more).isEmpty = false := by
        have := encBlock_ne_nil blk
        cases hh : encBlock blk ++ encBlocks more with
        | nil => simp at hh; exact absurd hh.1 this
        | cons _ _ => rfl
      simp only [layerCursor, hnil, Bool.false_eq_true, if_false]
      rw [decBlock_enc blk d b _ hblk hc1]
      have hb : blk.isEmpty = false := by cases blk <;> simp_all
      simp only [hb, Bool.false_eq_true, if_false, List.flatten_cons]
      rw [ih f _ _ (by simp at hf; omega) (fun x hx => hne x (List.mem_cons_of_mem _ hx)) hc2]

/-! ### pointers of a layer = content of the layer above -/

/-- the checkpoint `flush_block` emits for a block written at offset `off` -/
def pointerOf (off : Nat) (blk : List Checkpoint) : Checkpoint :=
  { docStart := (blk.head?.map (·.docStart)).getD 0,
    docEnd := ((blk.getLast?.getD (blk.head?.getD ⟨0, 0, 0, 0⟩))).docEnd,
    byteStart := off, byteEnd := off + (encBlock blk).length }

def pointers (off : Nat) : List (List Checkpoint) → List Checkpoint
  | [] => []
  | blk :: more => pointerOf off blk :: pointers (off + (encBlock blk).length) more

theorem pointers_append (xs ys : List (List Checkpoint)) : ∀ off,
    pointers off (xs ++ ys) = pointers off xs ++ pointers (off + (encBlocks xs).length) ys := by
  induction xs with
  | nil => intro off; simp [pointers, encBlocks]
  | cons x xs ih =>
    intro off
    simp only [List.cons_append, pointers, ih, encBlocks_cons, List.length_append]
    simp [Nat.add_assoc]

theorem getLast_docEnd (cs : List Checkpoint) : ∀ (c c0 : Checkpoint) (d : Nat),
    (((c :: cs).getLast?.getD c0)).docEnd = endD d (c :: cs) := by
  induction cs with
  | nil => intro c c0 d; simp [endD]
  | cons x xs ih =>
    intro c c0 d
    have := ih x c0 c.docEnd
    simp only [endD] at this ⊢
    rw [← this, List.getLast?_cons_cons]

theorem pointerOf_docEnd (off : Nat) (blk : List Checkpoint) (hne : blk ≠ []) (d : Nat) :
    (pointerOf off blk).docEnd = endD d blk := by
  cases blk with
  | nil => exact absurd rfl hne
  | cons c cs =>
    simp only [pointerOf, List.head?_cons, Option.getD_some]
    exact getLast_docEnd cs c c d

theorem flush_cons (l : LayerBuilder) (c : Checkpoint) (cs : List Checkpoint) (h : l.block = c :: cs) :
    l.flush = ({ buffer := l.buffer ++ encBlock l.block, block := [] },
               some (pointerOf l.buffer.length l.block)) := by
  unfold LayerBuilder.flush
  rw [h]
  simp [pointerOf]

theorem flush_nil (l : LayerBuilder) (h : l.block = []) : l.flush = (l, none) := by
  unfold LayerBuilder.flush
  rw [h]

/-- the pointers of consecutive non-empty blocks of a chain form a chain starting at byte 0 -/
theorem pointers_chain : ∀ (blocks : List (List Checkpoint)) (off d b : Nat),
    (∀ blk ∈ blocks, blk ≠ []) → ChainFrom d b blocks.flatten →
    ChainFrom d off (pointers off blocks) := by
  intro blocks
  induction blocks with
  | nil => intro off d b _ _; trivial
  | cons blk more ih =>
    intro off d b hne hc
    have hblk : blk ≠ [] := hne blk (List.mem_cons_self ..)
    rw [List.flatten_cons, chain_append] at hc
    obtain ⟨hc1, hc2⟩ := hc
    simp only [pointers, ChainFrom]
    have hend := pointerOf_docEnd off blk hblk d
    refine ⟨?_, rfl, ?_, ?_, ?_⟩
    · cases blk with
      | nil => exact absurd rfl hblk
      | cons c cs => simp [pointerOf]; exact hc1.1
    · rw [hend]
      cases blk with
      | nil => exact absurd rfl hblk
      | cons c cs =>
        have := chain_le_endD (c :: cs) d b hc1
        simp only [pointerOf, List.head?_cons, Option.map_some, Option.getD_some]
        rw [hc1.1]; exact this
    · simp [pointerOf]
    · rw [hend]
      exact ih _ _ _ (fun x hx => hne x (List.mem_cons_of_mem _ hx)) hc2

/-! ### one seek step refines the search to the layer below -/

def endsAfter (t : Nat) (c : Checkpoint) : Bool := decide (c.docEnd > t)

theorem seek_refine (t : Nat) : ∀ (blocks : List (List Checkpoint)) (pre : Bytes) (fuel d b : Nat),
    blocks.length < fuel → (∀ blk ∈ blocks, blk ≠ []) → ChainFrom d b blocks.flatten →
    match (pointers pre.length blocks).find? (endsAfter t) with
    | none => blocks.flatten.find? (endsAfter t) = none
    | some p => (layerCursor fuel ((pre ++ encBlocks blocks).drop p.byteStart)).find? (endsAfter t)
                  = blocks.flatten.find? (endsAfter t) := by
  intro blocks
  induction blocks with
  | nil => intro pre fuel d b _ _ _; simp [pointers]
  | cons blk more ih =>
    intro pre fuel d b hf hne hc
    have hblk : blk ≠ [] := hne blk (List.mem_cons_self ..)
    have hc' := hc
    rw [List.flatten_cons, chain_append] at hc'
    obtain ⟨hc1, hc2⟩ := hc'
    simp only [pointers, List.find?_cons]
    by_cases hp : endsAfter t (pointerOf pre.length blk) = true
    · simp only [hp]
      have : (pointerOf pre.length blk).byteStart = pre.length := rfl
      rw [this, List.drop_left, layerCursor_enc (blk :: more) fuel d b hf hne hc]
    · have hp' : endsAfter t (pointerOf pre.length blk) = false := by simpa using hp
      simp only [hp']
      -- every checkpoint of `blk` ends at or before the target
      have hall : ∀ c ∈ blk, endsAfter t c = false := by
        intro c hcm
        have h1 := chain_docEnd_le blk d b hc1 c hcm
        have h2 := pointerOf_docEnd pre.length blk hblk d
        simp only [endsAfter, decide_eq_false_iff_not, Nat.not_lt, gt_iff_lt] at hp' ⊢
        omega
      have hfind : (blk ++ more.flatten).find? (endsAfter t) = more.flatten.find? (endsAfter t) := by
        rw [List.find?_append]
        have : blk.find? (endsAfter t) = none := by
          rw [List.find?_eq_none]; intro c hcm; simp [hall c hcm]
        simp [this]
      have := ih (pre ++ encBlock blk) fuel _ _ (by simp at hf; omega)
        (fun x hx => hne x (List.mem_cons_of_mem _ hx)) hc2
      simp only [List.length_append, List.append_assoc] at this
      rw [List.flatten_cons, hfind, encBlocks_cons]
      exact this

/-! ### finished layers -/

/-- bottom-first layer buffers hold `content` in their first layer, the pointers to its blocks
in the second, and so on -/
def LayersOK : List Bytes → List Checkpoint → Prop
  | [], content => content = []
  | buf :: uppers, content =>
    content ≠ [] ∧ ∃ blocks : List (List Checkpoint),
      (∀ blk ∈ blocks, blk ≠ []) ∧ blocks.flatten = content ∧ buf = encBlocks blocks ∧
      (uppers ≠ [] → LayersOK uppers (pointers 0 blocks))

/-- the seek loop, bottom-first -/
def seekBF (t : Nat) (init : Checkpoint) : List Bytes → Option Checkpoint
  | [] => some init
  | buf :: uppers => (seekBF t init uppers).bind fun cur => seekLayer buf t cur.byteStart

theorem seekLoop_append (t : Nat) (xs : List Bytes) (x : Bytes) : ∀ cur,
    seekLoop t (xs ++ [x]) cur = (seekLoop t xs cur).bind fun c => seekLayer x t c.byteStart := by
  induction xs with
  | nil => intro cur; simp [seekLoop]
  | cons y ys ih =>
    intro cur
    simp only [List.cons_append, seekLoop]
    cases seekLayer y t cur.byteStart with
    | none => simp
    | some c => simp [ih]

theorem seekLoop_reverse (t : Nat) (init : Checkpoint) (bufs : List Bytes) :
    seekLoop t bufs.reverse init = seekBF t init bufs := by
  induction bufs with
  | nil => rfl
  | cons b bs ih => rw [List.reverse_cons, seekLoop_append, ih]; rfl

theorem seekLayer_eq (buf : Bytes) (t off : Nat) :
    seekLayer buf t off = (layerCursor (buf.length + 1) (buf.drop off)).find? (endsAfter t) := rfl

theorem seekBF_spec (t : Nat) (init : Checkpoint) (h0 : init.byteStart = 0) :
    ∀ (bufs : List Bytes) (content : List Checkpoint) (d b : Nat), bufs ≠ [] →
    LayersOK bufs content → ChainFrom d b content →
    seekBF t init bufs = content.find? (endsAfter t) := by
  intro bufs
  induction bufs with
  | nil => intro _ _ _ h; exact absurd rfl h
  | cons buf uppers ih =>
    intro content d b _ hok hc
    obtain ⟨_, blocks, hne, hflat, hbuf, hup⟩ := hok
    subst hflat
    have hfuel : blocks.length < buf.length + 1 := by
      rw [hbuf]; have := blocks_le_length blocks; omega
    cases uppers with
    | nil =>
      simp only [seekBF, Option.bind_some, seekLayer_eq, h0, List.drop_zero]
      rw [hbuf, layerCursor_enc blocks _ d b (by rw [← hbuf]; exact hfuel) hne hc]
    | cons u us =>
      have hupper := ih (pointers 0 blocks) d 0 (by simp) (hup (by simp))
        (pointers_chain blocks 0 d b hne hc)
      simp only [seekBF] at hupper ⊢
      rw [hupper]
      have href := seek_refine t blocks [] (buf.length + 1) d b hfuel hne hc
      simp only [List.length_nil, List.nil_append] at href
      cases hf : (pointers 0 blocks).find? (endsAfter t) with
      | none => rw [hf] at href; simp [href]
      | some p =>
        rw [hf] at href
        simp only [Option.bind_some, seekLayer_eq]
        rw [hbuf]; rw [hbuf] at href; exact href

/-! ### the builder establishes `LayersOK` -/

/-- state of the builder after `content` was inserted into the first layer of `layers` -/
def BInv (P : Nat) : List LayerBuilder → List Checkpoint → Prop
  | [], content => content = []
  | l :: ls, content =>
    content ≠ [] ∧ l.block.length < P ∧ ∃ blocks : List (List Checkpoint),
      (∀ blk ∈ blocks, blk ≠ []) ∧ l.buffer = encBlocks blocks ∧ blocks.flatten ++ l.block = content ∧
      BInv P ls (pointers 0 blocks)

theorem binv_insert (P : Nat) (hP : 2 ≤ P) : ∀ (layers : List LayerBuilder) (content : List Checkpoint)
    (c : Checkpoint), BInv P layers content → BInv P (insertLayers P layers c) (content ++ [c]) := by
  intro layers
  induction layers with
  | nil =>
    intro content c h
    simp only [BInv] at h
    subst h
    have : ¬ (1 ≥ P) := by omega
    simp only [insertLayers, LayerBuilder.insert, LayerBuilder.push, LayerBuilder.empty, List.nil_append,
      List.length_singleton, this, if_false]
    exact ⟨by simp, by simp; omega, [], by simp, by simp [encBlocks], by simp, by simp [BInv, pointers]⟩
  | cons l ls ih =>
    intro content c h
    obtain ⟨hne, hlen, blocks, hb1, hb2, hb3, hb4⟩ := h
    simp only [insertLayers, LayerBuilder.insert, LayerBuilder.push]
    by_cases hfull : (l.block ++ [c]).length ≥ P
    · simp only [hfull, if_true]
      have hcons : ∃ x xs, (l.block ++ [c]) = x :: xs := by
        cases hh : l.block ++ [c] with
        | nil => simp at hh
        | cons x xs => exact ⟨x, xs, rfl⟩
      obtain ⟨x, xs, hx⟩ := hcons
      rw [flush_cons { buffer := l.buffer, block := l.block ++ [c] } x xs hx]
      simp only
      refine ⟨by simp, by simp; omega, blocks ++ [l.block ++ [c]], ?_, ?_, ?_, ?_⟩
      · intro blk hblk
        rcases List.mem_append.mp hblk with h | h
        · exact hb1 blk h
        · simp at h; subst h; simp
      · rw [encBlocks_append, hb2]; simp [encBlocks]
      · simp [← hb3]
      · rw [pointers_append]
        simp only [pointers, Nat.zero_add]
        rw [← hb2]
        exact ih _ _ hb4
    · simp only [hfull, if_false]
      refine ⟨by simp, by simp at hfull ⊢; omega, blocks, hb1, hb2, ?_, hb4⟩
      simp [← hb3]

theorem binv_build (P : Nat) (hP : 2 ≤ P) (cps : List Checkpoint) : ∀ layers content,
    BInv P layers content → BInv P (cps.foldl (insertLayers P) layers) (content ++ cps) := by
  induction cps with
  | nil => intro layers content h; simpa using h
  | cons c cs ih =>
    intro layers content h
    have := ih _ _ (binv_insert P hP layers content c h)
    simpa using this

theorem finishLayers_ne_nil (l : LayerBuilder) (ls : List LayerBuilder) (p : Option Checkpoint) :
    finishLayers (l :: ls) p ≠ [] := by
  simp [finishLayers]

theorem layersOK_finish (P : Nat) : ∀ (layers : List LayerBuilder) (content : List Checkpoint)
    (p : Option Checkpoint), layers ≠ [] → BInv P layers content →
    LayersOK (finishLayers layers p) (content ++ p.toList) := by
  intro layers
  induction layers with
  | nil => intro _ _ h; exact absurd rfl h
  | cons l ls ih =>
    intro content p _ h
    obtain ⟨hne, _, blocks, hb1, hb2, hb3, hb4⟩ := h
    -- the block after the optional push
    have key : ∀ (blk : List Checkpoint), blk = l.block ++ p.toList →
        LayersOK (finishLayers (l :: ls) p) (content ++ p.toList) := by
      intro blk hblk
      simp only [finishLayers, ← hblk]
      cases hcase : blk with
      | nil =>
        rw [flush_nil _ (by simp)]
        refine ⟨by simp [hne], blocks, hb1, ?_, hb2, ?_⟩
        · rw [← hb3]
          have : l.block ++ p.toList = [] := by rw [← hblk, hcase]
          have h1 : l.block = [] := (List.append_eq_nil_iff.mp this).1
          have h2 : p.toList = [] := (List.append_eq_nil_iff.mp this).2
          simp [h1, h2]
        · intro hup
          cases ls with
          | nil => simp [finishLayers] at hup
          | cons l2 ls2 =>
            have := ih (pointers 0 blocks) none (by simp) hb4
            simpa using this
      | cons x xs =>
        subst hcase
        rw [flush_cons { buffer := l.buffer, block := x :: xs } x xs rfl]
        simp only
        refine ⟨by simp [hne], blocks ++ [x :: xs], ?_, ?_, ?_, ?_⟩
        · intro b hb
          rcases List.mem_append.mp hb with h | h
          · exact hb1 b h
          · simp at h; subst h; simp
        · rw [← hb3, hblk]; simp
        · rw [encBlocks_append, hb2]; simp [encBlocks]
        · intro hup
          cases ls with
          | nil => simp [finishLayers] at hup
          | cons l2 ls2 =>
            have := ih (pointers 0 blocks) (some (pointerOf l.buffer.length (x :: xs))) (by simp) hb4
            rw [pointers_append]
            simp only [pointers, Nat.zero_add, ← hb2]
            simpa using this
    exact key _ rfl

theorem layersOK_built (P : Nat) (hP : 2 ≤ P) (cps : List Checkpoint) (hne : cps ≠ []) :
    LayersOK (finishLayers (buildLayers P cps) none) cps ∧ finishLayers (buildLayers P cps) none ≠ [] := by
  have hb := binv_build P hP cps [] [] (by simp [BInv])
  simp only [List.nil_append] at hb
  have hl : buildLayers P cps ≠ [] := by
    intro h
    unfold buildLayers at h
    rw [h] at hb
    simp only [BInv] at hb
    exact hne hb
  have := layersOK_finish P (buildLayers P cps) cps none hl hb
  refine ⟨by simpa using this, ?_⟩
  cases h : buildLayers P cps with
  | nil => exact absurd h hl
  | cons l ls => exact finishLayers_ne_nil l ls none

/-- `seek` on the finished index = the first checkpoint ending after the target -/
theorem seek_finished (P : Nat) (hP : 2 ≤ P) (cps : List Checkpoint) (hne : cps ≠ [])
    (hc : ChainFrom 0 0 cps) (t : Nat) :
    seek (finishedLayers P cps) t = cps.find? (endsAfter t) := by
  obtain ⟨hok, hnn⟩ := layersOK_built P hP cps hne
  unfold seek finishedLayers
  rw [seekLoop_reverse]
  exact seekBF_spec t _ rfl _ cps 0 0 hnn hok hc

/-! ### what the first checkpoint ending after the target is -/

theorem find_endsAfter_spec (t : Nat) : ∀ (cps : List Checkpoint) (d b : Nat), ChainFrom d b cps → d ≤ t →
    (t < endD d cps → ∃ c, cps.find? (endsAfter t) = some c ∧ c ∈ cps ∧ c.docStart ≤ t ∧ t < c.docEnd) ∧
    (endD d cps ≤ t → cps.find? (endsAfter t) = none) := by
  intro cps
  induction cps with
  | nil => intro d b _ hd; simp [endD]; omega
  | cons c cs ih =>
    intro d b h hd
    obtain ⟨h1, _, h3, _, h5⟩ := h
    simp only [endD, List.find?_cons]
    by_cases he : endsAfter t c = true
    · simp only [he]
      have : t < c.docEnd := by simpa [endsAfter] using he
      refine ⟨fun _ => ⟨c, rfl, List.mem_cons_self .., by omega, this⟩, fun hle => ?_⟩
      have := chain_le_endD cs _ _ h5
      omega
    · have he' : endsAfter t c = false := by simpa using he
      simp only [he']
      have hle : c.docEnd ≤ t := by simpa [endsAfter] using he'
      obtain ⟨i1, i2⟩ := ih _ _ h5 hle
      refine ⟨fun hlt => ?_, i2⟩
      obtain ⟨x, hx1, hx2, hx3, hx4⟩ := i1 hlt
      exact ⟨x, hx1, List.mem_cons_of_mem _ hx2, hx3, hx4⟩

/-- in a chain at most one checkpoint contains a given doc id -/
theorem chain_unique (t : Nat) : ∀ (cps : List Checkpoint) (d b : Nat), ChainFrom d b cps →
    ∀ c ∈ cps, ∀ c' ∈ cps, c.docStart ≤ t → t < c.docEnd → c'.docStart ≤ t → t < c'.docEnd →
    c.docStart = c'.docStart ∧ c.docEnd = c'.docEnd := by
  intro cps
  induction cps with
  | nil => intro d b _ c hc; cases hc
  | cons x xs ih =>
    intro d b h c hc c' hc' h1 h2 h3 h4
    obtain ⟨_, _, _, _, h5⟩ := h
    -- everything in `xs` starts at or after `x.docEnd`
    have hstart : ∀ (ys : List Checkpoint) (d' b' : Nat), ChainFrom d' b' ys → ∀ y ∈ ys, d' ≤ y.docStart := by
      intro ys
      induction ys with
      | nil => intro _ _ _ y hy; cases hy
      | cons z zs ihz =>
        intro d' b' hz y hy
        obtain ⟨z1, _, z3, _, z5⟩ := hz
        rcases List.mem_cons.mp hy with rfl | hy
        · omega
        · have := ihz _ _ z5 y hy; omega
    rcases List.mem_cons.mp hc with e1 | m1 <;> rcases List.mem_cons.mp hc' with e2 | m2
    · subst e1; subst e2; exact ⟨rfl, rfl⟩
    · subst e1; have := hstart xs _ _ h5 c' m2; omega
    · subst e2; have := hstart xs _ _ h5 c m1; omega
    · exact ih _ _ h5 c m1 c' m2 h1 h2 h3 h4

/-! ### `SkipIndex::open` reads back what `serialize_into` wrote -/

theorem decVInts_enc : ∀ (xs : List Nat) (rest : Bytes),
    decVInts xs.length (encVInts xs ++ rest) = some (xs, rest) := by
  intro xs
  induction xs with
  | nil => intro rest; simp [decVInts, encVInts]
  | cons x xs ih =>
    intro rest
    simp only [List.length_cons, decVInts, encVInts, List.append_assoc]
    rw [vintDec_enc]
    simp only [Option.bind_some]
    rw [ih]
    rfl

theorem cumulative_length : ∀ (layers : List Bytes) (acc : Nat), (cumulative acc layers).length = layers.length := by
  intro layers
  induction layers with
  | nil => intro acc; rfl
  | cons l ls ih => intro acc; simp [cumulative, ih]

theorem sliceLayers_cumulative : ∀ (layers : List Bytes) (pre suf : Bytes),
    sliceLayers (pre ++ (layers.flatten ++ suf)) pre.length (cumulative pre.length layers) = layers := by
  intro layers
  induction layers with
  | nil => intro pre suf; rfl
  | cons l ls ih =>
    intro pre suf
    simp only [cumulative, sliceLayers, List.flatten_cons, List.append_assoc]
    have h1 : pre.length + l.length - pre.length = l.length := by omega
    rw [List.drop_left, h1, List.take_left]
    congr 1
    have := ih (pre ++ l) suf
    simp only [List.length_append, List.append_assoc] at this
    exact this

theorem openSkipIndex_enc (layers : List Bytes) : openSkipIndex (encSkipIndex layers) = some layers := by
  unfold openSkipIndex encSkipIndex
  rw [vintDec_enc]
  simp only [Option.bind_some]
  have hl := cumulative_length layers 0
  rw [← hl, decVInts_enc]
  simp only [Option.map_some]
  have := sliceLayers_cumulative layers [] []
  simp only [List.length_nil, List.nil_append, List.append_nil] at this
  rw [this]

end TantivyModel.Store
