import TantivyModel.Model.Store.Codec
/-! Helper lemmas for the binary document codec (C09). -/
namespace TantivyModel.Store
open TantivyModel

theorem stop_eq : Gen.VINT_STOP_BIT = 128 := rfl

/-! ### VInt -/

theorem vintDecAux_enc (n : Nat) : ∀ (s acc : Nat) (rest : Bytes),
    vintDecAux s acc (vintEnc n ++ rest) = some (acc + n * 2 ^ s, rest) := by
  induction n using Nat.strongRecOn with
  | _ n ih =>
    intro s acc rest
    rw [vintEnc]
    by_cases h : n < Gen.VINT_STOP_BIT
    · rw [stop_eq] at h
      have e : (UInt8.ofNat (n + 128)).toNat = n + 128 := by
        rw [UInt8.toNat_ofNat']; omega
      simp only [stop_eq, h, if_true, List.cons_append, List.nil_append, vintDecAux, e]
      have h2 : (n + 128) % 128 = n := by omega
      simp [h2]
    · rw [stop_eq] at h
      have e : (UInt8.ofNat (n % 128)).toNat = n % 128 := by
        rw [UInt8.toNat_ofNat']; omega
      simp only [stop_eq, h, if_false, List.cons_append, vintDecAux, e]
      have h2 : ¬ n % 128 ≥ 128 := by omega
      have h3 : n % 128 % 128 = n % 128 := by omega
      simp only [h2, if_false, h3]
      rw [ih (n / 128) (by omega)]
      congr 2
      have hp : 2 ^ (s + 7) = 128 * 2 ^ s := by rw [Nat.pow_add]; simp [Nat.mul_comm]
      rw [hp]
      have hn : n = 128 * (n / 128) + n % 128 := (Nat.div_add_mod n 128).symm
      generalize 2 ^ s = p
      conv => rhs; rw [hn]
      rw [Nat.add_mul, Nat.add_assoc]
      congr 1
      rw [Nat.add_comm]
      congr 1
      rw [Nat.mul_comm 128 (n / 128), Nat.mul_assoc]

theorem vintDec_enc (n : Nat) (rest : Bytes) : vintDec (vintEnc n ++ rest) = some (n, rest) := by
  simp [vintDec, vintDecAux_enc]

theorem vintEnc_ne_nil (n : Nat) : vintEnc n ≠ [] := by
  rw [vintEnc]; split <;> simp

theorem vintEnc_length_pos (n : Nat) : 0 < (vintEnc n).length :=
  List.length_pos_iff.mpr (vintEnc_ne_nil n)

/-- the encoding has as many bytes as base-128 digits: `n < 128^k → |vintEnc n| ≤ k` -/
theorem vintEnc_length_le (k : Nat) : ∀ n, 0 < k → n < 128 ^ k → (vintEnc n).length ≤ k := by
  induction k with
  | zero => intro n h; omega
  | succ k ih =>
    intro n _ hn
    rw [vintEnc]
    by_cases h : n < Gen.VINT_STOP_BIT
    · simp [h]
    · simp only [h, if_false, List.length_cons]
      rw [stop_eq] at h ⊢
      have hk : 0 < k := by
        rcases k with _ | k
        · simp at hn; omega
        · omega
      have : n / 128 < 128 ^ k := by
        rw [Nat.pow_succ] at hn
        exact Nat.div_lt_of_lt_mul (by rw [Nat.mul_comm]; exact hn)
      have := ih (n / 128) hk this
      omega

/-! ### little endian -/

theorem leBytes_length (k n : Nat) : (leBytes k n).length = k := by
  induction k generalizing n with
  | zero => rfl
  | succ k ih => simp [leBytes, ih]

theorem leVal_leBytes (k n : Nat) : leVal (leBytes k n) = n % 256 ^ k := by
  induction k generalizing n with
  | zero => simp [leBytes, leVal, Nat.mod_one]
  | succ k ih =>
    have e : (UInt8.ofNat (n % 256)).toNat = n % 256 := by
      rw [UInt8.toNat_ofNat']; omega
    simp only [leBytes, leVal, e, ih]
    rw [Nat.pow_succ, Nat.mul_comm (256 ^ k) 256, Nat.mod_mul]

theorem readLE_leBytes (k n : Nat) (rest : Bytes) :
    readLE k (leBytes k n ++ rest) = some (n % 256 ^ k, rest) := by
  unfold readLE
  have hl := leBytes_length k n
  have h1 : ¬ (leBytes k n ++ rest).length < k := by simp [hl]
  simp only [h1, if_false]
  rw [List.take_left' hl, List.drop_left' hl, leVal_leBytes]

theorem decFixed_roundtrip (k w : Nat) (hw : 256 ^ k = 2 ^ w) (mk : BitVec w → StoredValue)
    (v : BitVec w) (rest : Bytes) :
    decFixed k w mk (leBytes k v.toNat ++ rest) = some (mk v, rest) := by
  unfold decFixed
  rw [readLE_leBytes]
  simp only [Option.map_some]
  have : v.toNat % 256 ^ k = v.toNat := by rw [hw]; exact Nat.mod_eq_of_lt v.isLt
  rw [this]
  simp

/-! ### strings -/

theorem decStr_enc (b rest : Bytes) : decStr (encStr b ++ rest) = some (b, rest) := by
  unfold decStr encStr
  rw [List.append_assoc, vintDec_enc]
  simp

theorem decBytes_enc (b rest : Bytes) : decBytes (encStr b ++ rest) = some (b, rest) := by
  unfold decBytes encStr
  rw [List.append_assoc, vintDec_enc]
  simp

/-! ### type codes are pairwise distinct (re-checked against the extracted constants) -/

theorem codes_distinct :
    [cTEXT, cU64, cI64, cF64, cBOOL, cDATE, cFACET, cBYTES, cEXT, cIP, cNULL, cARRAY, cOBJECT].Nodup := by
  decide

/-! ### nesting depth -/

mutual
def depthV : StoredValue → Nat
  | .array vs => 1 + depthL vs
  | .object es => 1 + depthE es
  | _ => 1
def depthL : List StoredValue → Nat
  | [] => 0
  | v :: vs => max (depthV v) (depthL vs)
def depthE : List (Bytes × StoredValue) → Nat
  | [] => 0
  | (_, v) :: es => max (depthV v) (depthE es)
end

/-! ### the value round trip, by structural induction over the value tree -/

/-- unfold one decoding step on an encoded value and resolve the type-code dispatch (the codes
are closed terms from `Gen.Store`; a collision makes this fail) -/
macro "dispatch" : tactic =>
  `(tactic| simp (config := { decide := true }) only
      [encValue, List.cons_append, List.nil_append, decValue, ↓reduceIte])

mutual
theorem decValue_enc : ∀ (v : StoredValue) (fuel : Nat) (rest : Bytes), depthV v ≤ fuel →
    decValue fuel (encValue v ++ rest) = some (v, rest)
  | v, 0, _, h => by cases v <;> simp [depthV] at h
  | .null, _ + 1, rest, _ => by dispatch
  | .str b, _ + 1, rest, _ => by dispatch; simp [decStr_enc]
  | .u64 v, _ + 1, rest, _ => by dispatch; exact decFixed_roundtrip 8 64 (by decide) _ v rest
  | .i64 v, _ + 1, rest, _ => by dispatch; exact decFixed_roundtrip 8 64 (by decide) _ v rest
  | .f64 v, _ + 1, rest, _ => by dispatch; exact decFixed_roundtrip 8 64 (by decide) _ v rest
  | .bool b, _ + 1, rest, _ => by cases b <;> dispatch
  | .date v, _ + 1, rest, _ => by dispatch; exact decFixed_roundtrip 8 64 (by decide) _ v rest
  | .facet b, _ + 1, rest, _ => by dispatch; simp [decStr_enc]
  | .bytes b, _ + 1, rest, _ => by dispatch; simp [decBytes_enc]
  | .preTok j, _ + 1, rest, _ => by dispatch; simp [decStr_enc]
  | .ip v, _ + 1, rest, _ => by dispatch; exact decFixed_roundtrip 16 128 (by decide) _ v rest
  | .array vs, f + 1, rest, h => by
    have hd : depthL vs ≤ f := by simp [depthV] at h; omega
    dispatch
    rw [List.append_assoc, vintDec_enc]
    simp only [Option.bind_some]
    rw [decSeq_enc vs f rest hd]
    rfl
  | .object es, f + 1, rest, h => by
    have hd : depthE es ≤ f := by simp [depthV] at h; omega
    dispatch
    rw [List.append_assoc, vintDec_enc]
    simp only [Option.bind_some]
    have h1 : ¬ (es.length * 2 % 2 = 1) := by omega
    have h2 : es.length * 2 / 2 = es.length := by omega
    rw [if_neg h1, h2, decEntries_enc es f rest hd]
    rfl
theorem decSeq_enc : ∀ (vs : List StoredValue) (fuel : Nat) (rest : Bytes), depthL vs ≤ fuel →
    decSeqWith (decValue fuel) vs.length (encValues vs ++ rest) = some (vs, rest)
  | [], _, _, _ => by simp [encValues, decSeqWith]
  | v :: vs, fuel, rest, h => by
    have h1 : depthV v ≤ fuel := by simp [depthL] at h; omega
    have h2 : depthL vs ≤ fuel := by simp [depthL] at h; omega
    simp only [encValues, List.length_cons, decSeqWith, List.append_assoc]
    rw [decValue_enc v fuel _ h1]
    simp only [Option.bind_some]
    rw [decSeq_enc vs fuel rest h2]
    rfl
theorem decEntries_enc : ∀ (es : List (Bytes × StoredValue)) (fuel : Nat) (rest : Bytes),
    depthE es ≤ fuel →
    decEntriesWith (decValue fuel) es.length (encEntries es ++ rest) = some (es, rest)
  | [], _, _, _ => by simp [encEntries, decEntriesWith]
  | (k, v) :: es, fuel, rest, h => by
    have h1 : depthV v ≤ fuel := by simp [depthE] at h; omega
    have h2 : depthE es ≤ fuel := by simp [depthE] at h; omega
    simp only [encEntries, List.length_cons, List.cons_append, decEntriesWith, List.append_assoc]
    rw [if_pos trivial, decStr_enc]
    simp only [Option.bind_some]
    rw [decValue_enc v fuel _ h1]
    simp only [Option.bind_some]
    rw [decEntries_enc es fuel rest h2]
    rfl
end

/-! ### depth is bounded by the encoded length, so `decodeValue`'s fuel always suffices -/

mutual
theorem depthV_le : ∀ v : StoredValue, depthV v ≤ (encValue v).length
  | .null => by simp [depthV, encValue]
  | .str _ => by simp [depthV, encValue]
  | .u64 _ => by simp [depthV, encValue]
  | .i64 _ => by simp [depthV, encValue]
  | .f64 _ => by simp [depthV, encValue]
  | .bool _ => by simp [depthV, encValue]
  | .date _ => by simp [depthV, encValue]
  | .facet _ => by simp [depthV, encValue]
  | .bytes _ => by simp [depthV, encValue]
  | .ip _ => by simp [depthV, encValue]
  | .preTok _ => by simp [depthV, encValue]
  | .array vs => by
    have := depthL_le vs
    simp only [depthV, encValue, List.length_cons, List.length_append]; omega
  | .object es => by
    have := depthE_le es
    simp only [depthV, encValue, List.length_cons, List.length_append]; omega
theorem depthL_le : ∀ vs : List StoredValue, depthL vs ≤ (encValues vs).length
  | [] => by simp [depthL]
  | v :: vs => by
    have := depthV_le v
    have := depthL_le vs
    simp only [depthL, encValues, List.length_append]; omega
theorem depthE_le : ∀ es : List (Bytes × StoredValue), depthE es ≤ (encEntries es).length
  | [] => by simp [depthE]
  | (k, v) :: es => by
    have := depthV_le v
    have := depthE_le es
    simp only [depthE, encEntries, List.length_append, List.length_cons]; omega
end

theorem decodeValue_enc (v : StoredValue) (rest : Bytes) :
    decodeValue (encValue v ++ rest) = some (v, rest) := by
  unfold decodeValue
  apply decValue_enc
  have := depthV_le v
  simp only [List.length_append]; omega

theorem encValue_ne_nil (v : StoredValue) : encValue v ≠ [] := by
  cases v <;> simp [encValue]

/-! ### documents -/

theorem decFields_enc (d : StoredDoc) (rest : Bytes) :
    decFields d.length (encFields d ++ rest) = some (d, rest) := by
  induction d with
  | nil => simp [decFields, encFields]
  | cons fv d ih =>
    obtain ⟨f, v⟩ := fv
    simp only [encFields, List.length_cons, decFields, List.append_assoc]
    rw [readLE_leBytes]
    simp only [Option.bind_some]
    rw [decodeValue_enc]
    simp only [Option.bind_some]
    rw [ih]
    have : f.toNat % 256 ^ 4 = f.toNat := Nat.mod_eq_of_lt (by have := f.isLt; simpa using this)
    simp [this]

theorem deserialize_encStoredDoc (d : StoredDoc) (trailing : Bytes) :
    deserializeDoc (encStoredDoc d ++ trailing) = some d := by
  unfold deserializeDoc encStoredDoc
  rw [List.append_assoc, vintDec_enc]
  simp only [Option.bind_some]
  rw [decFields_enc]
  rfl

theorem encStoredDoc_ne_nil (d : StoredDoc) : encStoredDoc d ≠ [] := by
  unfold encStoredDoc
  have := vintEnc_ne_nil d.length
  simp [this]

end TantivyModel.Store
