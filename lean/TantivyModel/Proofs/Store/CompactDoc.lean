import TantivyModel.Model.Store.CompactDoc
import TantivyModel.Proofs.Store.VInt32
import TantivyModel.Proofs.Store.Codec
/-! Adding a value to a `CompactDoc` and reading it back (address tables, any nesting) — C09. -/
namespace TantivyModel.Store
open TantivyModel

/-! ### `node_data` only grows -/

mutual
theorem cdAdd_ext : ∀ (v : StoredValue) (node : Bytes), ∃ r, (cdAdd node v).1 = node ++ r
  | .null, node => ⟨[], by simp [cdAdd]⟩
  | .bool _, node => ⟨[], by simp [cdAdd]⟩
  | .str s, node => ⟨cdWriteBytes s, by simp [cdAdd]⟩
  | .facet s, node => ⟨cdWriteBytes s, by simp [cdAdd]⟩
  | .bytes s, node => ⟨cdWriteBytes s, by simp [cdAdd]⟩
  | .u64 v, node => ⟨leBytes 8 v.toNat, by simp [cdAdd]⟩
  | .i64 v, node => ⟨leBytes 8 v.toNat, by simp [cdAdd]⟩
  | .f64 v, node => ⟨leBytes 8 v.toNat, by simp [cdAdd]⟩
  | .date v, node => ⟨leBytes 8 v.toNat, by simp [cdAdd]⟩
  | .ip v, node => ⟨leBytes 16 v.toNat, by simp [cdAdd]⟩
  | .preTok j, node => ⟨encStr j, by simp [cdAdd]⟩
  | .array vs, node => by
    obtain ⟨r, hr⟩ := cdAddList_ext vs node
    exact ⟨r ++ cdWriteBytes (cdAddList node vs).2, by simp [cdAdd, hr]⟩
  | .object es, node => by
    obtain ⟨r, hr⟩ := cdAddEntries_ext es node
    exact ⟨r ++ cdWriteBytes (cdAddEntries node es).2, by simp [cdAdd, hr]⟩
theorem cdAddList_ext : ∀ (vs : List StoredValue) (node : Bytes), ∃ r, (cdAddList node vs).1 = node ++ r
  | [], node => ⟨[], by simp [cdAddList]⟩
  | v :: vs, node => by
    obtain ⟨r1, h1⟩ := cdAdd_ext v node
    obtain ⟨r2, h2⟩ := cdAddList_ext vs (cdAdd node v).1
    exact ⟨r1 ++ r2, by simp only [cdAddList]; rw [h2, h1, List.append_assoc]⟩
theorem cdAddEntries_ext : ∀ (es : List (Bytes × StoredValue)) (node : Bytes),
    ∃ r, (cdAddEntries node es).1 = node ++ r
  | [], node => ⟨[], by simp [cdAddEntries]⟩
  | (k, v) :: es, node => by
    obtain ⟨r1, h1⟩ := cdAdd_ext v (node ++ cdWriteBytes k)
    obtain ⟨r2, h2⟩ := cdAddEntries_ext es (cdAdd (node ++ cdWriteBytes k) v).1
    exact ⟨cdWriteBytes k ++ (r1 ++ r2), by simp only [cdAddEntries]; rw [h2, h1]; simp⟩
end

theorem cdAdd_length_le (v : StoredValue) (node : Bytes) : node.length ≤ (cdAdd node v).1.length := by
  obtain ⟨r, h⟩ := cdAdd_ext v node; rw [h]; simp

theorem cdAddList_length_le (vs : List StoredValue) (node : Bytes) :
    node.length ≤ (cdAddList node vs).1.length := by
  obtain ⟨r, h⟩ := cdAddList_ext vs node; rw [h]; simp

theorem cdAddEntries_length_le (es : List (Bytes × StoredValue)) (node : Bytes) :
    node.length ≤ (cdAddEntries node es).1.length := by
  obtain ⟨r, h⟩ := cdAddEntries_ext es node; rw [h]; simp

/-! ### addresses -/

/-- type ids fit the one byte they are written in and are accepted by `ValueType::deserialize` -/
def ValidTy (t : Nat) : Prop := t ≤ Gen.CD_TYPE_ARRAY ∧ t < 256

theorem cdAdd_ty (v : StoredValue) (node : Bytes) : ValidTy (cdAdd node v).2.ty := by
  cases v <;> simp [cdAdd, ValidTy] <;> decide

theorem cdAdd_addr_lt (v : StoredValue) (node : Bytes) (h : (cdAdd node v).1.length < 4294967296) :
    (cdAdd node v).2.addr < 4294967296 := by
  have hle := cdAdd_length_le v node
  cases v with
  | null => simp [cdAdd]
  | bool b => cases b <;> simp [cdAdd]
  | array vs =>
    simp only [cdAdd, List.length_append] at h ⊢; omega
  | object es =>
    simp only [cdAdd, List.length_append] at h ⊢; omega
  | _ => simp only [cdAdd] at h hle ⊢; omega

theorem decVAddr_enc (a : VAddr) (rest : Bytes) (ht : ValidTy a.ty) (ha : a.addr < 4294967296) :
    decVAddr (encVAddr a ++ rest) = some (a, rest) := by
  obtain ⟨h1, h2⟩ := ht
  have e : (UInt8.ofNat a.ty).toNat = a.ty := by rw [UInt8.toNat_ofNat']; omega
  simp only [encVAddr, List.cons_append, decVAddr, e]
  rw [if_neg (by omega), vintDec_enc]
  simp [Nat.mod_eq_of_lt ha]

theorem encVAddr_length_pos (a : VAddr) : 2 ≤ (encVAddr a).length := by
  have := vintEnc_length_pos a.addr
  simp only [encVAddr, List.length_cons]; omega

theorem decTable_cons (a : VAddr) (rest : Bytes) (fuel : Nat) (ht : ValidTy a.ty) (ha : a.addr < 4294967296) :
    decTable (fuel + 1) (encVAddr a ++ rest) = a :: decTable fuel rest := by
  have hne : (encVAddr a ++ rest).isEmpty = false := by simp [encVAddr]
  simp only [decTable, hne, Bool.false_eq_true, if_false, decVAddr_enc a rest ht ha]

theorem decTable_nil (fuel : Nat) : decTable fuel [] = [] := by
  cases fuel <;> simp [decTable]

/-! ### reading what was added -/

theorem readFixed_at (node ext : Bytes) (k w : Nat) (hw : 256 ^ k = 2 ^ w) (mk : BitVec w → StoredValue)
    (v : BitVec w) : readFixed (node ++ leBytes k v.toNat ++ ext) node.length k w mk = some (mk v) := by
  unfold readFixed
  rw [List.append_assoc, List.drop_left, readLE_leBytes]
  simp only [Option.map_some]
  have : v.toNat % 256 ^ k = v.toNat := by rw [hw]; exact Nat.mod_eq_of_lt v.isLt
  rw [this]; simp

theorem cdReadBytes_at (node s ext : Bytes) (h : s.length < 4294967296) :
    cdReadBytes ((node ++ cdWriteBytes s ++ ext).drop node.length) = some s := by
  rw [List.append_assoc, List.drop_left]
  exact cdReadBytes_write s ext h

theorem cdWriteBytes_length_ge (s : Bytes) : s.length ≤ (cdWriteBytes s).length := by
  simp [cdWriteBytes]

/-- one step of `cdRead` on a known type id -/
macro "cd_dispatch" : tactic =>
  `(tactic| simp (config := { decide := true }) only [cdAdd, cdRead, ↓reduceIte])

mutual
theorem cdRead_add : ∀ (v : StoredValue) (node ext : Bytes) (fuel : Nat), depthV v ≤ fuel →
    (cdAdd node v).1.length < 4294967296 →
    cdRead fuel ((cdAdd node v).1 ++ ext) (cdAdd node v).2 = some v
  | v, _, _, 0, h, _ => by cases v <;> simp [depthV] at h
  | .null, node, ext, _ + 1, _, _ => by cd_dispatch
  | .bool b, node, ext, _ + 1, _, _ => by cases b <;> cd_dispatch <;> simp
  | .str s, node, ext, _ + 1, _, hb => by
    have hs : s.length < 4294967296 := by
      have := cdWriteBytes_length_ge s
      simp only [cdAdd, List.length_append] at hb; omega
    cd_dispatch
    rw [cdReadBytes_at node s ext hs]; rfl
  | .facet s, node, ext, _ + 1, _, hb => by
    have hs : s.length < 4294967296 := by
      have := cdWriteBytes_length_ge s
      simp only [cdAdd, List.length_append] at hb; omega
    cd_dispatch
    rw [cdReadBytes_at node s ext hs]; rfl
  | .bytes s, node, ext, _ + 1, _, hb => by
    have hs : s.length < 4294967296 := by
      have := cdWriteBytes_length_ge s
      simp only [cdAdd, List.length_append] at hb; omega
    cd_dispatch
    rw [cdReadBytes_at node s ext hs]; rfl
  | .u64 v, node, ext, _ + 1, _, _ => by cd_dispatch; exact readFixed_at node ext 8 64 (by decide) _ v
  | .i64 v, node, ext, _ + 1, _, _ => by cd_dispatch; exact readFixed_at node ext 8 64 (by decide) _ v
  | .f64 v, node, ext, _ + 1, _, _ => by cd_dispatch; exact readFixed_at node ext 8 64 (by decide) _ v
  | .date v, node, ext, _ + 1, _, _ => by cd_dispatch; exact readFixed_at node ext 8 64 (by decide) _ v
  | .ip v, node, ext, _ + 1, _, _ => by cd_dispatch; exact readFixed_at node ext 16 128 (by decide) _ v
  | .preTok j, node, ext, _ + 1, _, _ => by
    cd_dispatch
    rw [List.append_assoc, List.drop_left, decStr_enc]; rfl
  | .array vs, node, ext, f + 1, hd, hb => by
    have hdl : depthL vs ≤ f := by simp [depthV] at hd; omega
    have hb' : (cdAddList node vs).1.length + (cdWriteBytes (cdAddList node vs).2).length < 4294967296 := by
      simpa [cdAdd] using hb
    have htl : (cdAddList node vs).2.length < 4294967296 := by
      have := cdWriteBytes_length_ge (cdAddList node vs).2; omega
    cd_dispatch
    rw [cdReadBytes_at _ _ ext htl]
    simp only [Option.bind_some]
    have := cdReadList_add vs node (cdWriteBytes (cdAddList node vs).2 ++ ext) f
      ((cdAddList node vs).2.length + 1) hdl (by omega) (by
        have := table_length_ge vs node; omega)
    rw [List.append_assoc, this]; rfl
  | .object es, node, ext, f + 1, hd, hb => by
    have hdl : depthE es ≤ f := by simp [depthV] at hd; omega
    have hb' : (cdAddEntries node es).1.length + (cdWriteBytes (cdAddEntries node es).2).length < 4294967296 := by
      simpa [cdAdd] using hb
    have htl : (cdAddEntries node es).2.length < 4294967296 := by
      have := cdWriteBytes_length_ge (cdAddEntries node es).2; omega
    cd_dispatch
    rw [cdReadBytes_at _ _ ext htl]
    simp only [Option.bind_some]
    have := cdReadEntries_add es node (cdWriteBytes (cdAddEntries node es).2 ++ ext) f
      ((cdAddEntries node es).2.length + 1) hdl (by omega) (by
        have := etable_length_ge es node; omega)
    rw [List.append_assoc, this]; rfl
/-- the table of an array has at least one byte per element -/
theorem table_length_ge : ∀ (vs : List StoredValue) (node : Bytes), vs.length ≤ (cdAddList node vs).2.length
  | [], _ => by simp [cdAddList]
  | v :: vs, node => by
    have := table_length_ge vs (cdAdd node v).1
    have := encVAddr_length_pos (cdAdd node v).2
    simp only [cdAddList, List.length_cons, List.length_append]; omega
theorem etable_length_ge : ∀ (es : List (Bytes × StoredValue)) (node : Bytes),
    2 * es.length ≤ (cdAddEntries node es).2.length
  | [], _ => by simp [cdAddEntries]
  | (k, v) :: es, node => by
    have := etable_length_ge es (cdAdd (node ++ cdWriteBytes k) v).1
    have := encVAddr_length_pos (cdAdd (node ++ cdWriteBytes k) v).2
    have := encVAddr_length_pos ⟨Gen.CD_TYPE_STR, node.length⟩
    simp only [cdAddEntries, List.length_cons, List.length_append]; omega
theorem cdReadList_add : ∀ (vs : List StoredValue) (node ext : Bytes) (fuel F : Nat), depthL vs ≤ fuel →
    (cdAddList node vs).1.length < 4294967296 → vs.length < F →
    cdReadList (cdRead fuel ((cdAddList node vs).1 ++ ext)) (decTable F (cdAddList node vs).2) = some vs
  | [], node, ext, fuel, F, _, _, _ => by simp [cdAddList, decTable_nil, cdReadList]
  | v :: vs, node, ext, fuel, F, hd, hb, hF => by
    have h1 : depthV v ≤ fuel := by simp [depthL] at hd; omega
    have h2 : depthL vs ≤ fuel := by simp [depthL] at hd; omega
    obtain ⟨r, hr⟩ := cdAddList_ext vs (cdAdd node v).1
    have hb1 : (cdAdd node v).1.length < 4294967296 := by
      have := cdAddList_length_le vs (cdAdd node v).1
      simp only [cdAddList] at hb; omega
    cases F with
    | zero => simp at hF
    | succ F =>
      simp only [cdAddList]
      rw [decTable_cons _ _ _ (cdAdd_ty v node) (cdAdd_addr_lt v node hb1)]
      simp only [cdReadList]
      have hv := cdRead_add v node (r ++ ext) fuel h1 hb1
      rw [hr, List.append_assoc, hv]
      simp only [Option.bind_some]
      have := cdReadList_add vs (cdAdd node v).1 ext fuel F h2 (by simpa [cdAddList] using hb)
        (by simp at hF; omega)
      rw [hr, List.append_assoc] at this
      rw [this]; rfl
theorem cdReadEntries_add : ∀ (es : List (Bytes × StoredValue)) (node ext : Bytes) (fuel F : Nat),
    depthE es ≤ fuel → (cdAddEntries node es).1.length < 4294967296 → 2 * es.length < F →
    cdReadEntries ((cdAddEntries node es).1 ++ ext) (cdRead fuel ((cdAddEntries node es).1 ++ ext))
      (decTable F (cdAddEntries node es).2) = some es
  | [], node, ext, fuel, F, _, _, _ => by simp [cdAddEntries, decTable_nil, cdReadEntries]
  | (k, v) :: es, node, ext, fuel, F, hd, hb, hF => by
    have h1 : depthV v ≤ fuel := by simp [depthE] at hd; omega
    have h2 : depthE es ≤ fuel := by simp [depthE] at hd; omega
    obtain ⟨r1, hr1⟩ := cdAdd_ext v (node ++ cdWriteBytes k)
    obtain ⟨r, hr⟩ := cdAddEntries_ext es (cdAdd (node ++ cdWriteBytes k) v).1
    have hb0 : (cdAddEntries (cdAdd (node ++ cdWriteBytes k) v).1 es).1.length < 4294967296 := by
      simpa [cdAddEntries] using hb
    have hb1 : (cdAdd (node ++ cdWriteBytes k) v).1.length < 4294967296 := by
      have := cdAddEntries_length_le es (cdAdd (node ++ cdWriteBytes k) v).1; omega
    have hnode : node.length < 4294967296 := by
      have := cdAdd_length_le v (node ++ cdWriteBytes k)
      simp only [List.length_append] at this; omega
    have hk : k.length < 4294967296 := by
      have := cdAdd_length_le v (node ++ cdWriteBytes k)
      have := cdWriteBytes_length_ge k
      simp only [List.length_append] at *; omega
    match F, hF with
    | F + 2, hF =>
      simp only [cdAddEntries]
      rw [decTable_cons _ _ _ (by simp [ValidTy]; decide) hnode,
        decTable_cons _ _ _ (cdAdd_ty v _) (cdAdd_addr_lt v _ hb1)]
      simp only [cdReadEntries]
      -- the key
      have hkey : cdReadBytes (((cdAddEntries (cdAdd (node ++ cdWriteBytes k) v).1 es).1 ++ ext).drop node.length)
          = some k := by
        rw [hr, hr1]
        have := cdReadBytes_at node k (r1 ++ r ++ ext) hk
        simpa [List.append_assoc] using this
      rw [hkey]
      simp only [Option.bind_some]
      have hv := cdRead_add v (node ++ cdWriteBytes k) (r ++ ext) fuel h1 hb1
      rw [hr, List.append_assoc, hv]
      simp only [Option.bind_some]
      have := cdReadEntries_add es (cdAdd (node ++ cdWriteBytes k) v).1 ext fuel F h2 hb0
        (by simp at hF; omega)
      rw [hr, List.append_assoc] at this
      rw [this]; rfl
end

/-! ### whole documents -/

theorem cdAddDoc_ext : ∀ (fvs : List (BitVec 32 × StoredValue)) (node : Bytes),
    ∃ r, (cdAddDoc node fvs).1 = node ++ r
  | [], node => ⟨[], by simp [cdAddDoc]⟩
  | (f, v) :: rest, node => by
    obtain ⟨r1, h1⟩ := cdAdd_ext v node
    obtain ⟨r2, h2⟩ := cdAddDoc_ext rest (cdAdd node v).1
    exact ⟨r1 ++ r2, by simp only [cdAddDoc]; rw [h2, h1, List.append_assoc]⟩

theorem cdReadDoc_add : ∀ (fvs : List (BitVec 32 × StoredValue)) (node ext : Bytes) (fuel : Nat),
    (∀ fv ∈ fvs, depthV fv.2 ≤ fuel) → (cdAddDoc node fvs).1.length < 4294967296 →
    cdReadDoc fuel ((cdAddDoc node fvs).1 ++ ext) (cdAddDoc node fvs).2 = some fvs
  | [], node, ext, fuel, _, _ => by simp [cdAddDoc, cdReadDoc]
  | (f, v) :: rest, node, ext, fuel, hd, hb => by
    obtain ⟨r, hr⟩ := cdAddDoc_ext rest (cdAdd node v).1
    have hb1 : (cdAdd node v).1.length < 4294967296 := by
      simp only [cdAddDoc] at hb
      rw [hr, List.length_append] at hb; omega
    simp only [cdAddDoc, cdReadDoc]
    have hv := cdRead_add v node (r ++ ext) fuel (hd (f, v) (List.mem_cons_self ..)) hb1
    rw [hr, List.append_assoc, hv]
    simp only [Option.bind_some]
    have := cdReadDoc_add rest (cdAdd node v).1 ext fuel
      (fun fv h => hd fv (List.mem_cons_of_mem _ h)) (by simpa [cdAddDoc] using hb)
    rw [hr, List.append_assoc] at this
    rw [this]; rfl

theorem cdAddDocChecked_iff (node : Bytes) (fvs : List (BitVec 32 × StoredValue)) :
    (cdAddDocChecked node fvs).isSome = true ↔ ∀ fv ∈ fvs, fv.1.toNat < Gen.CD_FIELD_ID_LIMIT := by
  unfold cdAddDocChecked
  by_cases h : fvs.all (fun fv => decide (fv.1.toNat < Gen.CD_FIELD_ID_LIMIT)) = true
  · simp only [h, if_true, Option.isSome_some, true_iff]
    intro fv hfv
    have := List.all_eq_true.mp h fv hfv
    simpa using this
  · simp only [h, Bool.false_eq_true, if_false, Option.isSome_none, false_iff]
    intro hall
    apply h
    apply List.all_eq_true.mpr
    intro fv hfv
    simpa using hall fv hfv

end TantivyModel.Store
