import TantivyModel.Model.Store.Framing
import TantivyModel.Proofs.Store.Merge
/-! The length frame around the raw block codec (lz4 / zstd) — C09. -/
namespace TantivyModel.Store
open TantivyModel

theorem framed_roundtrip (R : RawCodec) (hR : ∀ b, R.dec b.length (R.enc b) = some b) (id : Nat)
    (b : Bytes) (hb : b.length < 4294967296) : (framed R id).decomp ((framed R id).comp b) = some b := by
  simp only [framed]
  have h4 : ¬ ((u32le b.length ++ R.enc b).length < 4) := by simp [u32le_length]
  rw [if_neg h4, List.take_left' (u32le_length _), List.drop_left' (u32le_length _), leVal_u32le _ hb, hR]
  simp

theorem framed_nonempty (R : RawCodec) (id : Nat) (b : Bytes) : (framed R id).comp b ≠ [] := by
  simp only [framed]
  intro h
  have := congrArg List.length h
  simp [u32le_length] at this

theorem blockOf_length (g : List Bytes) : (blockOf g).length = blockLenOf (g.map List.length) := by
  unfold blockOf blockBytes blockLenOf
  simp only [List.length_append, encOffsets_length, offsets_length, u32le_length, List.length_map,
    List.length_flatten]
  omega

/-- a store laid out in blocks below 4 GiB and written with a framed codec: `get` returns the
documents -/
theorem getBytes_framed (R : RawCodec) (hR : ∀ b, R.dec b.length (R.enc b) = some b) (id P : Nat) (hP : 2 ≤ P)
    (groups : List (List Bytes)) (cps : List Checkpoint) (data : Bytes)
    (hl : Laid (framed R id) 0 0 groups cps data) (hg : ∀ g ∈ groups, g ≠ [] ∧ Fits g)
    (hsmall : ∀ g ∈ groups, blockLenOf (g.map List.length) < 4294967296) (hne : groups ≠ [])
    (sf : StoreFile) (hdata : sf.data = data) (hidx : sf.index = finishedLayers P cps) (t : Nat) :
    getBytes (framed R id) sf t = groups.flatten[t]? :=
  getBytes_laid_on (framed R id) P hP groups cps data
    (fun g hgm => framed_roundtrip R hR id _ (by rw [blockOf_length]; exact hsmall g hgm))
    hl hg hne sf hdata hidx t

end TantivyModel.Store
