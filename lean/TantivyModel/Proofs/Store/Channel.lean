import TantivyModel.Model.Store.Channel
/-! The bounded FIFO channel to the compressor thread preserves the order of the calls (C09). -/
namespace TantivyModel.Store

theorem runChan_fold {σ μ : Type} (step : σ → μ → σ) (cap : Nat) (evs : List ChanEvent) :
    ∀ (pending queue : List μ) (s : σ) (p' q' : List μ) (s' : σ),
    runChan step cap evs pending queue s = some (p', q', s') →
    (q' ++ p').foldl step s' = (queue ++ pending).foldl step s := by
  induction evs with
  | nil => intro pending queue s p' q' s' h; simp [runChan] at h; obtain ⟨rfl, rfl, rfl⟩ := h; rfl
  | cons e evs ih =>
    intro pending queue s p' q' s' h
    cases e with
    | send =>
      cases pending with
      | nil => simp [runChan] at h
      | cons m pending =>
        simp only [runChan] at h
        split at h
        · have := ih _ _ _ _ _ _ h
          simpa using this
        · cases h
    | recv =>
      cases queue with
      | nil => simp [runChan] at h
      | cons m queue =>
        simp only [runChan] at h
        have := ih _ _ _ _ _ _ h
        simpa using this

end TantivyModel.Store
