import TantivyModel.Model.Store.VInt32
/-! `serialize_vint_u32` / `read_u32_vint_no_advance` round trip, against the extracted ladder (C09). -/
namespace TantivyModel.Store
open TantivyModel

theorem encGroups_length : ∀ (k v : Nat), (encGroups k v).length = k
  | 0, _ => rfl
  | 1, _ => rfl
  | k + 2, v => by simp [encGroups, encGroups_length (k + 1)]

theorem groupsVal_encGroups : ∀ (k v : Nat), groupsVal (encGroups k v) = v % 128 ^ k
  | 0, v => by simp [encGroups, groupsVal, Nat.mod_one]
  | 1, v => by
    have e : (UInt8.ofNat (v % 128 + 128)).toNat = v % 128 + 128 := by
      rw [UInt8.toNat_ofNat']; omega
    simp only [encGroups, groupsVal, e]
    omega
  | k + 2, v => by
    have e : (UInt8.ofNat (v % 128)).toNat = v % 128 := by
      rw [UInt8.toNat_ofNat']; omega
    have ih := groupsVal_encGroups (k + 1) (v / 128)
    simp only [encGroups, groupsVal, e, ih]
    have h1 : v % 128 % 128 = v % 128 := by omega
    have hp : 128 ^ (k + 2) = 128 * 128 ^ (k + 1) := by rw [Nat.pow_succ, Nat.mul_comm]
    rw [h1, hp, Nat.mod_mul]

theorem vintLen_encGroups : ∀ (k v fuel i : Nat) (rest : Bytes), 1 ≤ k → k ≤ fuel →
    vintLen fuel i (encGroups k v ++ rest) = some (i + k)
  | 0, _, _, _, _, h, _ => by omega
  | 1, v, fuel, i, rest, _, hf => by
    cases fuel with
    | zero => omega
    | succ f =>
      have e : (UInt8.ofNat (v % 128 + 128)).toNat = v % 128 + 128 := by
        rw [UInt8.toNat_ofNat']; omega
      have h : (v % 128 + 128) ≥ 128 := by omega
      simp only [encGroups, List.cons_append, List.nil_append, vintLen, e, h, if_true]
  | k + 2, v, fuel, i, rest, _, hf => by
    cases fuel with
    | zero => omega
    | succ f =>
      have e : (UInt8.ofNat (v % 128)).toNat = v % 128 := by
        rw [UInt8.toNat_ofNat']; omega
      have h : ¬ (v % 128 ≥ 128) := by omega
      simp only [encGroups, List.cons_append, vintLen, e, h, if_false]
      rw [vintLen_encGroups (k + 1) (v / 128) f (i + 1) rest (by omega) (by omega)]
      congr 1; omega

/-- what the ladder must guarantee: the chosen number of bytes holds the value and is within the
reader's scan limit. This is the statement that breaks when a threshold test is off by one. -/
theorem ladder_sound (v : Nat) (hv : v < 4294967296) :
    1 ≤ Gen.vintU32NumBytes v ∧ Gen.vintU32NumBytes v ≤ Gen.VINT_U32_MAX_LEN ∧
      v < 128 ^ Gen.vintU32NumBytes v := by
  have hmax : Gen.VINT_U32_MAX_LEN = 5 := rfl
  rw [hmax]
  unfold Gen.vintU32NumBytes
  repeat' split
  all_goals (refine ⟨by omega, by omega, ?_⟩)
  all_goals (first | (simp only [Nat.reducePow]; omega) | omega)

theorem readU32Vint_serialize (v : Nat) (hv : v < 4294967296) (rest : Bytes) :
    readU32Vint (serializeVintU32 v ++ rest) = some (v, (serializeVintU32 v).length) := by
  obtain ⟨h1, h2, h3⟩ := ladder_sound v hv
  unfold readU32Vint serializeVintU32
  rw [vintLen_encGroups _ v _ 0 rest h1 h2]
  simp only [Option.map_some, Nat.zero_add, encGroups_length]
  rw [List.take_left' (encGroups_length _ _), groupsVal_encGroups, Nat.mod_eq_of_lt h3,
    Nat.mod_eq_of_lt hv]

theorem cdReadBytes_write (data rest : Bytes) (h : data.length < 4294967296) :
    cdReadBytes (cdWriteBytes data ++ rest) = some data := by
  unfold cdReadBytes cdWriteBytes
  rw [Nat.mod_eq_of_lt h, List.append_assoc, readU32Vint_serialize _ h]
  simp only [Option.bind_some]
  have hle : (serializeVintU32 data.length).length + data.length
      ≤ (serializeVintU32 data.length ++ (data ++ rest)).length := by
    simp only [List.length_append]; omega
  rw [if_pos hle, List.drop_left, List.take_left]

end TantivyModel.Store
