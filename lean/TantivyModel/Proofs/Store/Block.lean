import TantivyModel.Proofs.Store.Codec
import TantivyModel.Model.Store.Store
/-! One uncompressed block: documents, their start offsets, the number of offsets (C09). -/
namespace TantivyModel.Store
open TantivyModel

/-- start offsets of consecutive documents, the first at `acc` -/
def offsets : Nat → List Bytes → List Nat
  | _, [] => []
  | acc, x :: xs => acc :: offsets (acc + x.length) xs

/-- the block `send_current_block_to_compressor` builds for the documents `g` -/
def blockOf (g : List Bytes) : Bytes := blockBytes g.flatten (offsets 0 g)

theorem offsets_length (g : List Bytes) : ∀ acc, (offsets acc g).length = g.length := by
  induction g with
  | nil => intro acc; rfl
  | cons x xs ih => intro acc; simp [offsets, ih]

theorem offsets_append (xs ys : List Bytes) : ∀ acc,
    offsets acc (xs ++ ys) = offsets acc xs ++ offsets (acc + xs.flatten.length) ys := by
  induction xs with
  | nil => intro acc; simp [offsets]
  | cons x xs ih =>
    intro acc
    simp only [List.cons_append, offsets, ih, List.flatten_cons, List.length_append]
    simp [Nat.add_assoc]

theorem encOffsets_append (xs ys : List Nat) : encOffsets (xs ++ ys) = encOffsets xs ++ encOffsets ys := by
  induction xs with
  | nil => rfl
  | cons x xs ih => simp [encOffsets, ih]

theorem encOffsets_length (xs : List Nat) : (encOffsets xs).length = 4 * xs.length := by
  induction xs with
  | nil => rfl
  | cons x xs ih => simp [encOffsets, u32le, leBytes_length, ih]; omega

theorem u32le_length (n : Nat) : (u32le n).length = 4 := leBytes_length 4 n

theorem readLE_u32le (n : Nat) (rest : Bytes) (h : n < 4294967296) :
    readLE 4 (u32le n ++ rest) = some (n, rest) := by
  unfold u32le
  rw [readLE_leBytes]
  have : n % 256 ^ 4 = n := Nat.mod_eq_of_lt (by simpa using h)
  rw [this]

theorem leVal_u32le (n : Nat) (h : n < 4294967296) : leVal (u32le n) = n := by
  unfold u32le
  rw [leVal_leBytes]
  exact Nat.mod_eq_of_lt (by simpa using h)

/-- `get_document_bytes_from_block` on a written block returns exactly the document -/
theorem docFromBlock_blockOf (pre : List Bytes) (x : Bytes) (post : List Bytes)
    (hsize : (pre ++ x :: post).flatten.length < 4294967296)
    (hcount : (pre ++ x :: post).length < 4294967296) :
    docFromBlock (blockOf (pre ++ x :: post)) pre.length = some x := by
  -- name the pieces
  have hcur : (pre ++ x :: post).flatten = pre.flatten ++ (x ++ post.flatten) := by simp
  have hoff : offsets 0 (pre ++ x :: post)
      = offsets 0 pre ++ (pre.flatten.length :: offsets (pre.flatten.length + x.length) post) := by
    rw [offsets_append]; simp [offsets]
  have hn : (pre ++ x :: post).length = pre.length + (post.length + 1) := by simp
  let n := pre.length + (post.length + 1)
  let cur := pre.flatten ++ (x ++ post.flatten)
  let tailOffs := offsets (pre.flatten.length + x.length) post
  have hblock : blockOf (pre ++ x :: post)
      = cur ++ (encOffsets (offsets 0 pre) ++ (u32le pre.flatten.length ++ (encOffsets tailOffs ++ u32le n))) := by
    unfold blockOf blockBytes
    rw [hcur, hoff, encOffsets_append]
    simp only [encOffsets, List.append_assoc, List.length_append, List.length_cons, offsets_length, cur,
      tailOffs, n]
  have hcurlen : cur.length < 4294967296 := by
    have : cur.length = (pre ++ x :: post).flatten.length := by rw [hcur]
    omega
  have hnlt : n < 4294967296 := by have := hn; omega
  have hlenPre : (encOffsets (offsets 0 pre)).length = 4 * pre.length := by
    rw [encOffsets_length, offsets_length]
  have hlenTail : (encOffsets tailOffs).length = 4 * post.length := by
    rw [encOffsets_length, offsets_length]
  have hblen : (blockOf (pre ++ x :: post)).length = cur.length + (n + 1) * 4 := by
    rw [hblock]
    simp only [List.length_append, hlenPre, hlenTail, u32le_length]
    omega
  unfold docFromBlock blockReadIndex
  rw [hblen]
  have h1 : ¬ (cur.length + (n + 1) * 4 < 4) := by omega
  simp only [h1, if_false]
  -- the count
  have hdrop : (blockOf (pre ++ x :: post)).drop (cur.length + (n + 1) * 4 - 4) = u32le n := by
    rw [hblock]
    have e : cur.length + (n + 1) * 4 - 4
        = (cur ++ (encOffsets (offsets 0 pre) ++ (u32le pre.flatten.length ++ encOffsets tailOffs))).length := by
      simp only [List.length_append, hlenPre, hlenTail, u32le_length]; omega
    rw [e]
    have : cur ++ (encOffsets (offsets 0 pre) ++ (u32le pre.flatten.length ++ (encOffsets tailOffs ++ u32le n)))
        = (cur ++ (encOffsets (offsets 0 pre) ++ (u32le pre.flatten.length ++ encOffsets tailOffs))) ++ u32le n := by
      simp
    rw [this, List.drop_left]
  rw [hdrop, leVal_u32le n hnlt]
  have h2 : ¬ (pre.length > n) := by omega
  have h3 : ¬ (cur.length + (n + 1) * 4 < (n + 1) * 4) := by omega
  simp only [h2, h3, if_false]
  have h4 : cur.length + (n + 1) * 4 - (n + 1) * 4 = cur.length := by omega
  rw [h4]
  -- the index
  have hindex : ((blockOf (pre ++ x :: post)).drop cur.length).take (n * 4)
      = encOffsets (offsets 0 pre) ++ (u32le pre.flatten.length ++ encOffsets tailOffs) := by
    rw [hblock, List.drop_left]
    have e : n * 4 = (encOffsets (offsets 0 pre) ++ (u32le pre.flatten.length ++ encOffsets tailOffs)).length := by
      simp only [List.length_append, hlenPre, hlenTail, u32le_length]; omega
    have : encOffsets (offsets 0 pre) ++ (u32le pre.flatten.length ++ (encOffsets tailOffs ++ u32le n))
        = (encOffsets (offsets 0 pre) ++ (u32le pre.flatten.length ++ encOffsets tailOffs)) ++ u32le n := by simp
    rw [this, e, List.take_left]
  rw [hindex]
  have hd1 : (encOffsets (offsets 0 pre) ++ (u32le pre.flatten.length ++ encOffsets tailOffs)).drop (pre.length * 4)
      = u32le pre.flatten.length ++ encOffsets tailOffs := by
    have : pre.length * 4 = (encOffsets (offsets 0 pre)).length := by rw [hlenPre]; omega
    rw [this, List.drop_left]
  have hd2 : (encOffsets (offsets 0 pre) ++ (u32le pre.flatten.length ++ encOffsets tailOffs)).drop ((pre.length + 1) * 4)
      = encOffsets tailOffs := by
    have : (pre.length + 1) * 4 = (encOffsets (offsets 0 pre) ++ u32le pre.flatten.length).length := by
      simp only [List.length_append, hlenPre, u32le_length]; omega
    have e2 : encOffsets (offsets 0 pre) ++ (u32le pre.flatten.length ++ encOffsets tailOffs)
        = (encOffsets (offsets 0 pre) ++ u32le pre.flatten.length) ++ encOffsets tailOffs := by simp
    rw [this, e2, List.drop_left]
  have hpre : pre.flatten.length < 4294967296 := by
    have : cur.length = pre.flatten.length + (x.length + post.flatten.length) := by simp [cur]
    omega
  rw [hd1, hd2, readLE_u32le _ _ hpre]
  simp only [Option.map_some, Option.bind_some]
  -- the end offset: the next document's start, or the start of the index
  have hend : endOffset (readLE 4 (encOffsets tailOffs)) (cur.length % 4294967296)
      = pre.flatten.length + x.length := by
    cases post with
    | nil =>
      simp only [tailOffs, offsets, encOffsets]
      have : readLE 4 ([] : Bytes) = none := by simp [readLE]
      rw [this]
      simp only [endOffset]
      rw [Nat.mod_eq_of_lt hcurlen]
      simp [cur]
    | cons y ys =>
      simp only [tailOffs, offsets, encOffsets]
      have hb : pre.flatten.length + x.length < 4294967296 := by
        have : cur.length = pre.flatten.length + (x.length + (y :: ys).flatten.length) := by simp [cur]
        omega
      rw [readLE_u32le _ _ hb]
      rfl
  rw [hend]
  have hle : pre.flatten.length ≤ pre.flatten.length + x.length ∧
      pre.flatten.length + x.length ≤ cur.length + (n + 1) * 4 := by
    have : cur.length = pre.flatten.length + (x.length + post.flatten.length) := by simp [cur]
    omega
  simp only [hle, and_self, if_true]
  rw [hblock]
  have e3 : pre.flatten.length + x.length - pre.flatten.length = x.length := by omega
  rw [e3]
  show some (((pre.flatten ++ (x ++ post.flatten) ++ _).drop pre.flatten.length).take x.length) = some x
  rw [List.append_assoc, List.drop_left, List.append_assoc, List.take_left]

theorem docFromBlock_getElem (g : List Bytes) (i : Nat) (hi : i < g.length)
    (hsize : g.flatten.length < 4294967296) (hcount : g.length < 4294967296) :
    docFromBlock (blockOf g) i = some g[i] := by
  have hsplit : g = g.take i ++ g[i] :: g.drop (i + 1) := by simp
  have hlen : (g.take i).length = i := by simp; omega
  have := docFromBlock_blockOf (g.take i) g[i] (g.drop (i + 1)) (by rw [← hsplit]; exact hsize)
    (by rw [← hsplit]; exact hcount)
  rw [← hsplit, hlen] at this
  exact this

end TantivyModel.Store
