import TantivyModel.Model.Store.Store
/-! The LRU block cache never changes what `read_block` returns (C09). -/
namespace TantivyModel.Store
open TantivyModel

/-- the start offset of a block determines the checkpoint, among the checkpoints `seek` returns -/
def KeyDeterminesBlock (sf : StoreFile) : Prop :=
  ∀ d d' cp cp', seek sf.index d = some cp → seek sf.index d' = some cp' →
    cp.byteStart = cp'.byteStart → cp = cp'

/-- a cache entry is good if it is the decompressed block of a checkpoint that `seek` returns -/
def GoodEntry (C : Compression) (sf : StoreFile) (e : Nat × Bytes) : Prop :=
  ∃ d cp, seek sf.index d = some cp ∧ cp.byteStart = e.1 ∧ readBlockRaw C sf cp = some e.2

def CacheInv (C : Compression) (sf : StoreFile) (c : BlockCache) : Prop :=
  ∀ e ∈ c.entries, GoodEntry C sf e

theorem cacheInv_new (C : Compression) (sf : StoreFile) (cap : Nat) : CacheInv C sf (BlockCache.new cap) := by
  intro e he; simp [BlockCache.new] at he

theorem cache_get_spec (C : Compression) (sf : StoreFile) (c : BlockCache) (key : Nat)
    (h : CacheInv C sf c) :
    CacheInv C sf (c.get key).2 ∧
      ∀ b, (c.get key).1 = some b → GoodEntry C sf (key, b) := by
  unfold BlockCache.get
  by_cases h0 : c.cap = 0
  · simp only [h0, if_true]
    exact ⟨h, by intro b hb; cases hb⟩
  · simp only [h0, if_false]
    cases hf : c.entries.find? (fun e => decide (e.1 = key)) with
    | none => exact ⟨h, by intro b hb; cases hb⟩
    | some e =>
      have hmem : e ∈ c.entries := List.mem_of_find?_eq_some hf
      have hk : e.1 = key := by simpa using List.find?_some hf
      refine ⟨?_, ?_⟩
      · intro x hx
        simp only [List.mem_cons, List.mem_filter] at hx
        rcases hx with rfl | ⟨hx, _⟩
        · exact h _ hmem
        · exact h _ hx
      · intro b hb
        simp only [Option.some.injEq] at hb
        have := h _ hmem
        obtain ⟨d, cp, h1, h2, h3⟩ := this
        exact ⟨d, cp, h1, by simpa [hk] using h2, by simpa [hb] using h3⟩

theorem cache_put_spec (C : Compression) (sf : StoreFile) (c : BlockCache) (key : Nat) (b : Bytes)
    (h : CacheInv C sf c) (hg : GoodEntry C sf (key, b)) : CacheInv C sf (c.put key b) := by
  unfold BlockCache.put
  by_cases h0 : c.cap = 0
  · simpa [h0] using h
  · simp only [h0, if_false]
    split
    · intro x hx
      simp only [List.mem_cons, List.mem_filter] at hx
      rcases hx with rfl | ⟨hx, _⟩
      · exact hg
      · exact h _ hx
    · split
      · intro x hx
        simp only [List.mem_cons] at hx
        rcases hx with rfl | hx
        · exact hg
        · exact h _ (List.dropLast_subset _ hx)
      · intro x hx
        simp only [List.mem_cons] at hx
        rcases hx with rfl | hx
        · exact hg
        · exact h _ hx

/-- `read_block` through the cache returns what the uncached read returns, and keeps the
invariant -/
theorem readBlock_spec (C : Compression) (sf : StoreFile) (hk : KeyDeterminesBlock sf)
    (c : BlockCache) (h : CacheInv C sf c) (d : Nat) (cp : Checkpoint)
    (hs : seek sf.index d = some cp) :
    (readBlock C sf c cp).1 = readBlockRaw C sf cp ∧ CacheInv C sf (readBlock C sf c cp).2 := by
  unfold readBlock
  have hg := cache_get_spec C sf c cp.byteStart h
  rcases hget : c.get cp.byteStart with ⟨ob, c'⟩
  rw [hget] at hg
  cases ob with
  | some b =>
    obtain ⟨hinv, hb⟩ := hg
    obtain ⟨d', cp', h1, h2, h3⟩ := hb b rfl
    have : cp' = cp := hk d' d cp' cp h1 hs h2
    subst this
    exact ⟨h3.symm, hinv⟩
  | none =>
    obtain ⟨hinv, _⟩ := hg
    cases hr : readBlockRaw C sf cp with
    | none => exact ⟨rfl, hinv⟩
    | some b =>
      exact ⟨rfl, cache_put_spec C sf c' cp.byteStart b hinv ⟨d, cp, hs, rfl, hr⟩⟩

theorem getBytesCached_spec (C : Compression) (sf : StoreFile) (hk : KeyDeterminesBlock sf)
    (c : BlockCache) (h : CacheInv C sf c) (d : Nat) :
    (getBytesCached C sf c d).1 = getBytes C sf d ∧ CacheInv C sf (getBytesCached C sf c d).2 := by
  unfold getBytesCached getBytes
  cases hs : seek sf.index d with
  | none => exact ⟨rfl, h⟩
  | some cp =>
    obtain ⟨h1, h2⟩ := readBlock_spec C sf hk c h d cp hs
    simp only [Option.bind_some]
    generalize readBlock C sf c cp = rb at h1 h2 ⊢
    obtain ⟨ob, c'⟩ := rb
    simp only at h1 h2
    subst h1
    cases hr : readBlockRaw C sf cp with
    | none => exact ⟨rfl, h2⟩
    | some b => exact ⟨rfl, h2⟩

theorem runGets_spec (C : Compression) (sf : StoreFile) (hk : KeyDeterminesBlock sf)
    (ds : List Nat) : ∀ (c : BlockCache), CacheInv C sf c →
    (runGets C sf c ds).1 = ds.map (getBytes C sf) := by
  induction ds with
  | nil => intro c _; rfl
  | cons d ds ih =>
    intro c h
    obtain ⟨h1, h2⟩ := getBytesCached_spec C sf hk c h d
    simp only [runGets, List.map_cons]
    rw [← h1, ih _ h2]

/-! ### the same for any set of admissible checkpoints (seek results, iteration, …) -/

/-- among the admissible checkpoints the start offset determines the checkpoint -/
def KeyDetOn (Adm : Checkpoint → Prop) : Prop :=
  ∀ cp cp', Adm cp → Adm cp' → cp.byteStart = cp'.byteStart → cp = cp'

def GoodEntryOn (Adm : Checkpoint → Prop) (C : Compression) (sf : StoreFile) (e : Nat × Bytes) : Prop :=
  ∃ cp, Adm cp ∧ cp.byteStart = e.1 ∧ readBlockRaw C sf cp = some e.2

def CacheInvOn (Adm : Checkpoint → Prop) (C : Compression) (sf : StoreFile) (c : BlockCache) : Prop :=
  ∀ e ∈ c.entries, GoodEntryOn Adm C sf e

theorem cacheInvOn_new (Adm : Checkpoint → Prop) (C : Compression) (sf : StoreFile) (cap : Nat) :
    CacheInvOn Adm C sf (BlockCache.new cap) := by
  intro e he; simp [BlockCache.new] at he

theorem cache_get_specOn (Adm : Checkpoint → Prop) (C : Compression) (sf : StoreFile) (c : BlockCache)
    (key : Nat) (h : CacheInvOn Adm C sf c) :
    CacheInvOn Adm C sf (c.get key).2 ∧ ∀ b, (c.get key).1 = some b → GoodEntryOn Adm C sf (key, b) := by
  unfold BlockCache.get
  by_cases h0 : c.cap = 0
  · simp only [h0, if_true]
    exact ⟨h, by intro b hb; cases hb⟩
  · simp only [h0, if_false]
    cases hf : c.entries.find? (fun e => decide (e.1 = key)) with
    | none => exact ⟨h, by intro b hb; cases hb⟩
    | some e =>
      have hmem : e ∈ c.entries := List.mem_of_find?_eq_some hf
      have hk : e.1 = key := by simpa using List.find?_some hf
      refine ⟨?_, ?_⟩
      · intro x hx
        simp only [List.mem_cons, List.mem_filter] at hx
        rcases hx with rfl | ⟨hx, _⟩
        · exact h _ hmem
        · exact h _ hx
      · intro b hb
        simp only [Option.some.injEq] at hb
        obtain ⟨cp, h1, h2, h3⟩ := h _ hmem
        exact ⟨cp, h1, by simpa [hk] using h2, by simpa [hb] using h3⟩

theorem cache_put_specOn (Adm : Checkpoint → Prop) (C : Compression) (sf : StoreFile) (c : BlockCache)
    (key : Nat) (b : Bytes) (h : CacheInvOn Adm C sf c) (hg : GoodEntryOn Adm C sf (key, b)) :
    CacheInvOn Adm C sf (c.put key b) := by
  unfold BlockCache.put
  by_cases h0 : c.cap = 0
  · simpa [h0] using h
  · simp only [h0, if_false]
    split
    · intro x hx
      simp only [List.mem_cons, List.mem_filter] at hx
      rcases hx with rfl | ⟨hx, _⟩
      · exact hg
      · exact h _ hx
    · split
      · intro x hx
        simp only [List.mem_cons] at hx
        rcases hx with rfl | hx
        · exact hg
        · exact h _ (List.dropLast_subset _ hx)
      · intro x hx
        simp only [List.mem_cons] at hx
        rcases hx with rfl | hx
        · exact hg
        · exact h _ hx

theorem readBlock_specOn (Adm : Checkpoint → Prop) (hk : KeyDetOn Adm) (C : Compression) (sf : StoreFile)
    (c : BlockCache) (h : CacheInvOn Adm C sf c) (cp : Checkpoint) (ha : Adm cp) :
    (readBlock C sf c cp).1 = readBlockRaw C sf cp ∧ CacheInvOn Adm C sf (readBlock C sf c cp).2 := by
  unfold readBlock
  have hg := cache_get_specOn Adm C sf c cp.byteStart h
  rcases hget : c.get cp.byteStart with ⟨ob, c'⟩
  rw [hget] at hg
  cases ob with
  | some b =>
    obtain ⟨hinv, hb⟩ := hg
    obtain ⟨cp', h1, h2, h3⟩ := hb b rfl
    have : cp' = cp := hk cp' cp h1 ha h2
    subst this
    exact ⟨h3.symm, hinv⟩
  | none =>
    obtain ⟨hinv, _⟩ := hg
    cases hr : readBlockRaw C sf cp with
    | none => exact ⟨rfl, hinv⟩
    | some b => exact ⟨rfl, cache_put_specOn Adm C sf c' cp.byteStart b hinv ⟨cp, ha, rfl, hr⟩⟩

theorem readBlockOpt_specOn (Adm : Checkpoint → Prop) (hk : KeyDetOn Adm) (C : Compression) (sf : StoreFile)
    (c : BlockCache) (h : CacheInvOn Adm C sf c) (ocp : Option Checkpoint) (ha : ∀ cp, ocp = some cp → Adm cp) :
    (readBlockOpt C sf c ocp).1 = ocp.map (readBlockRaw C sf) ∧ CacheInvOn Adm C sf (readBlockOpt C sf c ocp).2 := by
  cases ocp with
  | none => exact ⟨rfl, h⟩
  | some cp =>
    obtain ⟨h1, h2⟩ := readBlock_specOn Adm hk C sf c h cp (ha cp rfl)
    simp only [readBlockOpt, Option.map_some]
    exact ⟨by rw [h1], h2⟩

/-- the cached loop of `iter_raw` yields what the uncached loop yields and keeps the cache sound -/
theorem iterLoopCached_spec (Adm : Checkpoint → Prop) (hk : KeyDetOn Adm) (C : Compression) (sf : StoreFile)
    (alive : Nat → Bool) : ∀ (n doc : Nat) (cur : Option Checkpoint) (rest : List Checkpoint)
    (block : Option (Option Bytes)) (pos : Nat) (c : BlockCache), CacheInvOn Adm C sf c →
    (∀ cp ∈ rest, Adm cp) →
    (iterLoopCached C sf alive n doc cur rest block pos c).1 = iterLoop C sf alive n doc cur rest block pos ∧
      CacheInvOn Adm C sf (iterLoopCached C sf alive n doc cur rest block pos c).2 := by
  intro n
  induction n with
  | zero => intro doc cur rest block pos c h _; exact ⟨rfl, h⟩
  | succ n ih =>
    intro doc cur rest block pos c h hrest
    cases cur with
    | none => exact ⟨rfl, h⟩
    | some cc =>
      simp only [iterLoopCached, iterLoop]
      by_cases hm : decide (doc ≥ cc.docEnd) = true
      · simp only [hm, if_true]
        obtain ⟨h1, h2⟩ := readBlockOpt_specOn Adm hk C sf c h rest.head? (by
          intro cp hcp
          exact hrest cp (List.mem_of_mem_head? hcp))
        rw [h1]
        obtain ⟨i1, i2⟩ := ih (doc + 1) rest.head? rest.tail (rest.head?.map (readBlockRaw C sf)) (0 + 1)
          (readBlockOpt C sf c rest.head?).2 h2 (fun cp hcp => hrest cp (List.mem_of_mem_tail hcp))
        exact ⟨by rw [i1], i2⟩
      · have hm' : decide (doc ≥ cc.docEnd) = false := by simpa using hm
        simp only [hm', Bool.false_eq_true, if_false]
        obtain ⟨i1, i2⟩ := ih (doc + 1) (some cc) rest block (pos + 1) c h hrest
        exact ⟨by rw [i1], i2⟩

theorem iterRawCached_spec (Adm : Checkpoint → Prop) (hk : KeyDetOn Adm) (C : Compression) (sf : StoreFile)
    (hadm : ∀ cp ∈ checkpointsOf sf.index, Adm cp) (alive : Nat → Bool) (c : BlockCache)
    (h : CacheInvOn Adm C sf c) :
    (iterRawCached C sf alive c).1 = iterRaw C sf alive ∧ CacheInvOn Adm C sf (iterRawCached C sf alive c).2 := by
  unfold iterRawCached iterRaw
  simp only
  obtain ⟨h1, h2⟩ := readBlockOpt_specOn Adm hk C sf c h (checkpointsOf sf.index).head? (by
    intro cp hcp; exact hadm cp (List.mem_of_mem_head? hcp))
  rw [h1]
  exact iterLoopCached_spec Adm hk C sf alive _ 0 (checkpointsOf sf.index).head?
    (checkpointsOf sf.index).tail ((checkpointsOf sf.index).head?.map (readBlockRaw C sf)) 0
    (readBlockOpt C sf c (checkpointsOf sf.index).head?).2 h2
    (fun cp hcp => hadm cp (List.mem_of_mem_tail hcp))

/-- `get_document_bytes` through the cache, for any admissible set containing what `seek` returns -/
theorem getBytesCached_specOn (Adm : Checkpoint → Prop) (hk : KeyDetOn Adm) (C : Compression) (sf : StoreFile)
    (hseek : ∀ d cp, seek sf.index d = some cp → Adm cp) (c : BlockCache) (h : CacheInvOn Adm C sf c) (d : Nat) :
    (getBytesCached C sf c d).1 = getBytes C sf d ∧ CacheInvOn Adm C sf (getBytesCached C sf c d).2 := by
  unfold getBytesCached getBytes
  cases hs : seek sf.index d with
  | none => exact ⟨rfl, h⟩
  | some cp =>
    obtain ⟨h1, h2⟩ := readBlock_specOn Adm hk C sf c h cp (hseek d cp hs)
    simp only [Option.bind_some]
    generalize readBlock C sf c cp = rb at h1 h2 ⊢
    obtain ⟨ob, c'⟩ := rb
    simp only at h1 h2
    subst h1
    cases hr : readBlockRaw C sf cp with
    | none => exact ⟨rfl, h2⟩
    | some b => exact ⟨rfl, h2⟩

/-! ### the LRU never holds more blocks than its capacity, nor one block twice -/

def CacheSized (c : BlockCache) : Prop :=
  c.entries.length ≤ c.cap ∧ (c.entries.map (·.1)).Nodup

theorem cacheSized_new (cap : Nat) : CacheSized (BlockCache.new cap) := by
  simp [CacheSized, BlockCache.new]

theorem filter_keys_nodup (l : List (Nat × Bytes)) (key : Nat) (h : (l.map (·.1)).Nodup) :
    ((l.filter fun x => x.1 ≠ key).map (·.1)).Nodup ∧ key ∉ (l.filter fun x => x.1 ≠ key).map (·.1) := by
  constructor
  · exact (List.Sublist.map _ List.filter_sublist).nodup h
  · intro hm
    obtain ⟨x, hx, hk⟩ := List.mem_map.mp hm
    have := (List.mem_filter.mp hx).2
    simp at this
    exact this hk

theorem cache_get_sized (c : BlockCache) (key : Nat) (h : CacheSized c) :
    CacheSized (c.get key).2 ∧ (c.get key).2.cap = c.cap := by
  unfold BlockCache.get
  by_cases h0 : c.cap = 0
  · simp only [h0, if_true]; exact ⟨by simpa [CacheSized, h0] using h, by simp [h0]⟩
  · simp only [h0, if_false]
    cases hf : c.entries.find? (fun e => decide (e.1 = key)) with
    | none => exact ⟨h, rfl⟩
    | some e =>
      have hmem : e ∈ c.entries := List.mem_of_find?_eq_some hf
      have hk : e.1 = key := by simpa using List.find?_some hf
      obtain ⟨hlen, hnd⟩ := h
      obtain ⟨f1, f2⟩ := filter_keys_nodup c.entries key hnd
      refine ⟨⟨?_, ?_⟩, rfl⟩
      · -- the promoted entry was in the list: the filtered list is strictly shorter
        have hlt : (c.entries.filter fun x => x.1 ≠ key).length < c.entries.length := by
          apply List.length_filter_lt_length_iff_exists.mpr
          exact ⟨e, hmem, by simp [hk]⟩
        simp only [List.length_cons]; omega
      · simp only [List.map_cons, List.nodup_cons]
        exact ⟨by rw [hk]; exact f2, f1⟩

theorem cache_put_sized (c : BlockCache) (key : Nat) (b : Bytes) (h : CacheSized c) :
    CacheSized (c.put key b) ∧ (c.put key b).cap = c.cap := by
  obtain ⟨hlen, hnd⟩ := h
  unfold BlockCache.put
  by_cases h0 : c.cap = 0
  · simp only [h0, if_true]; exact ⟨⟨by omega, hnd⟩, by simp [h0]⟩
  · simp only [h0, if_false]
    obtain ⟨f1, f2⟩ := filter_keys_nodup c.entries key hnd
    split
    · rename_i hany
      refine ⟨⟨?_, ?_⟩, rfl⟩
      · obtain ⟨e, hmem, hk⟩ := List.any_eq_true.mp hany
        have hlt : (c.entries.filter fun x => x.1 ≠ key).length < c.entries.length := by
          apply List.length_filter_lt_length_iff_exists.mpr
          exact ⟨e, hmem, by simpa using hk⟩
        simp only [List.length_cons]; omega
      · simp only [List.map_cons, List.nodup_cons]; exact ⟨f2, f1⟩
    · rename_i hany
      have hnot : key ∉ c.entries.map (·.1) := by
        intro hm
        obtain ⟨x, hx, hk⟩ := List.mem_map.mp hm
        exact hany (List.any_eq_true.mpr ⟨x, hx, by simpa using hk⟩)
      split
      · refine ⟨⟨?_, ?_⟩, rfl⟩
        · simp only [List.length_cons, List.length_dropLast]; omega
        · simp only [List.map_cons, List.nodup_cons]
          refine ⟨?_, (List.Sublist.map _ (List.dropLast_sublist _)).nodup hnd⟩
          intro hm
          obtain ⟨x, hx, hk⟩ := List.mem_map.mp hm
          exact hnot (List.mem_map.mpr ⟨x, List.dropLast_subset _ hx, hk⟩)
      · refine ⟨⟨?_, ?_⟩, rfl⟩
        · simp only [List.length_cons]; omega
        · simp only [List.map_cons, List.nodup_cons]; exact ⟨hnot, hnd⟩

theorem readBlock_sized (C : Compression) (sf : StoreFile) (c : BlockCache) (cp : Checkpoint) (h : CacheSized c) :
    CacheSized (readBlock C sf c cp).2 ∧ (readBlock C sf c cp).2.cap = c.cap := by
  unfold readBlock
  obtain ⟨g1, g2⟩ := cache_get_sized c cp.byteStart h
  rcases hget : c.get cp.byteStart with ⟨ob, c'⟩
  rw [hget] at g1 g2
  cases ob with
  | some b => exact ⟨g1, g2⟩
  | none =>
    cases hr : readBlockRaw C sf cp with
    | none => exact ⟨g1, g2⟩
    | some b =>
      obtain ⟨p1, p2⟩ := cache_put_sized c' cp.byteStart b g1
      exact ⟨p1, by rw [p2]; exact g2⟩

theorem runGets_sized (C : Compression) (sf : StoreFile) (ds : List Nat) : ∀ (c : BlockCache), CacheSized c →
    CacheSized (runGets C sf c ds).2 ∧ (runGets C sf c ds).2.cap = c.cap := by
  induction ds with
  | nil => intro c h; exact ⟨h, rfl⟩
  | cons d ds ih =>
    intro c h
    simp only [runGets]
    have step : CacheSized (getBytesCached C sf c d).2 ∧ (getBytesCached C sf c d).2.cap = c.cap := by
      unfold getBytesCached
      cases hs : seek sf.index d with
      | none => exact ⟨h, rfl⟩
      | some cp =>
        obtain ⟨r1, r2⟩ := readBlock_sized C sf c cp h
        simp only
        generalize readBlock C sf c cp = rb at r1 r2 ⊢
        obtain ⟨ob, c'⟩ := rb
        cases ob <;> exact ⟨r1, r2⟩
    obtain ⟨i1, i2⟩ := ih _ step.1
    exact ⟨i1, by rw [i2]; exact step.2⟩

end TantivyModel.Store
