import TantivyModel.Proofs.Store.Writer
/-! `iter_raw` yields the live documents in doc-id order (C09). -/
namespace TantivyModel.Store
open TantivyModel

/-- `SkipIndex::checkpoints()` of the finished index are the inserted checkpoints -/
theorem checkpointsOf_finished (P : Nat) (hP : 2 ≤ P) (cps : List Checkpoint) (hne : cps ≠ [])
    (hc : ChainFrom 0 0 cps) : checkpointsOf (finishedLayers P cps) = cps := by
  obtain ⟨hok, hnn⟩ := layersOK_built P hP cps hne
  unfold checkpointsOf finishedLayers
  cases hb : finishLayers (buildLayers P cps) none with
  | nil => exact absurd hb hnn
  | cons buf uppers =>
    rw [hb] at hok
    obtain ⟨_, blocks, hbne, hflat, hbuf, _⟩ := hok
    simp only [List.reverse_cons, List.getLast?_append, List.getLast?_singleton, Option.some_or]
    show layerCursor (buf.length + 1) (buf.drop 0) = cps
    rw [List.drop_zero, hbuf, layerCursor_enc blocks _ 0 0 (by have := blocks_le_length blocks; omega) hbne
      (by rw [hflat]; exact hc), hflat]

/-- the live documents among `xs`, the first of which has doc id `doc` -/
def aliveFrom (alive : Nat → Bool) : Nat → List Bytes → List (Option Bytes)
  | _, [] => []
  | doc, x :: xs => (if alive doc then [some x] else []) ++ aliveFrom alive (doc + 1) xs

theorem readBlockRaw_at (C : Compression) (hrt : ∀ b, C.decomp (C.comp b) = some b) (sf : StoreFile)
    (pre rest : Bytes) (d : Nat) (g : List Bytes) (hdata : sf.data = pre ++ (C.comp (blockOf g) ++ rest)) :
    readBlockRaw C sf (cpOf C d pre.length g) = some (blockOf g) := by
  unfold readBlockRaw
  rw [hdata]
  have h1 : (cpOf C d pre.length g).byteStart ≤ (cpOf C d pre.length g).byteEnd ∧
      (cpOf C d pre.length g).byteEnd ≤ (pre ++ (C.comp (blockOf g) ++ rest)).length := by
    simp [cpOf]
  rw [if_pos h1]
  simp only [cpOf]
  rw [List.drop_left, show pre.length + (C.comp (blockOf g)).length - pre.length
    = (C.comp (blockOf g)).length by omega, List.take_left, hrt]

/-- the loop of `iter_raw`, positioned inside group `g` at `pos`, yields the rest of `g` and every
later group, live documents only -/
theorem iterLoop_laid (C : Compression) (hrt : ∀ b, C.decomp (C.comp b) = some b) (sf : StoreFile)
    (alive : Nat → Bool) :
    ∀ (gs : List (List Bytes)) (g : List Bytes) (k pos d : Nat) (pre : Bytes) (cs : List Checkpoint) (rest : Bytes),
    pos + k = g.length → g ≠ [] → Fits g → (∀ g' ∈ gs, g' ≠ [] ∧ Fits g') →
    Laid C (d + g.length) (pre ++ C.comp (blockOf g)).length gs cs rest →
    sf.data = pre ++ (C.comp (blockOf g) ++ rest) →
    iterLoop C sf alive (k + gs.flatten.length) (d + pos) (some (cpOf C d pre.length g)) cs
        (some (some (blockOf g))) pos
      = aliveFrom alive (d + pos) (g.drop pos ++ gs.flatten) := by
  intro gs
  induction gs with
  | nil =>
    intro g k
    induction k with
    | zero =>
      intro pos d pre cs rest hk _ _ _ _ _
      have : g.drop pos = [] := List.drop_eq_nil_of_le (by omega)
      simp [iterLoop, this, aliveFrom]
    | succ k ih =>
      intro pos d pre cs rest hk hg hfit hgs hl hdata
      have hpos : pos < g.length := by omega
      have hdrop : g.drop pos = g[pos] :: g.drop (pos + 1) := by simp
      have hmoved : decide (d + pos ≥ (cpOf C d pre.length g).docEnd) = false := by
        simp [cpOf]; omega
      have := ih (pos + 1) d pre cs rest (by omega) hg hfit hgs hl hdata
      rw [show k + 1 + ([] : List (List Bytes)).flatten.length
        = (k + ([] : List (List Bytes)).flatten.length) + 1 by omega]
      simp only [List.flatten_nil, List.append_nil] at this ⊢
      rw [hdrop]
      simp only [iterLoop, hmoved, Bool.false_eq_true, if_false, aliveFrom]
      rw [docFromBlock_getElem g pos hpos hfit.1 hfit.2, show d + pos + 1 = d + (pos + 1) by omega, this]
  | cons g' gs' ihg =>
    intro g k
    induction k with
    | zero =>
      intro pos d pre cs rest hk hg hfit hgs hl hdata
      have hpos : pos = g.length := by omega
      subst hpos
      obtain ⟨hg'ne, hg'fit⟩ := hgs g' (List.mem_cons_self ..)
      obtain ⟨cs', rest', rfl, rfl, hl'⟩ := hl
      have hdrop : g.drop g.length = [] := List.drop_eq_nil_of_le (Nat.le_refl _)
      have hlen' : 0 < g'.length := List.length_pos_iff.mpr hg'ne
      -- at least one more document: the loop moves to the next checkpoint
      have hn : 0 + (g' :: gs').flatten.length = (g'.length - 1 + gs'.flatten.length) + 1 := by
        simp only [List.flatten_cons, List.length_append]; omega
      rw [hn]
      have hmoved : decide (d + g.length ≥ (cpOf C d pre.length g).docEnd) = true := by simp [cpOf]
      have hdata' : sf.data = (pre ++ C.comp (blockOf g)) ++ (C.comp (blockOf g') ++ rest') := by
        rw [hdata]; simp
      have hread := readBlockRaw_at C hrt sf (pre ++ C.comp (blockOf g)) rest' (d + g.length) g' hdata'
      have hrec := ihg g' (g'.length - 1) 1 (d + g.length) (pre ++ C.comp (blockOf g)) cs' rest'
        (by omega) hg'ne hg'fit (fun x hx => hgs x (List.mem_cons_of_mem _ hx))
        (by simpa [List.length_append, Nat.add_assoc] using hl') hdata'
      have hsplit : g' = g'[0] :: g'.drop 1 := by
        cases g' with
        | nil => exact absurd rfl hg'ne
        | cons y ys => simp
      simp only [iterLoop, hmoved, if_true, List.head?_cons, List.tail_cons, Option.map_some, hread]
      rw [docFromBlock_getElem g' 0 hlen' hg'fit.1 hg'fit.2]
      rw [show d + g.length + 1 = d + g.length + 1 from rfl] at hrec
      rw [show (0 : Nat) + 1 = 1 from rfl, hrec, hdrop]
      simp only [List.nil_append, List.flatten_cons]
      conv => rhs; rw [hsplit]
      simp only [List.cons_append, aliveFrom]
    | succ k ih =>
      intro pos d pre cs rest hk hg hfit hgs hl hdata
      have hpos : pos < g.length := by omega
      have hdrop : g.drop pos = g[pos] :: g.drop (pos + 1) := by simp
      have hmoved : decide (d + pos ≥ (cpOf C d pre.length g).docEnd) = false := by
        simp [cpOf]; omega
      have := ih (pos + 1) d pre cs rest (by omega) hg hfit hgs hl hdata
      rw [hdrop]
      rw [show k + 1 + (g' :: gs').flatten.length = (k + (g' :: gs').flatten.length) + 1 by omega]
      simp only [iterLoop, hmoved, Bool.false_eq_true, if_false, List.cons_append, aliveFrom]
      rw [docFromBlock_getElem g pos hpos hfit.1 hfit.2, show d + pos + 1 = d + (pos + 1) by omega, this]

/-- `iter_raw` on a laid-out store -/
theorem iterRaw_laid (C : Compression) (hrt : ∀ b, C.decomp (C.comp b) = some b) (P : Nat) (hP : 2 ≤ P)
    (groups : List (List Bytes)) (cps : List Checkpoint) (data : Bytes)
    (hl : Laid C 0 0 groups cps data) (hg : ∀ g ∈ groups, g ≠ [] ∧ Fits g) (hne : groups ≠ [])
    (sf : StoreFile) (hdata : sf.data = data) (hidx : sf.index = finishedLayers P cps) (alive : Nat → Bool) :
    iterRaw C sf alive = aliveFrom alive 0 groups.flatten := by
  have hc := laid_chain C groups 0 0 cps data hl
  have hend := laid_endD C groups 0 0 cps data hl
  cases groups with
  | nil => exact absurd rfl hne
  | cons g gs =>
    obtain ⟨cs, rest, rfl, rfl, hl'⟩ := hl
    obtain ⟨hgne, hgfit⟩ := hg g (List.mem_cons_self ..)
    unfold iterRaw
    rw [hidx, checkpointsOf_finished P hP _ (by simp) hc]
    have hlast : (((cpOf C 0 0 g :: cs).getLast?.map (·.docEnd)).getD 0) = (g :: gs).flatten.length := by
      have := getLast_docEnd cs (cpOf C 0 0 g) (cpOf C 0 0 g) 0
      rw [hend] at this
      cases hh : (cpOf C 0 0 g :: cs).getLast? with
      | none => simp at hh
      | some c => rw [hh] at this; simpa using this
    simp only [hlast, List.head?_cons, List.tail_cons, Option.map_some]
    have hdata' : sf.data = ([] : Bytes) ++ (C.comp (blockOf g) ++ rest) := by simpa using hdata
    have hread := readBlockRaw_at C hrt sf [] rest 0 g hdata'
    simp only [List.length_nil] at hread
    rw [hread]
    have := iterLoop_laid C hrt sf alive gs g g.length 0 0 [] cs rest (by omega) hgne hgfit
      (fun x hx => hg x (List.mem_cons_of_mem _ hx)) (by simpa using hl') hdata'
    simp only [Nat.add_zero, List.length_nil, List.drop_zero] at this
    rw [List.flatten_cons, List.length_append]
    exact this

end TantivyModel.Store
