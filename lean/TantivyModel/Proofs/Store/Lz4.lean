import TantivyModel.Model.Store.Lz4
import TantivyModel.Proofs.Store.WriterBound
/-! The LZ4 block decoder inverts the reference encoders (C09). -/
namespace TantivyModel.Store
open TantivyModel

theorem lz4ReadExt_enc : ∀ (g m acc f : Nat) (rest : Bytes), m ≤ g → (lz4EncExt g m).length ≤ f →
    lz4ReadExt f acc (lz4EncExt g m ++ rest) = some (acc + m, rest) := by
  intro g
  induction g with
  | zero =>
    intro m acc f rest hm hf
    have : m = 0 := by omega
    subst this
    cases f with
    | zero => simp [lz4EncExt] at hf
    | succ f => simp [lz4EncExt, lz4ReadExt]
  | succ g ih =>
    intro m acc f rest hm hf
    by_cases h : m ≥ 255
    · simp only [lz4EncExt, h, if_true, List.length_cons] at hf ⊢
      cases f with
      | zero => omega
      | succ f =>
        have h255 : (255 : UInt8).toNat = 255 := by decide
        simp only [List.cons_append, lz4ReadExt, h255, if_true]
        rw [ih (m - 255) (acc + 255) f rest (by omega) (by omega)]
        have hsum : acc + 255 + (m - 255) = acc + m := by omega
        rw [hsum]
    · simp only [lz4EncExt, h, if_false] at hf ⊢
      cases f with
      | zero => simp at hf
      | succ f =>
        have e : (UInt8.ofNat m).toNat = m := by rw [UInt8.toNat_ofNat']; omega
        have hne : ¬ (m = 255) := by omega
        simp only [List.cons_append, List.nil_append, lz4ReadExt, e, hne, if_false]

theorem lz4EncExt_length_le (g m : Nat) : (lz4EncExt g m).length ≤ g + 1 := by
  induction g generalizing m with
  | zero => simp [lz4EncExt]
  | succ g ih =>
    simp only [lz4EncExt]
    split
    · simp only [List.length_cons]; have := ih (m - 255); omega
    · simp

/-- the decoder returns the input of the literal-only reference encoder -/
theorem lz4Decode_literal (b : Bytes) : lz4Decode (lz4EncodeLiteral b) = some b := by
  unfold lz4Decode lz4EncodeLiteral
  by_cases h : b.length < 15
  · simp only [h, if_true, List.length_cons]
    have e : (UInt8.ofNat (b.length * 16)).toNat = b.length * 16 := by rw [UInt8.toNat_ofNat']; omega
    have hd : b.length * 16 / 16 = b.length := by omega
    have hn : ¬ (b.length = 15) := by omega
    simp only [lz4DecodeAux, e, hd, lz4ReadLen, hn, if_false, Option.bind_some]
    have h1 : ¬ (b.length < b.length) := Nat.lt_irrefl _
    simp only [h1, if_false, List.take_length, List.drop_length, List.isEmpty_nil, if_true,
      List.append_nil, Option.map_some, List.reverse_reverse]
  · simp only [h, if_false, List.length_cons]
    have ht : (240 : UInt8).toNat / 16 = 15 := by decide
    simp only [lz4DecodeAux, ht, lz4ReadLen, if_true]
    have hfuel : (lz4EncExt b.length (b.length - 15)).length ≤ (lz4EncExt b.length (b.length - 15) ++ b).length + 1 := by
      simp only [List.length_append]; omega
    rw [lz4ReadExt_enc b.length (b.length - 15) 15 _ b (by omega) hfuel]
    have hl : 15 + (b.length - 15) = b.length := by omega
    simp only [Option.bind_some, hl, Nat.lt_irrefl, if_false, List.take_length, List.drop_length,
      List.isEmpty_nil, if_true, List.append_nil, Option.map_some, List.reverse_reverse]

/-- an overlapping match at offset 1 repeats the last byte -/
theorem lz4CopyMatch_run (x : UInt8) : ∀ (m : Nat) (out : Bytes),
    lz4CopyMatch m 1 (x :: out) = some (List.replicate m x ++ x :: out) := by
  intro m
  induction m with
  | zero => intro out; rfl
  | succ m ih =>
    intro out
    simp only [lz4CopyMatch, Nat.one_ne_zero, if_false, Nat.sub_self, List.getElem?_cons_zero]
    rw [ih (x :: out)]
    congr 1
    rw [List.replicate_succ']
    simp

theorem lz4Raw_good : ∀ b, lz4Raw.dec b.length (lz4Raw.enc b) = some b := fun b => lz4Decode_literal b

/-- a block with one literal and one overlapping match at offset 1 (a run), then the empty final
sequence: `[0x10 + k, x, 1, 0, 0x00]` decodes to `k + 5` copies of `x` -/
def lz4RunBlock (x : UInt8) (k : Nat) : Bytes := [UInt8.ofNat (16 + k), x, 1, 0, 0]

theorem lz4Decode_run (x : UInt8) (k : Nat) (hk : k ≤ 14) :
    lz4Decode (lz4RunBlock x k) = some (List.replicate (k + 5) x) := by
  have e : (UInt8.ofNat (16 + k)).toNat = 16 + k := by rw [UInt8.toNat_ofNat']; omega
  have h1 : (16 + k) / 16 = 1 := by omega
  have h2 : (16 + k) % 16 = k := by omega
  have hk15 : ¬ (k = 15) := by omega
  have hone : (1 : UInt8).toNat + 256 * (0 : UInt8).toNat = 1 := by decide
  have hz : (0 : UInt8).toNat / 16 = 0 := by decide
  unfold lz4Decode lz4RunBlock
  simp only [List.length_cons, List.length_nil, lz4DecodeAux, e, h1, h2, lz4ReadLen, hk15, if_false,
    Option.bind_some, Nat.reduceEqDiff, Nat.reduceLT, List.take_succ_cons, List.take_zero, List.drop_succ_cons,
    List.drop_zero, List.isEmpty_cons, Bool.false_eq_true, List.reverse_cons, List.reverse_nil, List.nil_append,
    List.append_nil, hone]
  rw [lz4CopyMatch_run x (k + 4) []]
  simp only [Option.bind_some, List.isEmpty_cons, Bool.false_eq_true, if_false, lz4DecodeAux, hz, lz4ReadLen,
    Nat.reduceEqDiff, List.length_nil, Nat.not_lt_zero, List.take_zero, List.drop_zero, List.isEmpty_nil,
    if_true, List.reverse_nil, List.nil_append, Option.map_some]
  have hlt : ¬ (0 + 1 + 1 + 1 + 1 < 1) := by omega
  simp only [hlt, if_false, Option.map_some, Option.some.injEq]
  rw [List.reverse_append, List.reverse_replicate]
  simp [List.replicate_succ]

end TantivyModel.Store
