import TantivyModel.Proofs.Store.Framing
/-! The blocks `StoreWriter` cuts stay small: block size + one document + the index (C09).
Needed for codecs whose frame stores the block length as a `u32` (lz4, zstd). -/
namespace TantivyModel.Store
open TantivyModel

/-- `WInv` together with a bound on every flushed group: documents plus `K` per document fit the
block size, up to the one document (at most `M` bytes) that triggered the flush -/
def WInvB (C : Compression) (K M : Nat) (w : Writer) (docs : List Bytes) : Prop :=
  ∃ (groups : List (List Bytes)) (curDocs : List Bytes),
    groups.flatten ++ curDocs = docs ∧ Laid C 0 0 groups w.checkpoints w.written ∧
    w.cur = curDocs.flatten ∧ w.docPos = offsets 0 curDocs ∧ w.numDocs = curDocs.length ∧
    w.firstDoc = groups.flatten.length ∧ (∀ g ∈ groups, g ≠ [] ∧ Fits g) ∧
    (∀ x ∈ curDocs, x ≠ []) ∧ curDocs.flatten.length + curDocs.length * K ≤ w.blockSize ∧
    (∀ g ∈ groups, g.flatten.length + g.length * K ≤ w.blockSize + M + K)

theorem winvB_new (C : Compression) (K M bs : Nat) : WInvB C K M (Writer.new bs) [] :=
  ⟨[], [], rfl, ⟨rfl, rfl⟩, rfl, rfl, rfl, rfl, by simp, by simp, by simp [Writer.new], by simp⟩

theorem winvB_store (C : Compression) (K M : Nat) (hK : 1 ≤ K) (w : Writer) (docs : List Bytes) (doc : Bytes)
    (hdoc : doc ≠ []) (hM : doc.length ≤ M) (hfit : w.blockSize + doc.length < 4294967296)
    (h : WInvB C K M w docs) :
    WInvB C K M (w.storeBytes C K doc) (docs ++ [doc]) ∧ (w.storeBytes C K doc).blockSize = w.blockSize := by
  obtain ⟨groups, curDocs, hd, hl, hcur, hpos, hnum, hfirst, hg, hne, hsz, hbd⟩ := h
  have hne' : ∀ x ∈ curDocs ++ [doc], x ≠ [] := by
    intro x hx
    rcases List.mem_append.mp hx with h | h
    · exact hne x h
    · simp at h; subst h; exact hdoc
  have hpos' : w.docPos ++ [w.cur.length] = offsets 0 (curDocs ++ [doc]) := by
    rw [offsets_append, hpos, hcur]; simp [offsets]
  have hcur' : w.cur ++ doc = (curDocs ++ [doc]).flatten := by rw [hcur]; simp
  have hflat : (curDocs ++ [doc]).flatten.length = curDocs.flatten.length + doc.length := by simp
  have hlen : (curDocs ++ [doc]).length * K = curDocs.length * K + K := by
    rw [List.length_append, List.length_singleton, Nat.add_mul, Nat.one_mul]
  unfold Writer.storeBytes
  simp only
  split
  · have := sendBlock_spec C
      { w with docPos := w.docPos ++ [w.cur.length], cur := w.cur ++ doc, numDocs := w.numDocs + 1 }
      groups (curDocs ++ [doc]) hl hcur' hpos' (by simp [hnum]) hfirst hne' (by simp)
    obtain ⟨h1, h2, h3, h4, h5, h6⟩ := this
    refine ⟨⟨groups ++ [curDocs ++ [doc]], [], by simp [← hd], h1, by simpa using h2, by simpa [offsets] using h3,
      by simpa using h4, h5, ?_, by simp, by simp, ?_⟩, h6⟩
    · intro g hgm
      rcases List.mem_append.mp hgm with h | h
      · exact hg g h
      · have hgeq : g = curDocs ++ [doc] := by simpa using h
        rw [hgeq]
        refine ⟨by simp, ?_, ?_⟩
        · rw [hflat]; omega
        · have : curDocs.length ≤ curDocs.length * K := Nat.le_mul_of_pos_right _ hK
          have : 0 < doc.length := List.length_pos_iff.mpr hdoc
          simp only [List.length_append, List.length_singleton]; omega
    · intro g hgm
      rw [h6]
      show g.flatten.length + g.length * K ≤ w.blockSize + M + K
      rcases List.mem_append.mp hgm with h | h
      · exact hbd g h
      · have hgeq : g = curDocs ++ [doc] := by simpa using h
        rw [hgeq, hflat, hlen]; omega
  · rename_i hno
    refine ⟨⟨groups, curDocs ++ [doc], by simp [← hd], hl, hcur', hpos', by simp [hnum], hfirst, hg, hne', ?_, hbd⟩, rfl⟩
    have e1 : (w.cur ++ doc).length = (curDocs ++ [doc]).flatten.length := by rw [hcur']
    have e2 : (w.docPos ++ [w.cur.length]).length = (curDocs ++ [doc]).length := by
      rw [hpos', offsets_length]
    have hno' : ¬ ((w.cur ++ doc).length + (w.docPos ++ [w.cur.length]).length * K > w.blockSize) := hno
    rw [e1, e2] at hno'
    show (curDocs ++ [doc]).flatten.length + (curDocs ++ [doc]).length * K ≤ w.blockSize
    omega

theorem winvB_fold (C : Compression) (K M : Nat) (hK : 1 ≤ K) (more : List Bytes) : ∀ (w : Writer) (docs : List Bytes),
    (∀ d ∈ more, d ≠ [] ∧ d.length ≤ M ∧ w.blockSize + d.length < 4294967296) → WInvB C K M w docs →
    WInvB C K M (more.foldl (Writer.storeBytes C K) w) (docs ++ more) ∧
      (more.foldl (Writer.storeBytes C K) w).blockSize = w.blockSize := by
  induction more with
  | nil => intro w docs _ h; simpa using h
  | cons d ds ih =>
    intro w docs hall h
    obtain ⟨hd1, hd2, hd3⟩ := hall d (List.mem_cons_self ..)
    obtain ⟨h1, h2⟩ := winvB_store C K M hK w docs d hd1 hd2 hd3 h
    have := ih (w.storeBytes C K d) (docs ++ [d]) (by
      intro x hx; rw [h2]; exact hall x (List.mem_cons_of_mem _ hx)) h1
    simp only [List.foldl_cons]
    rw [h2] at this
    simpa using this

/-- everything written, after the final flush of `close`, with the block bound -/
theorem written_laidB (C : Compression) (K M : Nat) (hK : 1 ≤ K) (bs : Nat) (docs : List Bytes)
    (hall : ∀ d ∈ docs, d ≠ [] ∧ d.length ≤ M ∧ bs + d.length < 4294967296) (hbs : bs < 4294967296) :
    let w := (docs.foldl (Writer.storeBytes C K) (Writer.new bs)).sendBlock C
    ∃ groups : List (List Bytes), groups.flatten = docs ∧ Laid C 0 0 groups w.checkpoints w.written ∧
      (∀ g ∈ groups, g ≠ [] ∧ Fits g) ∧ (∀ g ∈ groups, g.flatten.length + g.length * K ≤ bs + M + K) := by
  obtain ⟨h, hb⟩ := winvB_fold C K M hK docs (Writer.new bs) [] (by simpa [Writer.new] using hall)
    (winvB_new C K M bs)
  simp only [List.nil_append] at h
  obtain ⟨groups, curDocs, hd, hl, hcur, hpos, hnum, hfirst, hg, hne, hsz, hbd⟩ := h
  have hbs' : (docs.foldl (Writer.storeBytes C K) (Writer.new bs)).blockSize = bs := by rw [hb]; rfl
  rw [hbs'] at hsz hbd
  intro w
  by_cases hcd : curDocs = []
  · subst hcd
    have : (docs.foldl (Writer.storeBytes C K) (Writer.new bs)).cur.isEmpty = true := by rw [hcur]; rfl
    have hw : w = docs.foldl (Writer.storeBytes C K) (Writer.new bs) := by
      show Writer.sendBlock C _ = _
      simp [Writer.sendBlock, this]
    rw [hw]
    exact ⟨groups, by simpa using hd, hl, hg, hbd⟩
  · obtain ⟨h1, _⟩ := sendBlock_spec C _ groups curDocs hl hcur hpos hnum hfirst hne hcd
    refine ⟨groups ++ [curDocs], by simp [← hd], h1, ?_, ?_⟩
    · intro g hgm
      rcases List.mem_append.mp hgm with h | h
      · exact hg g h
      · have hgeq : g = curDocs := by simpa using h
        rw [hgeq]
        refine ⟨hcd, by omega, ?_⟩
        have : curDocs.length ≤ curDocs.length * K := Nat.le_mul_of_pos_right _ hK
        omega
    · intro g hgm
      rcases List.mem_append.mp hgm with h | h
      · exact hbd g h
      · have hgeq : g = curDocs := by simpa using h
        rw [hgeq]; omega

theorem sum_map_length (g : List Bytes) : (g.map List.length).sum = g.flatten.length := by
  induction g with
  | nil => rfl
  | cons x xs ih =>
    simp only [List.map_cons, List.sum_cons, List.flatten_cons, List.length_append]
    rw [ih]

/-- with at least 4 bytes of index estimate per document (`K ≥ 4`; the code has 8) a bounded group
gives a bounded block -/
theorem blockLen_le (K : Nat) (hK : 4 ≤ K) (g : List Bytes) (B : Nat)
    (h : g.flatten.length + g.length * K ≤ B) : blockLenOf (g.map List.length) ≤ B + 4 := by
  unfold blockLenOf
  rw [sum_map_length, List.length_map]
  have : g.length * 4 ≤ g.length * K := Nat.mul_le_mul_left _ hK
  omega

end TantivyModel.Store
