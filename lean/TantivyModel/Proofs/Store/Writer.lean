import TantivyModel.Proofs.Store.Block
import TantivyModel.Proofs.Store.SkipIndex
/-! What `StoreWriter` writes is what `StoreReader::get` reads (C09). -/
namespace TantivyModel.Store
open TantivyModel

/-- a group of documents fits the u32 offsets of a block -/
def Fits (g : List Bytes) : Prop := g.flatten.length < 4294967296 ∧ g.length < 4294967296

def cpOf (C : Compression) (d b : Nat) (g : List Bytes) : Checkpoint :=
  { docStart := d, docEnd := d + g.length, byteStart := b, byteEnd := b + (C.comp (blockOf g)).length }

/-- `data` (the bytes from offset `b` on) and `cps` are the blocks of `groups`, one compressed
block and one checkpoint per group, starting at doc `d` -/
def Laid (C : Compression) : Nat → Nat → List (List Bytes) → List Checkpoint → Bytes → Prop
  | _, _, [], cps, data => cps = [] ∧ data = []
  | d, b, g :: gs, cps, data =>
    ∃ cs rest, cps = cpOf C d b g :: cs ∧ data = C.comp (blockOf g) ++ rest ∧
      Laid C (d + g.length) (b + (C.comp (blockOf g)).length) gs cs rest

theorem laid_snoc (C : Compression) (g : List Bytes) : ∀ (gs : List (List Bytes)) (d b : Nat)
    (cps : List Checkpoint) (data : Bytes), Laid C d b gs cps data →
    Laid C d b (gs ++ [g]) (cps ++ [cpOf C (d + gs.flatten.length) (b + data.length) g])
      (data ++ C.comp (blockOf g)) := by
  intro gs
  induction gs with
  | nil =>
    intro d b cps data h
    obtain ⟨rfl, rfl⟩ := h
    exact ⟨[], [], by simp, by simp, rfl, rfl⟩
  | cons x xs ih =>
    intro d b cps data h
    obtain ⟨cs, rest, rfl, rfl, hl⟩ := h
    refine ⟨cs ++ [_], rest ++ C.comp (blockOf g), rfl, by simp, ?_⟩
    have := ih _ _ _ _ hl
    simp only [List.flatten_cons, List.length_append] at this ⊢
    rw [show d + (x.length + xs.flatten.length) = d + x.length + xs.flatten.length by omega,
        show b + ((C.comp (blockOf x)).length + rest.length) = b + (C.comp (blockOf x)).length + rest.length by omega]
    exact this

theorem laid_chain (C : Compression) : ∀ (gs : List (List Bytes)) (d b : Nat) (cps : List Checkpoint)
    (data : Bytes), Laid C d b gs cps data → ChainFrom d b cps := by
  intro gs
  induction gs with
  | nil => intro d b cps data h; obtain ⟨rfl, _⟩ := h; trivial
  | cons g gs ih =>
    intro d b cps data h
    obtain ⟨cs, rest, rfl, _, hl⟩ := h
    exact ⟨rfl, rfl, by simp [cpOf], by simp [cpOf], ih _ _ _ _ hl⟩

theorem laid_endD (C : Compression) : ∀ (gs : List (List Bytes)) (d b : Nat) (cps : List Checkpoint)
    (data : Bytes), Laid C d b gs cps data → endD d cps = d + gs.flatten.length := by
  intro gs
  induction gs with
  | nil => intro d b cps data h; obtain ⟨rfl, _⟩ := h; simp [endD]
  | cons g gs ih =>
    intro d b cps data h
    obtain ⟨cs, rest, rfl, _, hl⟩ := h
    simp only [endD, cpOf, List.flatten_cons, List.length_append]
    rw [ih _ _ _ _ hl]; omega

theorem laid_cps_length (C : Compression) : ∀ (gs : List (List Bytes)) (d b : Nat) (cps : List Checkpoint)
    (data : Bytes), Laid C d b gs cps data → cps.length = gs.length := by
  intro gs
  induction gs with
  | nil => intro d b cps data h; obtain ⟨rfl, _⟩ := h; rfl
  | cons g gs ih =>
    intro d b cps data h
    obtain ⟨cs, rest, rfl, _, hl⟩ := h
    simp [ih _ _ _ _ hl]

/-- the checkpoint found for `t` belongs to the group holding document `t`; its byte range cuts
exactly that group's compressed block out of the file -/
theorem laid_lookup (C : Compression) (t : Nat) : ∀ (gs : List (List Bytes)) (d : Nat) (pre : Bytes)
    (cps : List Checkpoint) (data : Bytes) (c : Checkpoint),
    Laid C d pre.length gs cps data → d ≤ t →
    cps.find? (endsAfter t) = some c →
    ∃ g, g ∈ gs ∧ c.docStart ≤ t ∧ t - c.docStart < g.length ∧
      gs.flatten[t - d]? = g[t - c.docStart]? ∧
      c.byteStart ≤ c.byteEnd ∧ c.byteEnd ≤ (pre ++ data).length ∧
      ((pre ++ data).drop c.byteStart).take (c.byteEnd - c.byteStart) = C.comp (blockOf g) := by
  intro gs
  induction gs with
  | nil => intro d pre cps data c h _ hf; obtain ⟨rfl, _⟩ := h; simp at hf
  | cons g gs ih =>
    intro d pre cps data c h hd hf
    obtain ⟨cs, rest, rfl, rfl, hl⟩ := h
    simp only [List.find?_cons] at hf
    by_cases he : endsAfter t (cpOf C d pre.length g) = true
    · simp only [he, Option.some.injEq] at hf
      subst hf
      have hlt : t < d + g.length := by simpa [endsAfter, cpOf] using he
      refine ⟨g, List.mem_cons_self .., by simpa [cpOf] using hd, by simp only [cpOf]; omega, ?_, by simp [cpOf],
        by simp [cpOf], ?_⟩
      · simp only [cpOf, List.flatten_cons]
        rw [List.getElem?_append_left (by omega)]
      · simp only [cpOf]
        rw [List.drop_left, show pre.length + (C.comp (blockOf g)).length - pre.length
          = (C.comp (blockOf g)).length by omega, List.take_left]
    · have he' : endsAfter t (cpOf C d pre.length g) = false := by simpa using he
      simp only [he'] at hf
      have hge : d + g.length ≤ t := by simpa [endsAfter, cpOf] using he'
      have hl' : Laid C (d + g.length) (pre ++ C.comp (blockOf g)).length gs cs rest := by
        simpa using hl
      obtain ⟨g', h1, h2, h3, h4, h5, h6, h7⟩ := ih _ (pre ++ C.comp (blockOf g)) _ _ c hl' hge hf
      refine ⟨g', List.mem_cons_of_mem _ h1, h2, h3, ?_, h5, by simpa using h6, by simpa using h7⟩
      simp only [List.flatten_cons]
      rw [List.getElem?_append_right (by omega), ← h4]
      congr 1; omega

/-! ### the writer -/

/-- state of the writer after the documents `docs` -/
def WInv (C : Compression) (K : Nat) (w : Writer) (docs : List Bytes) : Prop :=
  ∃ (groups : List (List Bytes)) (curDocs : List Bytes),
    groups.flatten ++ curDocs = docs ∧ Laid C 0 0 groups w.checkpoints w.written ∧
    w.cur = curDocs.flatten ∧ w.docPos = offsets 0 curDocs ∧ w.numDocs = curDocs.length ∧
    w.firstDoc = groups.flatten.length ∧ (∀ g ∈ groups, g ≠ [] ∧ Fits g) ∧
    (∀ x ∈ curDocs, x ≠ []) ∧ curDocs.flatten.length + curDocs.length * K ≤ w.blockSize

theorem winv_new (C : Compression) (K bs : Nat) : WInv C K (Writer.new bs) [] :=
  ⟨[], [], rfl, ⟨rfl, rfl⟩, rfl, rfl, rfl, rfl, by simp, by simp, by simp [Writer.new]⟩

theorem flatten_ne_nil_of (xs : List Bytes) (h : ∀ x ∈ xs, x ≠ []) (hne : xs ≠ []) : xs.flatten ≠ [] := by
  cases xs with
  | nil => exact absurd rfl hne
  | cons x xs =>
    have := h x (List.mem_cons_self ..)
    cases x with
    | nil => exact absurd rfl this
    | cons _ _ => simp

/-- flushing the current documents `curDocs` as one more group -/
theorem sendBlock_spec (C : Compression) (w : Writer) (groups : List (List Bytes)) (curDocs : List Bytes)
    (hl : Laid C 0 0 groups w.checkpoints w.written) (hcur : w.cur = curDocs.flatten)
    (hpos : w.docPos = offsets 0 curDocs) (hnum : w.numDocs = curDocs.length)
    (hfirst : w.firstDoc = groups.flatten.length) (hne : ∀ x ∈ curDocs, x ≠ []) (hcd : curDocs ≠ []) :
    let w' := w.sendBlock C
    Laid C 0 0 (groups ++ [curDocs]) w'.checkpoints w'.written ∧ w'.cur = [] ∧ w'.docPos = [] ∧
      w'.numDocs = 0 ∧ w'.firstDoc = (groups ++ [curDocs]).flatten.length ∧ w'.blockSize = w.blockSize := by
  have hnn : w.cur.isEmpty = false := by
    have := flatten_ne_nil_of curDocs hne hcd
    rw [← hcur] at this
    cases hw : w.cur with
    | nil => exact absurd hw this
    | cons _ _ => rfl
  have hblock : blockBytes w.cur w.docPos = blockOf curDocs := by rw [hcur, hpos]; rfl
  have hw : w.sendBlock C =
      { w with cur := [], docPos := [], numDocs := 0, firstDoc := w.firstDoc + w.numDocs,
               written := w.written ++ C.comp (blockOf curDocs),
               checkpoints := w.checkpoints ++ [cpOf C w.firstDoc w.written.length curDocs] } := by
    simp only [Writer.sendBlock, hnn, Bool.false_eq_true, if_false, hblock, cpOf, hnum]
  intro w'
  have hw' : w' = w.sendBlock C := rfl
  rw [hw', hw]
  have := laid_snoc C curDocs groups 0 0 _ _ hl
  simp only [Nat.zero_add] at this
  refine ⟨?_, rfl, rfl, rfl, ?_, rfl⟩
  · simp only; rw [hfirst]; exact this
  · simp [hfirst, hnum]

theorem winv_store (C : Compression) (K : Nat) (hK : 1 ≤ K) (w : Writer) (docs : List Bytes) (doc : Bytes)
    (hdoc : doc ≠ []) (hfit : w.blockSize + doc.length < 4294967296) (h : WInv C K w docs) :
    WInv C K (w.storeBytes C K doc) (docs ++ [doc]) ∧ (w.storeBytes C K doc).blockSize = w.blockSize := by
  obtain ⟨groups, curDocs, hd, hl, hcur, hpos, hnum, hfirst, hg, hne, hsz⟩ := h
  have hne' : ∀ x ∈ curDocs ++ [doc], x ≠ [] := by
    intro x hx
    rcases List.mem_append.mp hx with h | h
    · exact hne x h
    · simp at h; subst h; exact hdoc
  have hpos' : w.docPos ++ [w.cur.length] = offsets 0 (curDocs ++ [doc]) := by
    rw [offsets_append, hpos, hcur]; simp [offsets]
  have hcur' : w.cur ++ doc = (curDocs ++ [doc]).flatten := by rw [hcur]; simp
  unfold Writer.storeBytes
  simp only
  split
  · -- flush
    rename_i hflush
    have := sendBlock_spec C
      { w with docPos := w.docPos ++ [w.cur.length], cur := w.cur ++ doc, numDocs := w.numDocs + 1 }
      groups (curDocs ++ [doc]) hl hcur' hpos' (by simp [hnum]) hfirst hne' (by simp)
    obtain ⟨h1, h2, h3, h4, h5, h6⟩ := this
    refine ⟨⟨groups ++ [curDocs ++ [doc]], [], by simp [← hd], h1, by simpa using h2, by simpa [offsets] using h3,
      by simpa using h4, h5, ?_, by simp, by simp⟩, h6⟩
    intro g hgm
    rcases List.mem_append.mp hgm with h | h
    · exact hg g h
    · simp at h; subst h
      refine ⟨by simp, ?_, ?_⟩
      · simp only [List.flatten_append, List.length_append, List.flatten_cons, List.flatten_nil, List.append_nil]
        omega
      · simp only [List.length_append, List.length_singleton]
        have : curDocs.length ≤ curDocs.length * K := Nat.le_mul_of_pos_right _ hK
        have : 0 < doc.length := List.length_pos_iff.mpr hdoc
        omega
  · rename_i hno
    refine ⟨⟨groups, curDocs ++ [doc], by simp [← hd], hl, hcur', hpos', by simp [hnum], hfirst, hg, hne', ?_⟩, rfl⟩
    have e1 : (w.cur ++ doc).length = (curDocs ++ [doc]).flatten.length := by rw [hcur']
    have e2 : (w.docPos ++ [w.cur.length]).length = (curDocs ++ [doc]).length := by
      rw [hpos', offsets_length]
    have hno' : ¬ ((w.cur ++ doc).length + (w.docPos ++ [w.cur.length]).length * K > w.blockSize) := hno
    rw [e1, e2] at hno'
    show (curDocs ++ [doc]).flatten.length + (curDocs ++ [doc]).length * K ≤ w.blockSize
    omega

theorem winv_fold (C : Compression) (K : Nat) (hK : 1 ≤ K) (more : List Bytes) : ∀ (w : Writer) (docs : List Bytes),
    (∀ d ∈ more, d ≠ [] ∧ w.blockSize + d.length < 4294967296) → WInv C K w docs →
    WInv C K (more.foldl (Writer.storeBytes C K) w) (docs ++ more) ∧
      (more.foldl (Writer.storeBytes C K) w).blockSize = w.blockSize := by
  induction more with
  | nil => intro w docs _ h; simpa using h
  | cons d ds ih =>
    intro w docs hall h
    obtain ⟨hd1, hd2⟩ := hall d (List.mem_cons_self ..)
    obtain ⟨h1, h2⟩ := winv_store C K hK w docs d hd1 hd2 h
    have := ih (w.storeBytes C K d) (docs ++ [d]) (by
      intro x hx; rw [h2]; exact hall x (List.mem_cons_of_mem _ hx)) h1
    simp only [List.foldl_cons]
    rw [h2] at this
    simpa using this

/-- everything written, after the final flush of `close` -/
theorem written_laid (C : Compression) (K : Nat) (hK : 1 ≤ K) (bs : Nat) (docs : List Bytes)
    (hall : ∀ d ∈ docs, d ≠ [] ∧ bs + d.length < 4294967296) (hbs : bs < 4294967296) :
    let w := (docs.foldl (Writer.storeBytes C K) (Writer.new bs)).sendBlock C
    ∃ groups : List (List Bytes), groups.flatten = docs ∧ Laid C 0 0 groups w.checkpoints w.written ∧
      (∀ g ∈ groups, g ≠ [] ∧ Fits g) := by
  obtain ⟨h, hb⟩ := winv_fold C K hK docs (Writer.new bs) [] (by simpa [Writer.new] using hall) (winv_new C K bs)
  simp only [List.nil_append] at h
  obtain ⟨groups, curDocs, hd, hl, hcur, hpos, hnum, hfirst, hg, hne, hsz⟩ := h
  intro w
  by_cases hcd : curDocs = []
  · subst hcd
    have : (docs.foldl (Writer.storeBytes C K) (Writer.new bs)).cur.isEmpty = true := by rw [hcur]; rfl
    have hw : w = docs.foldl (Writer.storeBytes C K) (Writer.new bs) := by
      show Writer.sendBlock C _ = _
      simp [Writer.sendBlock, this]
    rw [hw]
    exact ⟨groups, by simpa using hd, hl, hg⟩
  · obtain ⟨h1, _⟩ := sendBlock_spec C _ groups curDocs hl hcur hpos hnum hfirst hne hcd
    refine ⟨groups ++ [curDocs], by simp [← hd], h1, ?_⟩
    intro g hgm
    rcases List.mem_append.mp hgm with h | h
    · exact hg g h
    · have hgeq : g = curDocs := by simpa using h
      rw [hgeq]
      have hbs' : (docs.foldl (Writer.storeBytes C K) (Writer.new bs)).blockSize = bs := by rw [hb]; rfl
      rw [hbs'] at hsz
      refine ⟨hcd, by omega, ?_⟩
      have : curDocs.length ≤ curDocs.length * K := Nat.le_mul_of_pos_right _ hK
      omega

/-! ### the reader on a laid-out file -/

theorem getBytes_laid_on (C : Compression) (P : Nat) (hP : 2 ≤ P)
    (groups : List (List Bytes)) (cps : List Checkpoint) (data : Bytes)
    (hrt : ∀ g ∈ groups, C.decomp (C.comp (blockOf g)) = some (blockOf g))
    (hl : Laid C 0 0 groups cps data) (hg : ∀ g ∈ groups, g ≠ [] ∧ Fits g) (hne : groups ≠ [])
    (sf : StoreFile) (hdata : sf.data = data) (hidx : sf.index = finishedLayers P cps) (t : Nat) :
    getBytes C sf t = groups.flatten[t]? := by
  have hc := laid_chain C groups 0 0 cps data hl
  have hcne : cps ≠ [] := by
    intro h
    have := laid_cps_length C groups 0 0 cps data hl
    rw [h] at this
    exact hne (List.length_eq_zero_iff.mp this.symm)
  have hs := seek_finished P hP cps hcne hc t
  have hend := laid_endD C groups 0 0 cps data hl
  obtain ⟨f1, f2⟩ := find_endsAfter_spec t cps 0 0 hc (Nat.zero_le _)
  unfold getBytes
  rw [hidx, hs]
  by_cases hlt : t < groups.flatten.length
  · obtain ⟨c, hf, _, _, _⟩ := f1 (by rw [hend]; omega)
    rw [hf]
    simp only [Option.bind_some]
    obtain ⟨g, hgm, h2, h3, h4, h5, h6, h7⟩ := laid_lookup C t groups 0 [] cps data c (by simpa using hl)
      (Nat.zero_le _) hf
    simp only [List.nil_append, Nat.sub_zero] at h4 h6 h7
    have hraw : readBlockRaw C sf c = some (blockOf g) := by
      unfold readBlockRaw
      rw [hdata]
      simp only [h5, h6, and_self, if_true, h7, hrt g hgm]
    rw [hraw]
    simp only [Option.bind_some]
    obtain ⟨_, hfit1, hfit2⟩ := hg g hgm
    rw [docFromBlock_getElem g _ h3 hfit1 hfit2, h4]
    simp [h3]
  · have : cps.find? (endsAfter t) = none := f2 (by rw [hend]; omega)
    rw [this]
    simp only [Option.bind_none]
    rw [List.getElem?_eq_none (by omega)]

theorem getBytes_laid (C : Compression) (hrt : ∀ b, C.decomp (C.comp b) = some b) (P : Nat) (hP : 2 ≤ P)
    (groups : List (List Bytes)) (cps : List Checkpoint) (data : Bytes)
    (hl : Laid C 0 0 groups cps data) (hg : ∀ g ∈ groups, g ≠ [] ∧ Fits g) (hne : groups ≠ [])
    (sf : StoreFile) (hdata : sf.data = data) (hidx : sf.index = finishedLayers P cps) (t : Nat) :
    getBytes C sf t = groups.flatten[t]? :=
  getBytes_laid_on C P hP groups cps data (fun g _ => hrt _) hl hg hne sf hdata hidx t

/-! ### `close` then `open` -/

/-- what the reader holds after `StoreWriter::close` and `StoreReader::open` -/
def writtenStore (C : Compression) (K P bs : Nat) (docs : List Bytes) : StoreFile :=
  let w := (docs.foldl (Writer.storeBytes C K) (Writer.new bs)).sendBlock C
  { data := w.written, index := finishedLayers P w.checkpoints, decompId := C.id,
    version := Gen.DOC_STORE_VERSION }

theorem footerBytes_length (off id : Nat) : (footerBytes off id).length = Gen.DOCSTORE_FOOTER_LEN := by
  simp [footerBytes, u32le, leBytes_length, List.length_replicate]
  decide

theorem openStore_close (C : Compression) (P : Nat) (w : Writer) (hid : C.id < 256)
    (hlen : (w.sendBlock C).written.length < 2 ^ 64) :
    openStore (w.close C P) = some
      { data := (w.sendBlock C).written, index := finishedLayers P (w.sendBlock C).checkpoints,
        decompId := C.id, version := Gen.DOC_STORE_VERSION } := by
  unfold Writer.close
  generalize w.sendBlock C = w1 at *
  have hfl := footerBytes_length w1.written.length C.id
  have hfile : w1.written ++ (serializeSkipIndex P w1.checkpoints ++ footerBytes w1.written.length C.id)
      = (w1.written ++ serializeSkipIndex P w1.checkpoints) ++ footerBytes w1.written.length C.id := by simp
  unfold openStore
  simp only
  rw [hfile]
  have hl : ((w1.written ++ serializeSkipIndex P w1.checkpoints) ++ footerBytes w1.written.length C.id).length
      - Gen.DOCSTORE_FOOTER_LEN = (w1.written ++ serializeSkipIndex P w1.checkpoints).length := by
    rw [List.length_append, hfl]; omega
  have hnot : ¬ ((w1.written ++ serializeSkipIndex P w1.checkpoints ++ footerBytes w1.written.length C.id).length
      < Gen.DOCSTORE_FOOTER_LEN) := by
    rw [List.length_append, hfl]; omega
  rw [if_neg hnot, hl, List.drop_left, List.take_left]
  unfold footerBytes u32le
  rw [readLE_leBytes]
  simp only [Option.bind_some]
  have hv : Gen.DOC_STORE_VERSION % 256 ^ 4 = Gen.DOC_STORE_VERSION := by decide
  rw [hv]
  have hv2 : ¬ (Gen.DOC_STORE_VERSION ≠ 1 ∧ Gen.DOC_STORE_VERSION ≠ 2) := by decide
  rw [if_neg hv2, readLE_leBytes]
  simp only [Option.bind_some]
  have ho : w1.written.length % 256 ^ 8 = w1.written.length := Nat.mod_eq_of_lt (by simpa using hlen)
  rw [ho]
  have hle : ¬ (w1.written.length > (w1.written ++ serializeSkipIndex P w1.checkpoints).length) := by
    rw [List.length_append]; omega
  rw [if_neg hle, List.drop_left, List.take_left]
  unfold serializeSkipIndex
  rw [openSkipIndex_enc]
  simp only [Option.map_some, Option.some.injEq]
  have : (UInt8.ofNat C.id).toNat = C.id := by rw [UInt8.toNat_ofNat']; omega
  rw [this]

end TantivyModel.Store
