import TantivyModel.Proofs.MergeSteps2
/-! `endMerge` preserves the invariant and the refinement relation -/
namespace TantivyModel.Merge

theorem inv_clear_running (s : Sys) (hI : Inv s) : Inv { s with running := none } :=
  { ops_lt := hI.ops_lt, c_lt := hI.c_lt, ops_ne := hI.ops_ne, wf := hI.wf, pwf := hI.pwf,
    comD1 := hI.comD1, comD2 := hI.comD2, pubE := hI.pubE, ids := hI.ids, pids := hI.pids,
    repoch := fun r hr => by simp at hr, run := fun r hr => by simp at hr }

theorem nodup_filter_sub (A B : List Entry) (p : Entry → Bool)
    (hnd : ((A ++ B).map (·.segId)).Nodup) :
    ((A.filter p ++ B).map (·.segId)).Nodup ∧ ((A ++ B.filter p).map (·.segId)).Nodup := by
  constructor
  · exact hnd.sublist (((List.filter_sublist).append (List.Sublist.refl B)).map _)
  · exact hnd.sublist (((List.Sublist.refl A).append (List.filter_sublist)).map _)

theorem nodup_swap_left (A B : List Entry) (p : Entry → Bool) (ml : List Entry) (hml : ml.length ≤ 1)
    (hnd : ((A ++ B).map (·.segId)).Nodup)
    (hm : ∀ x ∈ ml, ∀ e ∈ A ++ B, e.segId ≠ x.segId) :
    (((A.filter p ++ ml) ++ B).map (·.segId)).Nodup := by
  have h0 := (nodup_filter_sub A B p hnd).1
  match ml, hml with
  | [], _ => simpa using h0
  | [x], _ =>
    have hp : ((A.filter p ++ [x]) ++ B).Perm (x :: (A.filter p ++ B)) := by
      rw [List.append_assoc]; exact List.perm_middle
    rw [(hp.map _).nodup_iff, List.map_cons, List.nodup_cons]
    refine ⟨?_, h0⟩
    intro hin
    obtain ⟨e, he, heq⟩ := List.mem_map.1 hin
    have he' : e ∈ A ++ B := by
      rw [List.mem_append] at he ⊢
      rcases he with he | he
      · exact Or.inl (List.mem_filter.1 he).1
      · exact Or.inr he
    exact hm x (by simp) e he' heq

theorem nodup_swap_right (A B : List Entry) (p : Entry → Bool) (ml : List Entry) (hml : ml.length ≤ 1)
    (hnd : ((A ++ B).map (·.segId)).Nodup)
    (hm : ∀ x ∈ ml, ∀ e ∈ A ++ B, e.segId ≠ x.segId) :
    ((A ++ (B.filter p ++ ml)).map (·.segId)).Nodup := by
  have h0 := (nodup_filter_sub A B p hnd).2
  match ml, hml with
  | [], _ => simpa using h0
  | [x], _ =>
    have hp : (A ++ (B.filter p ++ [x])).Perm (x :: (A ++ B.filter p)) := by
      rw [← List.append_assoc]
      exact (List.perm_append_singleton x (A ++ B.filter p))
    rw [(hp.map _).nodup_iff, List.map_cons, List.nodup_cons]
    refine ⟨?_, h0⟩
    intro hin
    obtain ⟨e, he, heq⟩ := List.mem_map.1 hin
    have he' : e ∈ A ++ B := by
      rw [List.mem_append] at he ⊢
      rcases he with he | he
      · exact Or.inl he
      · exact Or.inr (List.mem_filter.1 he).1
    exact hm x (by simp) e he' heq

theorem toList_length_le_one {α} (o : Option α) : o.toList.length ≤ 1 := by
  cases o <;> simp

theorem swapIn_eq (reg : List Entry) (ids : List Nat) (m : Option Entry) :
    swapIn reg ids m = reg.filter (fun e => !inSources ids e) ++ m.toList := rfl

theorem toList_map {α β} (o : Option α) (f : α → β) : (o.map f).toList = o.toList.map f := by
  cases o <;> rfl

theorem endMerge_unc (st : State) (r : Running) (hep : r.epoch = st.epoch)
    (hu : containsAll st.uncommitted r.sources = true) :
    endMerge st r = { st with uncommitted := swapIn st.uncommitted r.sources (r.merged.map (reconcile st)) } := by
  simp [endMerge, endMergeWith, hep, hu]

theorem endMerge_com (st : State) (r : Running) (hep : r.epoch = st.epoch)
    (hu : containsAll st.uncommitted r.sources = false)
    (hc : containsAll st.committed r.sources = true) :
    endMerge st r = { st with committed := swapIn st.committed r.sources (r.merged.map (reconcile st)),
                              published := swapIn st.committed r.sources (r.merged.map (reconcile st)) } := by
  simp [endMerge, endMergeWith, hep, hu, hc]

/-- facts about the reconciled merged entries, from the invariant -/
theorem reconciled_facts (s : Sys) (hI : Inv s) (r : Running) (hr0 : RunInv s r) :
    (r.merged.map (reconcile s.st)).toList
        = r.merged.toList.map (fun m => advance s.st.queue m s.st.committedOpstamp) ∧
    (∀ x ∈ r.merged.toList.map (fun m => advance s.st.queue m s.st.committedOpstamp),
        x.docs.length = x.alive.length ∧ x.cursor ≤ s.st.queue.length ∧ x.segId < s.nextId ∧
        ∀ e ∈ s.st.uncommitted ++ s.st.committed, e.segId ≠ x.segId) ∧
    ((r.merged.toList.map (fun m => advance s.st.queue m s.st.committedOpstamp)).map
        (docsAll s.st.queue)).flatten = (r.merged.toList.map (docsAll s.st.queue)).flatten := by
  refine ⟨?_, ?_, ?_⟩
  · rw [toList_map]
    apply List.map_congr_left
    intro m _
    exact reconcile_eq_advance s.st m hI.ops_ne
  · intro x hx
    obtain ⟨m, hm, rfl⟩ := List.mem_map.1 hx
    obtain ⟨h1, h2, h3, h4⟩ := hr0.mwf m hm
    exact ⟨advance_wf _ _ _ h1, advance_cursor_le _ _ _ h2, h3, h4⟩
  · rw [List.map_map]
    congr 1
    apply List.map_congr_left
    intro m hm
    exact docsAll_advance _ _ _ (hr0.mwf m hm).1

theorem step_endMerge (s : Sys) (a : Abs) (hI : Inv s) (hR : Rel s a) :
    Inv (s.step .endMerge) ∧ Rel (s.step .endMerge) (a.step .endMerge) := by
  unfold Sys.step
  cases hrun : s.running with
  | none => exact ⟨hI, hR⟩
  | some r =>
    simp only
    show Inv { s with st := endMerge s.st r, running := none } ∧
      Rel { s with st := endMerge s.st r, running := none } a
    by_cases hep : r.epoch = s.st.epoch
    · have hr0 := hI.run r hrun hep
      obtain ⟨hrec, hfacts, hdocsML⟩ := reconciled_facts s hI r hr0
      by_cases hu : containsAll s.st.uncommitted r.sources = true
      · -- swap in the uncommitted register
        rw [endMerge_unc s.st r hep hu, swapIn_eq, hrec]
        have hcont : containsAll (s.st.uncommitted ++ s.st.committed) r.sources = true :=
          containsAll_mono _ _ _ (fun e he => List.mem_append_left _ he) hu
        constructor
        · refine { ops_lt := hI.ops_lt, c_lt := hI.c_lt, ops_ne := hI.ops_ne, wf := ?_, pwf := hI.pwf,
                   comD1 := hI.comD1, comD2 := hI.comD2, pubE := hI.pubE, ids := ?_, pids := hI.pids,
                   repoch := fun r hr => by simp at hr, run := fun r hr => by simp at hr }
          · intro e he
            simp only [List.mem_append] at he
            rcases he with (he | he) | he
            · exact hI.wf e (List.mem_append_left _ (List.mem_filter.1 he).1)
            · obtain ⟨h1, h2, h3, _⟩ := hfacts e he
              exact ⟨h1, h2, h3⟩
            · exact hI.wf e (List.mem_append_right _ he)
          · exact nodup_swap_left _ _ _ _ (by simp) hI.ids
              (fun x hx => (hfacts x hx).2.2.2)
        · refine ⟨hR.1, ?_⟩
          have hP : (s.st.uncommitted ++ s.st.committed).filter (inSources r.sources)
              = s.st.uncommitted.filter (inSources r.sources) := by
            rw [List.filter_append, filter_other_nil _ _ _ hI.ids hu, List.append_nil]
          have hsplit := flatten_filter_split (docsAll s.st.queue) (inSources r.sources) s.st.uncommitted
          refine List.Perm.trans ?_ hR.2
          simp only [pendDocs, List.map_append, List.flatten_append]
          rw [hdocsML, hr0.pendAll hcont, hP]
          exact List.Perm.append_right _ hsplit
      · have hu' : containsAll s.st.uncommitted r.sources = false := by
          cases h : containsAll s.st.uncommitted r.sources with
          | true => exact absurd h hu
          | false => rfl
        by_cases hc : containsAll s.st.committed r.sources = true
        · -- swap in the committed register and publish
          rw [endMerge_com s.st r hep hu' hc, swapIn_eq, hrec]
          have hcont : containsAll (s.st.uncommitted ++ s.st.committed) r.sources = true :=
            containsAll_mono _ _ _ (fun e he => List.mem_append_right _ he) hc
          obtain ⟨hpubeq, hpubcur⟩ := hr0.pubC hc
          have hcomne : s.st.committed ≠ [] := by
            intro h
            rw [h, containsAll_nil_left _ hr0.srcs_ne] at hc; cases hc
          obtain ⟨e0, he0⟩ := List.exists_mem_of_ne_nil _ hcomne
          have hids := nodup_swap_right s.st.uncommitted s.st.committed (fun e => !inSources r.sources e) _
            (by simp) hI.ids (fun x hx => (hfacts x hx).2.2.2)
          have hnewcur : ∀ x ∈ r.merged.toList.map (fun m => advance s.st.queue m s.st.committedOpstamp),
              ∀ e ∈ s.st.committed, x.cursor = e.cursor := by
            intro x hx e he
            obtain ⟨m, hm, rfl⟩ := List.mem_map.1 hx
            exact hpubcur m hm e he
          constructor
          · refine { ops_lt := hI.ops_lt, c_lt := hI.c_lt, ops_ne := hI.ops_ne, wf := ?_, pwf := ?_,
                     comD1 := ?_, comD2 := ?_, pubE := Or.inr (List.Perm.refl _), ids := hids, pids := ?_,
                     repoch := fun r hr => by simp at hr, run := fun r hr => by simp at hr }
            · intro e he
              simp only [List.mem_append] at he
              rcases he with he | he | he
              · exact hI.wf e (List.mem_append_left _ he)
              · exact hI.wf e (List.mem_append_right _ (List.mem_filter.1 he).1)
              · obtain ⟨h1, h2, h3, _⟩ := hfacts e he
                exact ⟨h1, h2, h3⟩
            · intro e he
              simp only [List.mem_append] at he
              rcases he with he | he
              · obtain ⟨h1, _, h3⟩ := hI.wf e (List.mem_append_right _ (List.mem_filter.1 he).1)
                exact ⟨h1, h3⟩
              · obtain ⟨h1, _, h3, _⟩ := hfacts e he
                exact ⟨h1, h3⟩
            · intro e he
              simp only [List.mem_append] at he
              rcases he with he | he
              · exact hI.comD1 e (List.mem_filter.1 he).1
              · obtain ⟨m, _, rfl⟩ := List.mem_map.1 he
                exact consumed_after_advance _ _ _
            · intro x hx y hy
              have hcur : ∀ z ∈ s.st.committed.filter (fun e => !inSources r.sources e) ++
                  r.merged.toList.map (fun m => advance s.st.queue m s.st.committedOpstamp),
                  z.cursor = e0.cursor := by
                intro z hz
                rw [List.mem_append] at hz
                rcases hz with hz | hz
                · exact hI.comD2 z (List.mem_filter.1 hz).1 e0 he0
                · exact hnewcur z hz e0 he0
              rw [hcur x hx, hcur y hy]
            · exact hids.sublist ((List.sublist_append_right _ _).map _)
          · have hsplitP := flatten_filter_split liveDocsOf (inSources r.sources) s.st.committed
            have hsplitD := flatten_filter_split (docsAll s.st.queue) (inSources r.sources) s.st.committed
            have hPc : (s.st.uncommitted ++ s.st.committed).filter (inSources r.sources)
                = s.st.committed.filter (inSources r.sources) := by
              rw [List.filter_append, filter_other_nil' _ _ _ hI.ids hc, List.nil_append]
            have hpubE : (pubDocs s.st).Perm ((s.st.committed.map liveDocsOf).flatten) := by
              rcases hI.pubE with h | h
              · exact absurd h hcomne
              · exact h
            constructor
            · refine List.Perm.trans ?_ hR.1
              refine List.Perm.trans ?_ hpubE.symm
              simp only [pubDocs, List.map_append, List.flatten_append, List.map_map]
              have : ((r.merged.toList.map (liveDocsOf ∘ fun m => advance s.st.queue m s.st.committedOpstamp))).flatten
                  = ((s.st.committed.filter (inSources r.sources)).map liveDocsOf).flatten := hpubeq
              rw [this]
              exact hsplitP
            · refine List.Perm.trans ?_ hR.2
              simp only [pendDocs, List.map_append, List.flatten_append]
              rw [hdocsML, hr0.pendAll hcont, hPc]
              exact List.Perm.append_left _ hsplitD
        · have hc' : containsAll s.st.committed r.sources = false := by
            cases h : containsAll s.st.committed r.sources with
            | true => exact absurd h hc
            | false => rfl
          have : endMerge s.st r = s.st := endMergeWith_discard_missing true s.st r hu' hc'
          rw [this]
          exact ⟨inv_clear_running s hI, hR⟩
    · have : endMerge s.st r = s.st := endMergeWith_discard_epoch true s.st r hep
      rw [this]
      exact ⟨inv_clear_running s hI, hR⟩

theorem inv_init : Inv Sys.init :=
  { ops_lt := fun op h => by simp [Sys.init] at h, c_lt := by simp [Sys.init],
    ops_ne := fun op h => by simp [Sys.init] at h, wf := fun e h => by simp [Sys.init] at h,
    pwf := fun e h => by simp [Sys.init] at h, comD1 := fun e h => by simp [Sys.init] at h,
    comD2 := fun e h => by simp [Sys.init] at h, pubE := Or.inl rfl,
    ids := by simp [Sys.init], pids := by simp [Sys.init],
    repoch := fun r h => by simp [Sys.init] at h, run := fun r h => by simp [Sys.init] at h }

theorem rel_init : Rel Sys.init Abs.init := ⟨List.Perm.refl _, List.Perm.refl _⟩

theorem step_all (s : Sys) (a : Abs) (ev : Ev) (hI : Inv s) (hR : Rel s a) (hok : ExplicitOk s ev) :
    Inv (s.step ev) ∧ Rel (s.step ev) (a.step ev) := by
  cases ev with
  | addSeg docs => exact step_addSeg s a docs hI hR
  | delete key => exact step_delete s a key hI hR
  | commit => exact step_commit s a hI hR
  | rollback => exact step_rollback s a hI hR
  | deleteAll => exact step_deleteAll s a hI hR
  | removeEmpty => exact step_removeEmpty s a hI hR
  | startMerge ids => exact step_startMerge s a ids hI hR
  | startMergeExplicit ids => exact step_startMergeExplicit s a ids hI hR hok
  | endMerge => exact step_endMerge s a hI hR

theorem run_all (evs : List Ev) (s : Sys) (a : Abs) (hI : Inv s) (hR : Rel s a) (hok : OkTrace s evs) :
    Inv (s.run evs) ∧ Rel (s.run evs) (a.run evs) := by
  induction evs generalizing s a with
  | nil => exact ⟨hI, hR⟩
  | cons ev rest ih =>
    obtain ⟨h1, h2⟩ := step_all s a ev hI hR hok.1
    exact ih (s.step ev) (a.step ev) h1 h2 hok.2

/-- event sequences without explicit merges satisfy `OkTrace` trivially -/
def noExplicit : Ev → Bool
  | .startMergeExplicit _ => false
  | _ => true

theorem okTrace_of_noExplicit (evs : List Ev) (s : Sys) (h : evs.all noExplicit = true) : OkTrace s evs := by
  induction evs generalizing s with
  | nil => trivial
  | cons ev rest ih =>
    simp only [List.all_cons, Bool.and_eq_true] at h
    refine ⟨?_, ih _ h.2⟩
    cases ev <;> first | trivial | (simp [noExplicit] at h)

/-! ### the guard-selected machine is the mirrored one while the guards hold -/

theorem mergeEntriesG_eq : @mergeEntriesG = @mergeEntries := by
  funext q srcs t i
  exact if_pos (by decide)

theorem mergeTargetG_eq : @mergeTargetG = @mergeTarget := by
  funext b c st
  exact if_pos (by decide)

theorem containsAllG_eq : @containsAllG = @containsAll := by
  funext reg ids
  exact if_pos (by decide)

theorem reconcileG_eq : @reconcileG = @reconcile := by
  funext st m
  exact if_pos (by decide)

theorem endMergeG_eq (st : State) (r : Running) : endMergeG st r = endMerge st r := by
  simp only [endMergeG, endMerge, endMergeWith, containsAllG_eq, reconcileG_eq, if_true]

theorem stepG_eq (s : Sys) (ev : Ev) : s.stepG ev = s.step ev := by
  cases ev <;> simp only [Sys.stepG, Sys.step, mergeEntriesG_eq, mergeTargetG_eq, endMergeG_eq]

theorem runG_eq (evs : List Ev) (s : Sys) : s.runG evs = s.run evs := by
  induction evs generalizing s with
  | nil => rfl
  | cons ev rest ih =>
    simp only [Sys.runG, Sys.run, List.foldl_cons] at ih ⊢
    rw [stepG_eq]
    exact ih (s.step ev)

end TantivyModel.Merge
