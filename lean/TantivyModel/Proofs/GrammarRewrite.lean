import TantivyModel.Proofs.GrammarFold
namespace TantivyModel.Grammar
variable {L T : Type}

/-! ## soundness of the structural equality test -/

mutual
theorem Ast.beq_sound [DecidableEq L] : ∀ (a b : Ast L), Ast.beq a b = true → a = b
  | .leaf x, .leaf y, h => by simp [Ast.beq] at h; rw [h]
  | .boost a x, .boost b y, h => by
      simp [Ast.beq] at h
      rw [Ast.beq_sound a b h.1, h.2]
  | .clause as, .clause bs, h => by
      simp [Ast.beq] at h
      rw [Ast.beqL_sound as bs h]
  | .leaf _, .boost _ _, h => by simp [Ast.beq] at h
  | .leaf _, .clause _, h => by simp [Ast.beq] at h
  | .boost _ _, .leaf _, h => by simp [Ast.beq] at h
  | .boost _ _, .clause _, h => by simp [Ast.beq] at h
  | .clause _, .leaf _, h => by simp [Ast.beq] at h
  | .clause _, .boost _ _, h => by simp [Ast.beq] at h
theorem Ast.beqL_sound [DecidableEq L] : ∀ (as bs : List (Entry L)), Ast.beqL as bs = true → as = bs
  | [], [], _ => rfl
  | (o, a) :: as, (p, b) :: bs, h => by
      simp [Ast.beqL] at h
      rw [h.1.1, Ast.beq_sound a b h.1.2, Ast.beqL_sound as bs h.2]
  | [], _ :: _, h => by simp [Ast.beqL] at h
  | _ :: _, [], h => by simp [Ast.beqL] at h
end

theorem entryBeq_sound [DecidableEq L] (x y : Entry L) (h : Ast.entryBeq x y = true) : x = y := by
  obtain ⟨o, a⟩ := x
  obtain ⟨p, b⟩ := y
  simp [Ast.entryBeq] at h
  rw [h.1, Ast.beq_sound a b h.2]

/-! ## dedup keeps the set of entries -/

theorem dedupAux_subset [DecidableEq L] (seen es : List (Entry L)) :
    ∀ e ∈ dedupAux seen es, e ∈ es := by
  induction es generalizing seen with
  | nil => simp [dedupAux]
  | cons x rest ih =>
    intro e he
    simp only [dedupAux] at he
    split at he
    · exact List.mem_cons_of_mem _ (ih _ e he)
    · simp only [List.mem_cons] at he ⊢
      rcases he with rfl | he
      · exact Or.inl rfl
      · exact Or.inr (ih _ e he)

theorem dedupAux_complete [DecidableEq L] (seen es : List (Entry L)) :
    ∀ e ∈ es, e ∈ seen ∨ e ∈ dedupAux seen es := by
  induction es generalizing seen with
  | nil => simp
  | cons x rest ih =>
    intro e he
    simp only [List.mem_cons] at he
    simp only [dedupAux]
    split
    · rename_i hx
      rcases he with rfl | he
      · obtain ⟨y, hy, hb⟩ := List.any_eq_true.mp hx
        rw [entryBeq_sound _ _ hb]
        exact Or.inl hy
      · exact ih seen e he
    · rcases he with rfl | he
      · exact Or.inr (by simp)
      · rcases ih (x :: seen) e he with h | h
        · simp only [List.mem_cons] at h
          rcases h with rfl | h
          · exact Or.inr (by simp)
          · exact Or.inl h
        · exact Or.inr (List.mem_cons_of_mem _ h)

theorem dedup_mem [DecidableEq L] (es : List (Entry L)) (e : Entry L) : e ∈ dedup es ↔ e ∈ es := by
  constructor
  · exact dedupAux_subset [] es e
  · intro h
    rcases dedupAux_complete [] es e h with h | h
    · simp at h
    · exact h

/-! ## the meaning of a clause depends only on the set of evaluated entries -/

theorem boolSem_congr (l1 l2 : List (Occur × Bool)) (h : ∀ x, x ∈ l1 ↔ x ∈ l2) :
    boolSem l1 = boolSem l2 := by
  unfold boolSem
  have hall : ∀ p : Occur × Bool → Bool, l1.all p = l2.all p := by
    intro p
    rw [Bool.eq_iff_iff, List.all_eq_true, List.all_eq_true]
    exact ⟨fun g x hx => g x ((h x).mpr hx), fun g x hx => g x ((h x).mp hx)⟩
  have hany : ∀ p : Occur × Bool → Bool, l1.any p = l2.any p := by
    intro p
    rw [Bool.eq_iff_iff, List.any_eq_true, List.any_eq_true]
    exact ⟨fun ⟨x, hx, hp⟩ => ⟨x, (h x).mp hx, hp⟩, fun ⟨x, hx, hp⟩ => ⟨x, (h x).mpr hx, hp⟩⟩
  rw [hall, hall, hany, hany]

variable (m : Mode) (res : L → LAst T) (v : T → Bool)

/-- what a clause entry contributes: occur, whether it is trimmed away, its truth value -/
def ev (e : Entry L) : Occur × Bool × Bool :=
  (e.1.getD m.occ, isDead (toLogical m res e.2), semL v (toLogical m res e.2))

def alive (x : Occur × Bool × Bool) : Option (Occur × Bool) := if x.2.1 then none else some (x.1, x.2.2)

theorem semLs_eq_ev (es : List (Entry L)) :
    semLs v (toLogicalL m res es) = (es.map (ev m res v)).filterMap alive := by
  induction es with
  | nil => simp [toLogicalL, semLs]
  | cons e rest ih =>
    obtain ⟨o, a⟩ := e
    simp only [toLogicalL, semLs, List.map_cons, List.filterMap_cons, ev, alive]
    split <;> simp_all [ev, alive]

theorem allDead_eq_ev (es : List (Entry L)) :
    allDead (toLogicalL m res es) = (es.map (ev m res v)).all (fun x => x.2.1) := by
  induction es with
  | nil => simp [toLogicalL, allDead]
  | cons e rest ih =>
    obtain ⟨o, a⟩ := e
    simp [toLogicalL, allDead, ih, ev]

/-- clauses whose entries evaluate to the same set mean the same -/
theorem clause_congr (es1 es2 : List (Entry L))
    (h : ∀ x, x ∈ es1.map (ev m res v) ↔ x ∈ es2.map (ev m res v)) :
    semL v (toLogical m res (.clause es1)) = semL v (toLogical m res (.clause es2))
    ∧ isDead (toLogical m res (.clause es1)) = isDead (toLogical m res (.clause es2)) := by
  constructor
  · simp only [toLogical, semL, semLs_eq_ev]
    apply boolSem_congr
    intro x
    simp only [List.mem_filterMap]
    exact ⟨fun ⟨y, hy, hx⟩ => ⟨y, (h y).mp hy, hx⟩, fun ⟨y, hy, hx⟩ => ⟨y, (h y).mpr hy, hx⟩⟩
  · simp only [toLogical, isDead, allDead_eq_ev m res v]
    rw [Bool.eq_iff_iff, List.all_eq_true, List.all_eq_true]
    exact ⟨fun g x hx => g x ((h x).mpr hx), fun g x hx => g x ((h x).mp hx)⟩

theorem semLs_allDead : ∀ (cs : List (Occur × LAst T)), allDead cs = true → semLs v cs = []
  | [], _ => rfl
  | (o, a) :: rest, h => by
    simp only [allDead, Bool.and_eq_true] at h
    simp [semLs, h.1, semLs_allDead rest h.2]

theorem semL_dead (t : LAst T) (h : isDead t = true) : semL v t = false := by
  cases t with
  | leaf _ => simp [isDead] at h
  | boost _ _ => simp [isDead] at h
  | clause cs =>
    simp only [isDead] at h
    simp [semL, semLs_allDead v cs h, boolSem]

/-- unwrapping an unmarked singleton group whose inner occur is absent or the mode's default
    does not change what the entry contributes -/
theorem ev_unwrap (e : Entry L) (h : unwrapSafe m false e = true) :
    ev m res v (unwrapEntry e) = ev m res v e := by
  obtain ⟨o, a⟩ := e
  cases o with
  | some o' => rfl
  | none =>
    cases a with
    | leaf l => rfl
    | boost a b => rfl
    | clause cs =>
      match cs, h with
      | [], _ => rfl
      | [(io, x)], h =>
        have hocc : io.getD m.occ = m.occ := by
          cases io with
          | none => rfl
          | some o' =>
            simp [unwrapSafe] at h
            simp [h]
        have hne : m.occ ≠ .mustNot := by cases m <;> simp [Mode.occ]
        simp only [unwrapEntry, ev, toLogical, toLogicalL, isDead, allDead, semL, semLs, hocc,
          Option.getD_none, Bool.and_true]
        cases hd : isDead (toLogical m res x)
        · simp [boolSem_single _ _ hne]
        · simp [semL_dead v _ hd, boolSem]
      | _ :: _ :: _, _ => rfl

mutual
theorem rewrite_ok [DecidableEq L] : ∀ (t : Ast L), safeWith m false t = true →
    semL v (toLogical m res (rewrite t)) = semL v (toLogical m res t)
    ∧ isDead (toLogical m res (rewrite t)) = isDead (toLogical m res t)
  | .leaf _, _ => ⟨rfl, rfl⟩
  | .boost _ _, _ => ⟨rfl, rfl⟩
  | .clause cs, h => by
    simp only [safeWith, Bool.and_eq_true] at h
    have ih := rewriteL_ok cs h.1
    have hsafe : ∀ e ∈ dedup (rewriteL cs), unwrapSafe m false e = true := by
      intro e he
      exact List.all_eq_true.mp h.2 e ((dedup_mem _ e).mp he)
    have h3 : ((dedup (rewriteL cs)).map unwrapEntry).map (ev m res v)
        = (dedup (rewriteL cs)).map (ev m res v) := by
      rw [List.map_map]
      apply List.map_congr_left
      intro e he
      exact ev_unwrap m res v e (hsafe e he)
    simp only [rewrite]
    apply clause_congr
    intro x
    rw [h3, ← ih]
    simp only [List.mem_map]
    exact ⟨fun ⟨e, he, hx⟩ => ⟨e, (dedup_mem _ e).mp he, hx⟩,
           fun ⟨e, he, hx⟩ => ⟨e, (dedup_mem _ e).mpr he, hx⟩⟩
theorem rewriteL_ok [DecidableEq L] : ∀ (cs : List (Entry L)), safeWithL m false cs = true →
    (rewriteL cs).map (ev m res v) = cs.map (ev m res v)
  | [], _ => rfl
  | (o, a) :: rest, h => by
    simp only [safeWithL, Bool.and_eq_true] at h
    have h1 := rewrite_ok a h.1
    have h2 := rewriteL_ok rest h.2
    simp only [rewriteL, List.map_cons, h2]
    congr 1
    simp only [ev, h1.1, h1.2]
end

end TantivyModel.Grammar
