import TantivyModel.Proofs.Fragments
/-! C19: facts about concrete filters used to discharge the hypotheses of the snippet theorems for
built-in analyzers -/
namespace TantivyModel.Tok

/-- the filters that emit at most one token per input token (everything but the compound splitter) -/
def Filter.NoSplit : Filter → Prop
  | .split _ => False
  | _ => True

theorem onToken_le_one (f : Filter) (hf : f.NoSplit) (t : Token) : (f.onToken t).length ≤ 1 := by
  cases f with
  | split g => exact absurd hf (by simp [Filter.NoSplit])
  | lower g => simp [Filter.onToken]
  | fold g => simp [Filter.onToken]
  | stem g => simp [Filter.onToken]
  | removeLong l => simp only [Filter.onToken]; split <;> simp
  | alnumOnly => simp only [Filter.onToken]; split <;> simp
  | stop ws => simp only [Filter.onToken]; split <;> simp

/-- a filter that never duplicates tokens keeps every pairwise relation between the offsets of
different tokens -/
theorem apply_pairwise_offsets (f : Filter) (hf : f.NoSplit) (R : Nat × Nat → Nat × Nat → Prop) :
    ∀ ts : List Token, ts.Pairwise (fun a b => R (a.from_, a.to) (b.from_, b.to)) →
      (f.apply ts).Pairwise (fun a b => R (a.from_, a.to) (b.from_, b.to)) := by
  intro ts
  induction ts with
  | nil => intro _; simp [Filter.apply]
  | cons a l ih =>
    intro h
    rw [List.pairwise_cons] at h
    obtain ⟨h1, h2⟩ := h
    simp only [Filter.apply, List.flatMap_cons]
    rw [List.pairwise_append]
    refine ⟨?_, ih h2, ?_⟩
    · have := onToken_le_one f hf a
      match hl : f.onToken a with
      | [] => simp
      | [x] => simp
      | x :: y :: r => rw [hl] at this; simp at this
    · intro x hx y hy
      simp only [List.mem_flatMap] at hy
      obtain ⟨b, hb, hy⟩ := hy
      obtain ⟨e1, e2, _⟩ := onToken_offsets f a x hx
      obtain ⟨e1', e2', _⟩ := onToken_offsets f b y hy
      rw [e1, e2, e1', e2']
      exact h1 b hb

theorem chain_pairwise_offsets (fs : List Filter) (hfs : ∀ f ∈ fs, f.NoSplit)
    (R : Nat × Nat → Nat × Nat → Prop) : ∀ ts : List Token,
    ts.Pairwise (fun a b => R (a.from_, a.to) (b.from_, b.to)) →
      (applyChain fs ts).Pairwise (fun a b => R (a.from_, a.to) (b.from_, b.to)) := by
  induction fs with
  | nil => intro ts h; exact h
  | cons f fs ih =>
    intro ts h
    exact ih (fun g hg => hfs g (List.mem_cons_of_mem _ hg)) _
      (apply_pairwise_offsets f (hfs f List.mem_cons_self) R ts h)

/-- the filters that rewrite the text of every token and nothing else -/
def Filter.Rewrites : Filter → Prop
  | .lower _ => True
  | .fold _ => True
  | .stem _ => True
  | _ => False

/-- lower-caser, ASCII folding, stemmer: the sequence of (from, to, position) is untouched — no
token is dropped, added or moved -/
theorem apply_rewrites_keys (f : Filter) (hf : f.Rewrites) (ts : List Token) :
    (f.apply ts).map (fun t => (t.from_, t.to, t.pos)) = ts.map (fun t => (t.from_, t.to, t.pos)) := by
  induction ts with
  | nil => simp [Filter.apply]
  | cons a l ih =>
    simp only [Filter.apply, List.flatMap_cons, List.map_append, List.map_cons] at *
    rw [ih]
    cases f with
    | lower g => simp [Filter.onToken]
    | fold g => simp [Filter.onToken]
    | stem g => simp [Filter.onToken]
    | removeLong l => exact absurd hf (by simp [Filter.Rewrites])
    | alnumOnly => exact absurd hf (by simp [Filter.Rewrites])
    | stop ws => exact absurd hf (by simp [Filter.Rewrites])
    | split g => exact absurd hf (by simp [Filter.Rewrites])

/-! ### RemoveLongFilter right behind a tokenizer bounds the byte length of every token -/

theorem textByteLen_codes (t : Text) : textByteLen (t.map Cp.code) = byteLen t := by
  induction t with
  | nil => rfl
  | cons c t ih =>
    simp only [textByteLen, List.map_cons, List.sum_cons, byteLen] at *
    rw [ih]; rfl

theorem removeLong_strict : Gen.REMOVE_LONG_KEEPS_EQUAL = 0 := by decide

/-- tokens that survive `RemoveLongFilter::limit(L)` applied to un-normalised tokens are shorter
than `L` bytes in the text -/
theorem removeLong_bounds (s : Text) (L : Nat) (ts : List Token) (hc : Contract s ts)
    (hs : ∀ t ∈ ts, TextIsSlice s t) :
    ∀ t ∈ (Filter.removeLong L).apply ts, t.to - t.from_ < L := by
  intro t ht
  simp only [Filter.apply, List.mem_flatMap] at ht
  obtain ⟨u, hu, ht⟩ := ht
  simp only [Filter.onToken] at ht
  split at ht
  · rename_i hk
    simp only [List.mem_singleton] at ht
    subst ht
    obtain ⟨h1, _, h3, h4⟩ := hc.inb t hu
    unfold removeLongKeeps at hk
    rw [if_pos removeLong_strict, decide_eq_true_eq, hs t hu, textByteLen_codes,
      byteLen_slice (Nat.zero_le _) h3 h4 h1] at hk
    exact hk
  · simp at ht

/-- … and so do all tokens after any further filters -/
theorem removeLong_chain_bounds (s : Text) (L : Nat) (fs : List Filter) (ts : List Token)
    (hc : Contract s ts) (hs : ∀ t ∈ ts, TextIsSlice s t) :
    ∀ t ∈ applyChain (Filter.removeLong L :: fs) ts, t.to - t.from_ < L := by
  intro t ht
  have hb := removeLong_bounds s L ts hc hs
  -- every token of the rest of the chain carries the offsets of a token that survived RemoveLong
  have key : ∀ (fs : List Filter) (us : List Token), (∀ u ∈ us, u.to - u.from_ < L) →
      ∀ t ∈ applyChain fs us, t.to - t.from_ < L := by
    intro fs
    induction fs with
    | nil => intro us h t ht; exact h t ht
    | cons f fs ih =>
      intro us h t ht
      refine ih (f.apply us) ?_ t ht
      intro u hu
      simp only [Filter.apply, List.mem_flatMap] at hu
      obtain ⟨v, hv, hu⟩ := hu
      obtain ⟨e1, e2, _⟩ := onToken_offsets f v u hu
      rw [e1, e2]; exact h v hv
  exact key fs _ hb t ht

end TantivyModel.Tok

namespace TantivyModel.Tok

/-- the filters that only drop tokens (remove-long, alphanumeric-only, stop words) -/
def Filter.Drops : Filter → Prop
  | .removeLong _ => True
  | .alnumOnly => True
  | .stop _ => True
  | _ => False

theorem apply_drops_sublist (f : Filter) (hf : f.Drops) (ts : List Token) :
    (f.apply ts).Sublist ts := by
  induction ts with
  | nil => simp [Filter.apply]
  | cons a l ih =>
    simp only [Filter.apply, List.flatMap_cons] at *
    cases f with
    | removeLong n =>
      simp only [Filter.onToken]; split
      · exact ih.cons₂ a
      · exact ih.cons a
    | alnumOnly =>
      simp only [Filter.onToken]; split
      · exact ih.cons₂ a
      · exact ih.cons a
    | stop ws =>
      simp only [Filter.onToken]; split
      · exact ih.cons a
      · exact ih.cons₂ a
    | lower g => exact absurd hf (by simp [Filter.Drops])
    | fold g => exact absurd hf (by simp [Filter.Drops])
    | stem g => exact absurd hf (by simp [Filter.Drops])
    | split g => exact absurd hf (by simp [Filter.Drops])

theorem chain_drops_sublist (fs : List Filter) (hfs : ∀ f ∈ fs, f.Drops) :
    ∀ ts : List Token, (applyChain fs ts).Sublist ts := by
  induction fs with
  | nil => intro ts; exact List.Sublist.refl _
  | cons f fs ih =>
    intro ts
    exact (ih (fun g hg => hfs g (List.mem_cons_of_mem _ hg)) (f.apply ts)).trans
      (apply_drops_sublist f (hfs f List.mem_cons_self) ts)

end TantivyModel.Tok

namespace TantivyModel.Snip

/-- `max_by` keeps a candidate of maximal score -/
theorem selectBest_max (frags : List Frag) (f : Frag) (h : selectBest frags = some f) :
    ∀ g ∈ frags, g.score ≤ f.score := by
  cases frags with
  | nil => simp [selectBest] at h
  | cons a as =>
    simp only [selectBest, Option.some.injEq] at h
    subst h
    have key : ∀ (l : List Frag) (x : Frag),
        x.score ≤ (l.foldl (fun x y => if better x y then x else y) x).score ∧
        ∀ g ∈ l, g.score ≤ (l.foldl (fun x y => if better x y then x else y) x).score := by
      intro l
      induction l with
      | nil => intro x; simp
      | cons y ys ih =>
        intro x
        simp only [List.foldl_cons]
        obtain ⟨i1, i2⟩ := ih (if better x y then x else y)
        have hxy : x.score ≤ (if better x y then x else y).score ∧
            y.score ≤ (if better x y then x else y).score := by
          by_cases hb : better x y = true
          · rw [if_pos hb]
            refine ⟨Nat.le_refl _, ?_⟩
            unfold better at hb
            split at hb
            · simp only [decide_eq_true_eq] at hb; omega
            · rename_i he; simp only [ne_eq, Decidable.not_not] at he; omega
          · rw [if_neg hb]
            refine ⟨?_, Nat.le_refl _⟩
            unfold better at hb
            split at hb
            · rename_i he; simp only [decide_eq_true_eq] at hb; omega
            · rename_i he; simp only [ne_eq, Decidable.not_not] at he; omega
        refine ⟨Nat.le_trans hxy.1 i1, ?_⟩
        intro g hg
        simp only [List.mem_cons] at hg
        rcases hg with hg | hg
        · subst hg; exact Nat.le_trans hxy.2 i1
        · exact i2 g hg
    intro g hg
    simp only [List.mem_cons] at hg
    rcases hg with hg | hg
    · subst hg; exact (key as g).1
    · exact (key as a).2 g hg

end TantivyModel.Snip
