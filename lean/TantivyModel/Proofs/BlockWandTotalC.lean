import TantivyModel.Proofs.BlockWandTotalB
/-!
Part C: the invariant of the mirrored `block_wand` loop that makes it complete — sorted array,
well-formed scorers, no skip reader ahead of where the next shallow seek will put it, and the
pivots never going backwards — and the pivot / shallow-seek step.
-/
namespace TantivyModel.BlockWand
open List TantivyModel.Wand

/-- the skip reader is not ahead of the block of `max(current doc, last pivot)` -/
def JOK (P : Nat) (x : S) : Prop := x.skip ≤ x.blockIdx (max x.doc P)

theorem JOK.mono {P P' : Nat} {x : S} (h : JOK P x) (hle : P ≤ P') : JOK P' x :=
  Nat.le_trans h (blockIdx_mono x (by omega))

structure TInv (P θ : Nat) (arr : List S) : Prop where
  sorted : SortedByDoc arr
  wf : ∀ x, x ∈ arr → WFC x
  j : ∀ x, x ∈ arr → JOK P x
  dead : ∀ d, d < P → massLe arr d ≤ θ

theorem lastDocInBlock_le_T {x : S} (h : WFC x) : x.lastDocInBlock ≤ T := by
  unfold TS.lastDocInBlock
  cases hb : x.blocks[x.skip]? with
  | none => exact Nat.le_refl _
  | some b => exact Nat.le_of_lt (h.blocksLt b (mem_of_getElem? hb))

/-! ### the mass of the scorers at or before a document -/

theorem massLe_le_sum (l : List S) (d : Nat) : massLe l d ≤ (l.map (·.maxScore)).sum := by
  induction l with
  | nil => exact Nat.le_refl _
  | cons x xs ih =>
    rw [massLe_cons]; simp only [map_cons, sum_cons]
    split <;> omega

theorem massLe_all (l : List S) (d : Nat) (h : ∀ x, x ∈ l → x.doc ≤ d) : massLe l d = (l.map (·.maxScore)).sum := by
  induction l with
  | nil => rfl
  | cons x xs ih =>
    rw [massLe_cons, if_pos (h x (by simp)), ih fun y hy => h y (by simp [hy])]
    simp

theorem massLe_none (l : List S) (d : Nat) (h : ∀ x, x ∈ l → d < x.doc) : massLe l d = 0 := by
  induction l with
  | nil => rfl
  | cons x xs ih =>
    rw [massLe_cons, if_neg (by have := h x (by simp); omega), ih fun y hy => h y (by simp [hy])]

/-- the mass at the pivot exceeds the threshold -/
theorem findPivotDoc_mass {θ : Nat} {arr : List S} {bl pl pd : Nat} (hs : SortedByDoc arr)
    (h : findPivotDoc θ arr = some (bl, pl, pd)) : θ < massLe arr pd := by
  unfold findPivotDoc at h
  simp only [sc_zero] at h
  cases hg : findPivotDoc.go θ 0 0 arr with
  | none => rw [hg] at h; cases h
  | some r =>
    obtain ⟨bl', pd'⟩ := r
    rw [hg] at h
    simp only at h
    split at h
    · cases h
    · simp only [Option.some.injEq, Prod.mk.injEq] at h
      obtain ⟨_, _, hpd⟩ := h
      subst hpd
      obtain ⟨pre, s, post, hl, _, hpd, _, h2⟩ := go_some θ arr 0 0 bl' pd' (Nat.zero_le _) hg
      simp only [Nat.zero_add] at h2
      unfold SortedByDoc at hs
      rw [hl, pairwise_append] at hs
      have hpre : massLe pre pd' = (pre.map (·.maxScore)).sum :=
        massLe_all pre pd' fun x hx => by rw [hpd]; exact hs.2.2 x hx s (by simp)
      rw [hl, massLe_append, massLe_cons, hpre, if_pos (by omega)]
      omega

/-- … so a pivot is never before a document below which the mass was not above the threshold -/
theorem pivot_ge {P θ : Nat} {arr : List S} {bl pl pd : Nat} (hinv : TInv P θ arr)
    (h : findPivotDoc θ arr = some (bl, pl, pd)) : P ≤ pd := by
  rcases Nat.lt_or_ge pd P with hlt | hge
  · have := hinv.dead pd hlt
    have := findPivotDoc_mass hinv.sorted h
    omega
  · exact hge

/-- every document before the pivot has a mass not above the threshold -/
theorem PivotShape.mass_dead {θ : Nat} {arr : List S} {bl pl pd : Nat} (hp : PivotShape θ arr bl pl pd) :
    ∀ d, d < pd → massLe arr d ≤ θ := by
  intro d hd
  obtain ⟨pre, s, mid, suf, hl, _, _, hsd, hmid, hsuf, _, hsum⟩ := hp.split
  rw [hl, massLe_append]
  have h0 : massLe (s :: (mid ++ suf)) d = 0 := by
    apply massLe_none
    intro x hx
    rcases mem_cons.mp hx with rfl | hx
    · omega
    · rcases mem_append.mp hx with hx | hx
      · have := hmid x hx; omega
      · have := hsuf x hx; omega
  have := massLe_le_sum pre d
  omega

/-! ### pointwise relations preserving the documents -/

theorem Fa2.append {β γ : Type} {r : β → γ → Prop} {a₁ a₂ : List β} {b₁ b₂ : List γ} (h₁ : Fa2 r a₁ b₁) (h₂ : Fa2 r a₂ b₂) :
    Fa2 r (a₁ ++ a₂) (b₁ ++ b₂) := by
  induction h₁ with
  | nil => exact h₂
  | cons hab _ ih => exact .cons hab ih

theorem sorted_congr {arr arr' : List S} (h : Fa2 (fun x x' => x'.doc = x.doc) arr arr') (hs : SortedByDoc arr) :
    SortedByDoc arr' := by
  unfold SortedByDoc at hs ⊢
  induction h with
  | nil => exact Pairwise.nil
  | @cons a b l₁ l₂ hab hrest ih =>
    rw [pairwise_cons] at hs ⊢
    refine ⟨?_, ih hs.2⟩
    intro y hy
    -- y corresponds to some element of l₁ with the same doc
    have : ∃ z, z ∈ l₁ ∧ y.doc = z.doc := by
      clear ih hs
      induction hrest with
      | nil => cases hy
      | @cons c e m₁ m₂ hce _ ih2 =>
        rcases mem_cons.mp hy with rfl | hy
        · exact ⟨c, by simp, hce⟩
        · obtain ⟨z, hz, hzd⟩ := ih2 hy
          exact ⟨z, by simp [hz], hzd⟩
    obtain ⟨z, hz, hzd⟩ := this
    rw [hab, hzd]
    exact hs.1 z hz

theorem massLe_congr {arr arr' : List S} (h : Fa2 (fun x x' => x'.doc = x.doc ∧ x'.maxScore = x.maxScore) arr arr')
    (d : Nat) : massLe arr' d = massLe arr d := by
  induction h with
  | nil => rfl
  | cons hab _ ih => rw [massLe_cons, massLe_cons, hab.1, hab.2, ih]

theorem lenSum_congr {arr arr' : List S} (h : Fa2 (fun x x' => x'.rest = x.rest) arr arr') : lenSum arr' = lenSum arr := by
  induction h with
  | nil => rfl
  | cons hab _ ih => rw [lenSum_cons, lenSum_cons, hab, ih]

/-- `shallow` relates pointwise to the array it starts from -/
theorem shallow_fa2 (arr : List S) (pl pd : Nat) :
    Fa2 (fun x x' => x' = x ∨ x' = x.seekBlock pd) arr (shallow arr pl pd) := by
  unfold shallow
  conv => lhs; rw [← take_append_drop pl arr]
  exact Fa2.append (Fa2.map_right _ _ fun x _ => Or.inr rfl) (Fa2.refl _ fun x _ => Or.inl rfl)

theorem shallow_sorted {arr : List S} (hs : SortedByDoc arr) (pl pd : Nat) : SortedByDoc (shallow arr pl pd) :=
  sorted_congr ((shallow_fa2 arr pl pd).imp fun x x' h => by
    rcases h with rfl | rfl
    · rfl
    · exact seekBlock_doc x pd) hs

theorem shallow_massLe (arr : List S) (pl pd d : Nat) : massLe (shallow arr pl pd) d = massLe arr d :=
  massLe_congr ((shallow_fa2 arr pl pd).imp fun x x' h => by
    rcases h with rfl | rfl
    · exact ⟨rfl, rfl⟩
    · exact ⟨seekBlock_doc x pd, seekBlock_maxScore x pd⟩) d

theorem shallow_lenSum (arr : List S) (pl pd : Nat) : lenSum (shallow arr pl pd) = lenSum arr :=
  lenSum_congr ((shallow_fa2 arr pl pd).imp fun x x' h => by
    rcases h with rfl | rfl
    · rfl
    · exact seekBlock_rest x pd)

/-- after the shallow seeks: the invariant with the pivot as the new reference, and every skip
reader of the prefix exactly on the pivot's block -/
theorem shallow_tinv {P θ : Nat} {arr : List S} {bl pl pd : Nat} (hinv : TInv P θ arr)
    (hshape : PivotShape θ arr bl pl pd) (hP : P ≤ pd) :
    TInv pd θ (shallow arr pl pd) ∧
      (∀ x, x ∈ (shallow arr pl pd).take pl → x.skip = x.blockIdx pd ∧ x.doc ≤ pd) ∧
      (∀ x, x ∈ (shallow arr pl pd).drop pl → pd < x.doc) := by
  obtain ⟨pre, s, mid, suf, hl, hbl, hpl, hsd, hmid, hsuf, hpre, _⟩ := hshape.split
  have htake : arr.take pl = pre ++ s :: mid := by
    rw [hl]
    have : pre ++ s :: (mid ++ suf) = (pre ++ s :: mid) ++ suf := by simp
    rw [this, take_left' (by simp; omega)]
  have hdrop : arr.drop pl = suf := by
    rw [hl]
    have : pre ++ s :: (mid ++ suf) = (pre ++ s :: mid) ++ suf := by simp
    rw [this, drop_left' (by simp; omega)]
  have hPdoc : ∀ x, x ∈ pre ++ s :: mid → x.doc ≤ pd := by
    intro x hx
    rcases mem_append.mp hx with hx | hx
    · exact hpre x hx
    · rcases mem_cons.mp hx with rfl | hx
      · omega
      · have := hmid x hx; omega
  have hmemP : ∀ x, x ∈ pre ++ s :: mid → x ∈ arr := fun x hx => by rw [← htake] at hx; exact mem_of_mem_take hx
  have hmemS : ∀ x, x ∈ suf → x ∈ arr := fun x hx => by rw [← hdrop] at hx; exact mem_of_mem_drop hx
  have hlenP : ((pre ++ s :: mid).map (·.seekBlock pd)).length = pl := by simp; omega
  have harr1 : shallow arr pl pd = (pre ++ s :: mid).map (·.seekBlock pd) ++ suf := by
    unfold shallow; rw [htake, hdrop]
  have hprefix : ∀ x, x ∈ (pre ++ s :: mid).map (·.seekBlock pd) → x.skip = x.blockIdx pd ∧ x.doc ≤ pd := by
    intro x hx
    obtain ⟨y, hy, rfl⟩ := mem_map.mp hx
    have hj := hinv.j y (hmemP y hy)
    have hyd := hPdoc y hy
    refine ⟨?_, by rw [seekBlock_doc]; exact hyd⟩
    rw [seekBlock_blockIdx]
    apply seekBlock_skip_eq
    unfold JOK at hj
    exact Nat.le_trans hj (blockIdx_mono y (by omega))
  refine ⟨⟨shallow_sorted hinv.sorted pl pd, ?_, ?_, ?_⟩, ?_, ?_⟩
  · intro x hx
    rw [harr1] at hx
    rcases mem_append.mp hx with hx | hx
    · obtain ⟨y, hy, rfl⟩ := mem_map.mp hx
      exact (hinv.wf y (hmemP y hy)).seekBlock pd
    · exact hinv.wf x (hmemS x hx)
  · intro x hx
    rw [harr1] at hx
    rcases mem_append.mp hx with hx | hx
    · obtain ⟨h1, h2⟩ := hprefix x hx
      unfold JOK
      rw [h1]
      exact blockIdx_mono x (by omega)
    · exact (hinv.j x (hmemS x hx)).mono hP
  · intro d hd
    rw [shallow_massLe]
    exact hshape.mass_dead d hd
  · intro x hx
    rw [harr1, take_left' hlenP] at hx
    exact hprefix x hx
  · intro x hx
    rw [harr1, drop_left' hlenP] at hx
    exact hsuf x hx

end TantivyModel.BlockWand
