import TantivyModel.Proofs.BlockCursor
import TantivyModel.Proofs.PostingsRoundtrip
/-! the lazy block cursor drains, block after block, to the docs the skip reader walks over -/
namespace TantivyModel.Postings
open TantivyModel.Invert (RecOpt)

/-- the docs `load_block` decodes for the block the skip reader is on -/
def blockDocs (c : Cfg) (s : SkipReader) (data : List Nat) : List Nat :=
  match s.blockInfo with
  | .bitPacked db strict _ _ =>
    let raw := c.P.unpack db (data.drop (s.byteOffset.getD 0))
    (if strict then strictIntegrate (offsetOpt s.lastDocInPrev) raw else integrate s.lastDocInPrev raw).take c.B
  | .vint n =>
    match VInt.decList c.S n (if n = 0 then [] else data.drop (s.byteOffset.getD 0)) with
    | none => []
    | some (ds, _) => (padTo c.B c.T (integrate s.lastDocInPrev ds)).take n

theorem loadBlock_skip (c : Cfg) (p : BlockPostings) : (p.loadBlock c).skip = p.skip := by
  simp only [BlockPostings.loadBlock]
  repeat' split
  all_goals rfl

theorem loadBlock_data (c : Cfg) (p : BlockPostings) : (p.loadBlock c).data = p.data := by
  simp only [BlockPostings.loadBlock]
  repeat' split
  all_goals rfl

theorem loadBlock_freqOpt (c : Cfg) (p : BlockPostings) : (p.loadBlock c).freqOpt = p.freqOpt := by
  simp only [BlockPostings.loadBlock]
  repeat' split
  all_goals rfl

theorem loadBlock_docs (c : Cfg) (p : BlockPostings) (h : p.loaded = false) :
    (p.loadBlock c).docs = blockDocs c p.skip p.data := by
  simp only [BlockPostings.loadBlock, blockDocs, BlockPostings.docs, h, Bool.false_eq_true, if_false]
  repeat' split
  all_goals simp_all

/-- draining, seen from the skip reader alone -/
def skipDrain (c : Cfg) (data : List Nat) : Nat → SkipReader → List Nat
  | 0, _ => []
  | fuel + 1, s =>
    if (blockDocs c s data).isEmpty then []
    else blockDocs c s data ++ skipDrain c data fuel (s.advance c)

theorem drain_docs_eq_skipDrain (c : Cfg) (fuel : Nat) :
    ∀ q : BlockPostings, q.loaded = false →
      (BlockPostings.drain c fuel (q.loadBlock c)).1 = skipDrain c q.data fuel q.skip := by
  induction fuel with
  | zero => intro q _; rfl
  | succ n ih =>
    intro q hq
    unfold BlockPostings.drain skipDrain
    rw [loadBlock_docs c q hq]
    split
    · rfl
    · simp only
      unfold BlockPostings.advance
      have := ih ({ q.loadBlock c with skip := (q.loadBlock c).skip.advance c, loaded := false } : BlockPostings) rfl
      simp only [loadBlock_skip, loadBlock_data] at this ⊢
      rw [this]

/-! ### the skip reader walking over an encoded posting list -/

/-- the skip reader is positioned on the first of `k` full blocks (then the tail) of `docs`,
whose bytes start at offset `off` of the postings data -/
def ReadyAt (c : Cfg) (o : RecOpt) (k prev : Nat) (docs tfs : List Nat) (off : Nat) (S : SkipReader) : Prop :=
  S.skipInfo = o ∧ S.lastDocInPrev = prev ∧ S.byteOffset = some off ∧ S.remainingDocs = docs.length ∧
  match k with
  | 0 => S.blockInfo = .vint docs.length
  | k' + 1 =>
    S.blockInfo = .bitPacked (numBits (strictDeltas (offsetOpt prev) (docs.take c.B))) true
        (if hasFreq o then numBits ((tfs.take c.B).map (· - 1)) else 0)
        (if o = .positions then (tfs.take c.B).sum % 2 ^ 32 else 0) ∧
    S.lastDocInBlock = (docs.take c.B).getLastD 0 ∧
    S.data = (encBlocks c o k' ((docs.take c.B).getLastD 0) (docs.drop c.B) (tfs.drop c.B)).1

/-- bytes of the first full block -/
def blockBytesLen (c : Cfg) (o : RecOpt) (prev : Nat) (docs tfs : List Nat) : Nat :=
  numBits (strictDeltas (offsetOpt prev) (docs.take c.B)) * c.B / 8 +
    (if hasFreq o then numBits ((tfs.take c.B).map (· - 1)) * c.B / 8 else 0)

theorem readBlockInfo_ready (c : Cfg) (o : RecOpt) (k prev : Nat) (docs tfs : List Nat) (off : Nat)
    (S0 : SkipReader) (hv : ValidList docs tfs) (hlen : c.B ≤ docs.length) (hB : 0 < c.B)
    (h1 : S0.skipInfo = o) (h2 : S0.lastDocInPrev = prev) (h3 : S0.byteOffset = some off)
    (h4 : S0.remainingDocs = docs.length)
    (h5 : S0.data = (encBlocks c o (k + 1) prev docs tfs).1) :
    ReadyAt c o (k + 1) prev docs tfs off S0.readBlockInfo := by
  have htake : (docs.take c.B).length = c.B := by simp; omega
  have hne : docs.take c.B ≠ [] := by intro h; rw [h] at htake; simp at htake; omega
  have hlast_lt : (docs.take c.B).getLastD 0 < 2 ^ 32 := by
    have := hv.bound _ (List.mem_of_mem_take (getLastD_mem _ hne)); omega
  have hds_lt : ∀ d ∈ strictDeltas (offsetOpt prev) (docs.take c.B), d < 2 ^ 31 :=
    strictDeltas_le _ _ _ (fun v hv' => hv.bound v (List.mem_of_mem_take hv'))
  have hdb : numBits (strictDeltas (offsetOpt prev) (docs.take c.B)) < Gen.Postings.BITWIDTH_LIMIT := by
    have := numBits_le _ 31 hds_lt
    have hl : Gen.Postings.BITWIDTH_LIMIT = 32 := by decide
    omega
  simp only [encBlocks] at h5
  unfold ReadyAt SkipReader.readBlockInfo
  simp only [h1, h2, h3, h4, h5, true_and]
  rw [skipEntry_readU32 _ _ _ _ _ _ _ hlast_lt, skipEntry_getD4, decode_encode_bitwidth _ _ hdb, skipEntry_drop]
  refine ⟨?_, rfl, rfl⟩
  cases o with
  | basic => simp only [hasFreq]; simp
  | freqs =>
    simp only [hasFreq, if_true]
    rw [skipEntry_getD5 .freqs rfl]
    simp
  | positions =>
    simp only [hasFreq, if_true, skipEntry_getD5 .positions rfl]
    rw [skipEntry_tfSum _ _ _ _ _ _ (Nat.mod_lt _ (by omega))]

theorem advance_ready (c : Cfg) (o : RecOpt) (h8 : 8 ∣ c.B) (hB : 0 < c.B) (k prev : Nat)
    (docs tfs : List Nat) (off : Nat) (S : SkipReader) (hv : ValidList docs tfs)
    (hk : k + 1 = docs.length / c.B) (hr : ReadyAt c o (k + 1) prev docs tfs off S) :
    ReadyAt c o k ((docs.take c.B).getLastD 0) (docs.drop c.B) (tfs.drop c.B)
      (off + blockBytesLen c o prev docs tfs) (S.advance c) := by
  obtain ⟨h1, h2, h3, h4, h5, h6, h7⟩ := hr
  have hlen : c.B ≤ docs.length := by
    rcases Nat.lt_or_ge docs.length c.B with h | h
    · rw [Nat.div_eq_of_lt h] at hk; omega
    · exact h
  have hk' : k = (docs.drop c.B).length / c.B := by
    simp only [List.length_drop]
    have e : docs.length = (docs.length - c.B) + c.B := by omega
    rw [e, Nat.add_div_right _ hB] at hk
    omega
  obtain ⟨m, hm⟩ := h8
  have hsize : ∀ a b : Nat, (a + b) * c.B / 8 = a * c.B / 8 + b * c.B / 8 := by
    intro a b
    rw [hm]
    have e1 : (a + b) * (8 * m) = 8 * ((a + b) * m) := by rw [Nat.mul_left_comm]
    have e2 : a * (8 * m) = 8 * (a * m) := by rw [Nat.mul_left_comm]
    have e3 : b * (8 * m) = 8 * (b * m) := by rw [Nat.mul_left_comm]
    rw [e1, e2, e3, Nat.mul_div_cancel_left _ (by omega), Nat.mul_div_cancel_left _ (by omega),
      Nat.mul_div_cancel_left _ (by omega), Nat.add_mul]
  have hoff : (numBits (strictDeltas (offsetOpt prev) (docs.take c.B)) +
      (if hasFreq o then numBits ((tfs.take c.B).map (· - 1)) else 0)) * c.B / 8 =
      blockBytesLen c o prev docs tfs := by
    rw [hsize]; unfold blockBytesLen
    cases hasFreq o <;> simp
  -- the state after `advance`, before looking at the next skip entry
  by_cases hnext : c.B ≤ docs.length - c.B
  · -- another full block follows
    obtain ⟨k', rfl⟩ : ∃ k', k = k' + 1 := by
      have : 1 ≤ (docs.length - c.B) / c.B := (Nat.one_le_div_iff hB).mpr hnext
      simp only [List.length_drop] at hk'
      exact ⟨k - 1, by omega⟩
    have hrem : c.B ≤ S.remainingDocs - c.B := by rw [h4]; exact hnext
    unfold SkipReader.advance
    simp only [h5, hrem, if_true]
    apply readBlockInfo_ready c o k' _ _ _ _ _ (hv.drop c.B) (by simpa using hnext) hB
    · exact h1
    · exact h6
    · simp only [h3, Option.map_some, hoff]
    · simp [h4]
    · exact h7
  · -- the tail follows
    have hk0 : k = 0 := by
      simp only [List.length_drop] at hk'
      rw [hk', Nat.div_eq_of_lt (by omega)]
    subst hk0
    have hrem : ¬ c.B ≤ S.remainingDocs - c.B := by rw [h4]; exact hnext
    unfold SkipReader.advance
    simp only [h5, hrem, if_false]
    unfold ReadyAt
    simp only [h1, h6, h3, Option.map_some, hoff, h4, List.length_drop, and_self]

theorem decList_length (S : Nat) (n : Nat) :
    ∀ (bs ds rest : List Nat), VInt.decList S n bs = some (ds, rest) → ds.length = n := by
  induction n with
  | zero => intro bs ds rest h; simp [VInt.decList] at h; simp [h.1.symm]
  | succ n ih =>
    intro bs ds rest h
    simp only [VInt.decList] at h
    split at h
    · simp at h
    · split at h
      · simp at h
      · rename_i v r heq vs r' heq2
        simp at h
        rw [← h.1]
        simp [ih _ _ _ heq2]

/-- the docs decoded for a full block -/
theorem blockDocs_full (c : Cfg) (o : RecOpt) (hP : GoodPacker c.B c.P) (k prev : Nat)
    (docs tfs pre : List Nat) (S : SkipReader) (hv : ValidList docs tfs)
    (hprev : prev = 0 ∨ ∀ d ∈ docs, prev < d) (hlen : c.B ≤ docs.length)
    (hr : ReadyAt c o (k + 1) prev docs tfs pre.length S) :
    blockDocs c S (pre ++ (encBlocks c o (k + 1) prev docs tfs).2) = docs.take c.B := by
  obtain ⟨h1, h2, h3, h4, h5, h6, h7⟩ := hr
  have htake : (docs.take c.B).length = c.B := by simp; omega
  have hds_len : (strictDeltas (offsetOpt prev) (docs.take c.B)).length = c.B := by
    rw [strictDeltas_length, htake]
  have hbelow : Below (offsetOpt prev) (docs.take c.B) := by
    unfold offsetOpt
    split
    · trivial
    · rename_i hp
      rcases hprev with h | h
      · exact absurd h hp
      · intro v hv'; exact h v (List.mem_of_mem_take hv')
  have hsorted_take : (docs.take c.B).Pairwise (· < ·) := hv.sorted.sublist (List.take_sublist _ _)
  unfold blockDocs
  simp only [h5, h3, h2, Option.getD_some, if_true, encBlocks, List.drop_left', List.append_assoc]
  rw [hP.unpack_pack _ _ _ hds_len (lt_two_pow_numBits _),
    strictIntegrate_strictDeltas _ _ hsorted_take hbelow, List.take_take, Nat.min_self]

/-- the docs decoded for the tail, and nothing after it -/
theorem blockDocs_tail (c : Cfg) (o : RecOpt) (hB : 0 < c.B) (hS : 2 ≤ c.S) (prev : Nat)
    (docs tfs pre : List Nat) (S : SkipReader) (hv : ValidList docs tfs)
    (hprev : prev = 0 ∨ ∀ d ∈ docs, prev < d) (hlt : docs.length < c.B)
    (hr : ReadyAt c o 0 prev docs tfs pre.length S) (data : List Nat)
    (hdata : data = pre ++ (encBlocks c o 0 prev docs tfs).2) :
    blockDocs c S data = docs ∧ blockDocs c (S.advance c) data = [] := by
  obtain ⟨h1, h2, h3, h4, h5⟩ := hr
  have hle : ∀ v ∈ docs, prev ≤ v := by
    intro v hv'
    rcases hprev with h | h
    · omega
    · exact Nat.le_of_lt (h v hv')
  constructor
  · unfold blockDocs
    simp only [h5, h3, h2, Option.getD_some, hdata, encBlocks, vintTail, List.drop_left']
    by_cases h0 : docs.length = 0
    · have hd : docs = [] := List.length_eq_zero_iff.mp h0
      subst hd
      simp [VInt.decList, integrate, padTo]
    · have e1 := VInt.decList_encList c.S hS (deltas prev docs)
        (if hasFreq o = true then VInt.encList c.S tfs else [])
      rw [deltas_length] at e1
      simp only [h0, if_false, e1, integrate_deltas prev docs hv.sorted hle]
      simp [padTo]
  · unfold blockDocs SkipReader.advance
    simp only [h5]
    have : ¬ c.B ≤ 0 := by omega
    simp [this, VInt.decList, integrate, padTo]

/-- **the lazy cursor walks the encoded list**: from a skip reader positioned at the start of
`k` full blocks and the tail, draining yields exactly the docs -/
theorem skipDrain_enc (c : Cfg) (o : RecOpt) (h8 : 8 ∣ c.B) (hB : 0 < c.B) (hS : 2 ≤ c.S)
    (hP : GoodPacker c.B c.P) (k : Nat) :
    ∀ (prev : Nat) (docs tfs pre : List Nat) (S : SkipReader), k = docs.length / c.B →
      ValidList docs tfs → (prev = 0 ∨ ∀ d ∈ docs, prev < d) →
      ReadyAt c o k prev docs tfs pre.length S →
      skipDrain c (pre ++ (encBlocks c o k prev docs tfs).2) (k + 2) S = docs := by
  induction k with
  | zero =>
    intro prev docs tfs pre S hk hv hprev hr
    have hlt : docs.length < c.B := by
      rcases Nat.lt_or_ge docs.length c.B with h | h
      · exact h
      · have : 1 ≤ docs.length / c.B := (Nat.one_le_div_iff hB).mpr h
        omega
    have ht := blockDocs_tail c o hB hS prev docs tfs pre S hv hprev hlt hr _ rfl
    simp only [skipDrain, ht.1, ht.2]
    by_cases hd : docs = []
    · simp [hd]
    · simp [hd]
  | succ k ih =>
    intro prev docs tfs pre S hk hv hprev hr
    have hlen : c.B ≤ docs.length := by
      rcases Nat.lt_or_ge docs.length c.B with h | h
      · rw [Nat.div_eq_of_lt h] at hk; omega
      · exact h
    have hfull := blockDocs_full c o hP k prev docs tfs pre S hv hprev hlen hr
    have hne : docs.take c.B ≠ [] := by
      intro h
      have : (docs.take c.B).length = c.B := by simp; omega
      rw [h] at this; simp at this; omega
    have hadv := advance_ready c o h8 hB k prev docs tfs pre.length S hv hk hr
    have hk' : k = (docs.drop c.B).length / c.B := by
      simp only [List.length_drop]
      have e : docs.length = (docs.length - c.B) + c.B := by omega
      rw [e, Nat.add_div_right _ hB] at hk
      omega
    have hlast_mem := getLastD_mem (docs.take c.B) hne
    have hprev' : (docs.take c.B).getLastD 0 = 0 ∨ ∀ d ∈ docs.drop c.B, (docs.take c.B).getLastD 0 < d :=
      Or.inr (fun d hd => take_lt_drop docs hv.sorted c.B _ hlast_mem d hd)
    -- the bytes of this block move into the prefix
    have htake : (docs.take c.B).length = c.B := by simp; omega
    have httake : (tfs.take c.B).length = c.B := by simp [hv.len]; omega
    have hds_len : (strictDeltas (offsetOpt prev) (docs.take c.B)).length = c.B := by
      rw [strictDeltas_length, htake]
    have hpl := hP.pack_length (numBits (strictDeltas (offsetOpt prev) (docs.take c.B))) _ hds_len
    have hpl2 := hP.pack_length (numBits ((tfs.take c.B).map (· - 1))) ((tfs.take c.B).map (· - 1)) (by rw [List.length_map]; exact httake)
    let blk := c.P.pack (numBits (strictDeltas (offsetOpt prev) (docs.take c.B))) (strictDeltas (offsetOpt prev) (docs.take c.B)) ++
      (if hasFreq o then c.P.pack (numBits ((tfs.take c.B).map (· - 1))) ((tfs.take c.B).map (· - 1)) else [])
    have hblk_len : blk.length = blockBytesLen c o prev docs tfs := by
      simp only [blk, blockBytesLen, List.length_append, hpl]
      cases hasFreq o
      · simp
      · simp only [if_true]; rw [hpl2]
    have hdata : pre ++ (encBlocks c o (k + 1) prev docs tfs).2 =
        (pre ++ blk) ++ (encBlocks c o k ((docs.take c.B).getLastD 0) (docs.drop c.B) (tfs.drop c.B)).2 := by
      simp only [encBlocks, blk, List.append_assoc]
    have hih := ih ((docs.take c.B).getLastD 0) (docs.drop c.B) (tfs.drop c.B) (pre ++ blk) (S.advance c)
      hk' (hv.drop c.B) hprev' (by rw [List.length_append, hblk_len]; exact hadv)
    rw [skipDrain, hfull]
    simp only [List.isEmpty_iff, hne, if_false]
    rw [hdata, hih, List.take_append_drop]

/-! ### opening the encoded bytes -/

theorem encBlocks_skip_length (c : Cfg) (o : RecOpt) (k : Nat) :
    ∀ prev docs tfs, (encBlocks c o k prev docs tfs).1.length = entryLen o * k := by
  induction k with
  | zero => intro _ _ _; simp [encBlocks]
  | succ k ih =>
    intro prev docs tfs
    simp only [encBlocks, List.length_append, skipEntry_length, ih, Nat.mul_succ]
    omega

theorem splitSkips_encodeTerm (c : Cfg) (o : RecOpt) (hS : 2 ≤ c.S) (docs tfs : List Nat) :
    splitSkips c docs.length (encodeTerm c o docs tfs) =
      (if docs.length < c.B then none else some (encBlocks c o (docs.length / c.B) 0 docs tfs).1,
       (encBlocks c o (docs.length / c.B) 0 docs tfs).2) := by
  unfold splitSkips encodeTerm
  by_cases hlt : docs.length < c.B
  · have : ¬ c.B ≤ docs.length := by omega
    simp [hlt, this]
  · have : c.B ≤ docs.length := by omega
    simp only [hlt, if_false, this, if_true, List.append_assoc]
    rw [VInt.dec_enc c.S hS]
    simp

theorem effectiveOpt_encodeTerm (c : Cfg) (o : RecOpt) (docs tfs : List Nat) :
    effectiveOpt c o docs.length
      (if docs.length < c.B then none else some (encBlocks c o (docs.length / c.B) 0 docs tfs).1) = o := by
  unfold effectiveOpt
  by_cases hlt : docs.length < c.B
  · simp [hlt]
  · simp only [hlt, if_false, encBlocks_skip_length]
    cases o
    · simp
    · have : entryLen .freqs = 8 := by decide
      simp [this]
    · have : entryLen .positions = 12 := by decide
      rw [this]
      have : ¬ (12 * (docs.length / c.B) < 8 * (docs.length / c.B)) := by omega
      simp [this]

theorem new_ready (c : Cfg) (o : RecOpt) (hB : 0 < c.B) (docs tfs : List Nat) (hv : ValidList docs tfs) :
    ReadyAt c o (docs.length / c.B) 0 docs tfs 0
      (SkipReader.new c ((if docs.length < c.B then none else
        some (encBlocks c o (docs.length / c.B) 0 docs tfs).1).getD []) docs.length o) := by
  unfold SkipReader.new
  by_cases hlt : docs.length < c.B
  · have hk : docs.length / c.B = 0 := Nat.div_eq_of_lt hlt
    have : ¬ c.B ≤ docs.length := by omega
    simp only [hlt, if_true, this, if_false, hk]
    simp [ReadyAt]
  · have hle : c.B ≤ docs.length := by omega
    obtain ⟨k, hk⟩ : ∃ k, docs.length / c.B = k + 1 := by
      have : 1 ≤ docs.length / c.B := (Nat.one_le_div_iff hB).mpr hle
      exact ⟨docs.length / c.B - 1, by omega⟩
    simp only [hlt, if_false, hle, if_true, Option.getD_some, hk]
    exact readBlockInfo_ready c o k 0 docs tfs 0 _ hv hle hB rfl rfl rfl rfl rfl

/-- **lazy cursor ≡ the list**: a block cursor freshly opened on the encoded bytes of a posting
list, drained block after block, yields exactly its docs -/
theorem drain_open_encode (c : Cfg) (o : RecOpt) (h8 : 8 ∣ c.B) (hB : 0 < c.B) (hS : 2 ≤ c.S)
    (hP : GoodPacker c.B c.P) (docs tfs : List Nat) (hv : ValidList docs tfs) :
    (BlockPostings.drain c (docs.length / c.B + 2)
      (BlockPostings.open c o o docs.length (encodeTerm c o docs tfs))).1 = docs := by
  unfold BlockPostings.open
  rw [drain_docs_eq_skipDrain c _ _ rfl]
  simp only [splitSkips_encodeTerm c o hS, effectiveOpt_encodeTerm]
  have hr := new_ready c o hB docs tfs hv
  have := skipDrain_enc c o h8 hB hS hP (docs.length / c.B) 0 docs tfs [] _ rfl hv (Or.inl rfl)
    (by simpa using hr)
  simpa using this

/-! ### the term frequencies the lazy cursor shows -/

/-- the frequencies `load_block` decodes for the current block when it reads them (`none`: the
frequency buffer is left as it was — the empty block after the tail) -/
def blockTfs (c : Cfg) (s : SkipReader) (data : List Nat) : Option (List Nat) :=
  match s.blockInfo with
  | .bitPacked db strict tb _ =>
    some (((c.P.unpack tb ((data.drop (s.byteOffset.getD 0)).drop (db * c.B / 8))).map
      (fun x => if strict then x + 1 else x)).take c.B)
  | .vint n =>
    match VInt.decList c.S n (if n = 0 then [] else data.drop (s.byteOffset.getD 0)) with
    | none => none
    | some (_, rest) =>
      if 0 < rest.length then
        match VInt.decList c.S n rest with
        | none => none
        | some (tfs, _) => some ((padTo c.B c.T tfs).take n)
      else none

theorem loadBlock_freqs (c : Cfg) (p : BlockPostings) (h : p.loaded = false) (hf : p.freqOpt = .readFreq)
    (t : List Nat) (ht : blockTfs c p.skip p.data = some t) : (p.loadBlock c).freqs = t := by
  simp only [BlockPostings.loadBlock, blockTfs, BlockPostings.freqs, h, hf, Bool.false_eq_true, if_false,
    true_and] at ht ⊢
  repeat' split at ht
  all_goals simp_all

def skipDrainTf (c : Cfg) (data : List Nat) : Nat → SkipReader → Option (List Nat)
  | 0, _ => some []
  | fuel + 1, s =>
    if (blockDocs c s data).isEmpty then some []
    else
      match blockTfs c s data, skipDrainTf c data fuel (s.advance c) with
      | some a, some b => some (a ++ b)
      | _, _ => none

theorem drain_tfs_eq_skipDrainTf (c : Cfg) (fuel : Nat) :
    ∀ (q : BlockPostings) (t : List Nat), q.loaded = false → q.freqOpt = .readFreq →
      skipDrainTf c q.data fuel q.skip = some t →
      (BlockPostings.drain c fuel (q.loadBlock c)).2 = t := by
  induction fuel with
  | zero => intro q t _ _ ht; simp [skipDrainTf] at ht; simp [BlockPostings.drain, ← ht]
  | succ n ih =>
    intro q t hq hf ht
    unfold skipDrainTf at ht
    unfold BlockPostings.drain
    rw [loadBlock_docs c q hq]
    split at ht
    · rename_i hemp
      simp only [hemp, if_true]
      simpa using ht.symm
    · rename_i hne
      simp only [hne, Bool.false_eq_true, if_false]
      split at ht
      · rename_i a b ha hb
        simp only [Option.some.injEq] at ht
        rw [loadBlock_freqs c q hq hf a ha]
        unfold BlockPostings.advance
        have := ih ({ q.loadBlock c with skip := (q.loadBlock c).skip.advance c, loaded := false } : BlockPostings) b
          rfl (by simp only [loadBlock_freqOpt]; exact hf)
          (by simp only [loadBlock_skip, loadBlock_data]; exact hb)
        rw [this, ht]
      · simp at ht

theorem blockTfs_full (c : Cfg) (o : RecOpt) (ho : hasFreq o = true) (hP : GoodPacker c.B c.P)
    (k prev : Nat) (docs tfs pre : List Nat) (S : SkipReader) (hv : ValidList docs tfs)
    (hlen : c.B ≤ docs.length) (hr : ReadyAt c o (k + 1) prev docs tfs pre.length S) :
    blockTfs c S (pre ++ (encBlocks c o (k + 1) prev docs tfs).2) = some (tfs.take c.B) := by
  obtain ⟨h1, h2, h3, h4, h5, h6, h7⟩ := hr
  have htake : (docs.take c.B).length = c.B := by simp; omega
  have httake : (tfs.take c.B).length = c.B := by simp [hv.len]; omega
  have hds_len : (strictDeltas (offsetOpt prev) (docs.take c.B)).length = c.B := by
    rw [strictDeltas_length, htake]
  have hpl := hP.pack_length (numBits (strictDeltas (offsetOpt prev) (docs.take c.B))) _ hds_len
  unfold blockTfs
  simp only [h5, h3, Option.getD_some, if_true, encBlocks, List.drop_left', List.append_assoc, ho]
  rw [← hpl, List.drop_left' rfl,
    hP.unpack_pack _ _ _ (by rw [List.length_map]; exact httake) (lt_two_pow_numBits _),
    map_pred_succ _ (fun t ht => hv.tfpos t (List.mem_of_mem_take ht)), List.take_take, Nat.min_self]

theorem blockTfs_tail (c : Cfg) (o : RecOpt) (ho : hasFreq o = true) (hS : 2 ≤ c.S) (prev : Nat)
    (docs tfs pre : List Nat) (S : SkipReader) (hv : ValidList docs tfs) (hne : docs ≠ [])
    (hr : ReadyAt c o 0 prev docs tfs pre.length S) :
    blockTfs c S (pre ++ (encBlocks c o 0 prev docs tfs).2) = some tfs := by
  obtain ⟨h1, h2, h3, h4, h5⟩ := hr
  have h0 : docs.length ≠ 0 := fun h => hne (List.length_eq_zero_iff.mp h)
  have htne : tfs ≠ [] := fun h => h0 (by rw [← hv.len, h]; rfl)
  have e1 := VInt.decList_encList c.S hS (deltas prev docs) (VInt.encList c.S tfs)
  rw [deltas_length] at e1
  have e2 := VInt.decList_encList c.S hS tfs []
  rw [hv.len, List.append_nil] at e2
  have hpos : 0 < (VInt.encList c.S tfs).length := by
    cases tfs with
    | nil => exact absurd rfl htne
    | cons a r =>
      have := VInt.enc_length_pos c.S a
      simp [VInt.encList]; omega
  unfold blockTfs
  simp only [h5, h3, Option.getD_some, encBlocks, vintTail, ho, if_true, List.drop_left', h0, if_false,
    e1, hpos, e2]
  rw [← hv.len]
  simp [padTo]

theorem skipDrainTf_enc (c : Cfg) (o : RecOpt) (ho : hasFreq o = true) (h8 : 8 ∣ c.B) (hB : 0 < c.B)
    (hS : 2 ≤ c.S) (hP : GoodPacker c.B c.P) (k : Nat) :
    ∀ (prev : Nat) (docs tfs pre : List Nat) (S : SkipReader), k = docs.length / c.B →
      ValidList docs tfs → (prev = 0 ∨ ∀ d ∈ docs, prev < d) →
      ReadyAt c o k prev docs tfs pre.length S →
      skipDrainTf c (pre ++ (encBlocks c o k prev docs tfs).2) (k + 2) S = some tfs := by
  induction k with
  | zero =>
    intro prev docs tfs pre S hk hv hprev hr
    have hlt : docs.length < c.B := by
      rcases Nat.lt_or_ge docs.length c.B with h | h
      · exact h
      · have : 1 ≤ docs.length / c.B := (Nat.one_le_div_iff hB).mpr h
        omega
    have ht := blockDocs_tail c o hB hS prev docs tfs pre S hv hprev hlt hr _ rfl
    by_cases hd : docs = []
    · have htf : tfs = [] := List.length_eq_zero_iff.mp (by rw [hv.len, hd]; rfl)
      subst hd
      subst htf
      have h1 := ht.1
      simp [skipDrainTf, h1]
    · have htfs := blockTfs_tail c o ho hS prev docs tfs pre S hv hd hr
      simp [skipDrainTf, ht.1, ht.2, hd, htfs]
  | succ k ih =>
    intro prev docs tfs pre S hk hv hprev hr
    have hlen : c.B ≤ docs.length := by
      rcases Nat.lt_or_ge docs.length c.B with h | h
      · rw [Nat.div_eq_of_lt h] at hk; omega
      · exact h
    have hfull := blockDocs_full c o hP k prev docs tfs pre S hv hprev hlen hr
    have htfull := blockTfs_full c o ho hP k prev docs tfs pre S hv hlen hr
    have hne : docs.take c.B ≠ [] := by
      intro h
      have : (docs.take c.B).length = c.B := by simp; omega
      rw [h] at this; simp at this; omega
    have hadv := advance_ready c o h8 hB k prev docs tfs pre.length S hv hk hr
    have hk' : k = (docs.drop c.B).length / c.B := by
      simp only [List.length_drop]
      have e : docs.length = (docs.length - c.B) + c.B := by omega
      rw [e, Nat.add_div_right _ hB] at hk
      omega
    have hlast_mem := getLastD_mem (docs.take c.B) hne
    have hprev' : (docs.take c.B).getLastD 0 = 0 ∨ ∀ d ∈ docs.drop c.B, (docs.take c.B).getLastD 0 < d :=
      Or.inr (fun d hd => take_lt_drop docs hv.sorted c.B _ hlast_mem d hd)
    have htake : (docs.take c.B).length = c.B := by simp; omega
    have httake : (tfs.take c.B).length = c.B := by simp [hv.len]; omega
    have hds_len : (strictDeltas (offsetOpt prev) (docs.take c.B)).length = c.B := by
      rw [strictDeltas_length, htake]
    have hpl := hP.pack_length (numBits (strictDeltas (offsetOpt prev) (docs.take c.B))) _ hds_len
    have hpl2 := hP.pack_length (numBits ((tfs.take c.B).map (· - 1))) ((tfs.take c.B).map (· - 1))
      (by rw [List.length_map]; exact httake)
    let blk := c.P.pack (numBits (strictDeltas (offsetOpt prev) (docs.take c.B))) (strictDeltas (offsetOpt prev) (docs.take c.B)) ++
      (if hasFreq o then c.P.pack (numBits ((tfs.take c.B).map (· - 1))) ((tfs.take c.B).map (· - 1)) else [])
    have hblk_len : blk.length = blockBytesLen c o prev docs tfs := by
      simp only [blk, blockBytesLen, List.length_append, hpl]
      cases hasFreq o
      · simp
      · simp only [if_true]; rw [hpl2]
    have hdata : pre ++ (encBlocks c o (k + 1) prev docs tfs).2 =
        (pre ++ blk) ++ (encBlocks c o k ((docs.take c.B).getLastD 0) (docs.drop c.B) (tfs.drop c.B)).2 := by
      simp only [encBlocks, blk, List.append_assoc]
    have hih := ih ((docs.take c.B).getLastD 0) (docs.drop c.B) (tfs.drop c.B) (pre ++ blk) (S.advance c)
      hk' (hv.drop c.B) hprev' (by rw [List.length_append, hblk_len]; exact hadv)
    rw [skipDrainTf, hfull, htfull]
    simp only [List.isEmpty_iff, hne, if_false]
    rw [hdata, hih]
    simp [List.take_append_drop]

/-- **lazy cursor ≡ the list, frequencies included** -/
theorem drain_open_encode_tfs (c : Cfg) (o : RecOpt) (ho : hasFreq o = true) (h8 : 8 ∣ c.B) (hB : 0 < c.B)
    (hS : 2 ≤ c.S) (hP : GoodPacker c.B c.P) (docs tfs : List Nat) (hv : ValidList docs tfs) :
    (BlockPostings.drain c (docs.length / c.B + 2)
      (BlockPostings.open c o o docs.length (encodeTerm c o docs tfs))).2 = tfs := by
  unfold BlockPostings.open
  apply drain_tfs_eq_skipDrainTf c _ _ tfs rfl
  · simp only [splitSkips_encodeTerm c o hS, effectiveOpt_encodeTerm]
    cases o <;> simp [hasFreq] at ho <;> rfl
  · simp only [splitSkips_encodeTerm c o hS, effectiveOpt_encodeTerm]
    have hr := new_ready c o hB docs tfs hv
    have := skipDrainTf_enc c o ho h8 hB hS hP (docs.length / c.B) 0 docs tfs [] _ rfl hv (Or.inl rfl)
      (by simpa using hr)
    simpa using this

/-- the recycled cursor shows the new term's frequencies as well -/
theorem drain_reset_encode_tfs (c : Cfg) (o : RecOpt) (ho : hasFreq o = true) (h8 : 8 ∣ c.B) (hB : 0 < c.B)
    (hS : 2 ≤ c.S) (hP : GoodPacker c.B c.P) (docs tfs : List Nat) (hv : ValidList docs tfs)
    (p : BlockPostings) (hskip : p.skip.skipInfo = o) (hfreq : p.freqOpt = .readFreq) :
    (BlockPostings.drain c (docs.length / c.B + 2)
      (p.reset c docs.length (encodeTerm c o docs tfs))).2 = tfs := by
  simp only [BlockPostings.reset]
  refine drain_tfs_eq_skipDrainTf c _ _ tfs rfl ?_ ?_
  · exact hfreq
  simp only [splitSkips_encodeTerm c o hS, SkipReader.reset_eq_new, hskip]
  have hr := new_ready c o hB docs tfs hv
  have := skipDrainTf_enc c o ho h8 hB hS hP (docs.length / c.B) 0 docs tfs [] _ rfl hv (Or.inl rfl)
    (by simpa using hr)
  simpa using this

end TantivyModel.Postings
