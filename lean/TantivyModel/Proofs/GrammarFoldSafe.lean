import TantivyModel.Proofs.GrammarFold
import TantivyModel.Proofs.Grammar
import TantivyModel.Model.Grammar.Safe
namespace TantivyModel.Grammar
variable {L T : Type} [DecidableEq L]

/-! ## `rewrite_ast` is safe on the trees folded from operator chains -/

theorem rewriteL_all_unwrapSafe (m : Mode) (b : Bool) (cs : List (Entry L))
    (h : ∀ e ∈ cs, e.1.isSome = true) : (rewriteL cs).all (unwrapSafe m b) = true := by
  induction cs with
  | nil => rfl
  | cons e rest ih =>
    obtain ⟨o, a⟩ := e
    have ho := h (o, a) (by simp)
    cases o with
    | none => cases ho
    | some o' =>
      have ih' := ih (fun e he => h e (List.mem_cons_of_mem _ he))
      have hu : unwrapSafe m b (some o', rewrite a) = true := by
        unfold unwrapSafe
        split
        · rename_i heq; cases heq
        · rfl
      simp only [rewriteL, List.all_cons, hu, ih', Bool.and_self]

theorem safeWithL_of (m : Mode) (b : Bool) (cs : List (Entry L))
    (h : ∀ e ∈ cs, safeWith m b e.2 = true) : safeWithL m b cs = true := by
  induction cs with
  | nil => simp [safeWithL]
  | cons e rest ih =>
    obtain ⟨o, a⟩ := e
    have h1 := h (o, a) (by simp)
    have ih' := ih (fun e he => h e (List.mem_cons_of_mem _ he))
    simp only [safeWithL, h1, ih', Bool.and_self]

theorem safe_clause (m : Mode) (b : Bool) (cs : List (Entry L))
    (h1 : ∀ e ∈ cs, e.1.isSome = true) (h2 : ∀ e ∈ cs, safeWith m b e.2 = true) :
    safeWith m b (.clause cs) = true := by
  simp only [safeWith, safeWithL_of m b cs h2, rewriteL_all_unwrapSafe m b cs h1, Bool.and_self]

theorem allMust_isSome (g : List (Entry L)) (h : allMust g = true) : ∀ e ∈ g, e.1.isSome = true := by
  intro e he
  have := List.all_eq_true.mp h e he
  simp only [beq_iff_eq] at this
  rw [this]; rfl

/-- the tree folded from `a₀ op₁ a₁ … opₙ aₙ` satisfies the side condition of
    `rewrite_preserves_sem` as soon as the operands' own trees do -/
theorem chain_safe (m : Mode) (res : L → LAst T) (v : T → Bool) (a0 : Ast L) (rest : List (BinOp × Ast L))
    (h0 : safeWith m false a0 = true) (hr : ∀ x ∈ rest, safeWith m false x.2 = true) :
    safeWith m false (assemble (groups (chainFrom none a0 rest))) = true := by
  obtain ⟨g, gs, hg, _, _, hhead, htail, hmem⟩ := chain_groups m res v none a0 rest
  have hsafe : ∀ g' ∈ g :: gs, ∀ e ∈ g', safeWith m false e.2 = true := by
    intro g' hg' e he
    rcases hmem g' hg' e he with h | ⟨x, hx, h⟩
    · rw [h]; exact h0
    · rw [h]; exact hr x hx
  rw [hg]
  match gs, hhead, htail, hsafe with
  | [], hhead, _, hsafe =>
    match g, hhead, hsafe with
    | [], hh, _ => simp [okHead] at hh
    | [(o, a)], hh, hsafe =>
      simp [okHead] at hh
      subst hh
      have : assemble [[((none : Option Occur), a)]] = a := by simp [assemble]
      rw [this]
      exact hsafe [(none, a)] (by simp) (none, a) (by simp)
    | e1 :: e2 :: g', hh, hsafe =>
      simp only [okHead] at hh
      have : assemble [e1 :: e2 :: g'] = .clause (e1 :: e2 :: g') := rfl
      rw [this]
      exact safe_clause m false _ (allMust_isSome _ hh) (hsafe _ (by simp))
  | g2 :: gs', hhead, htail, hsafe =>
    rw [assemble_multi]
    have hok : ∀ g' ∈ g :: g2 :: gs', okTail g' = true := by
      intro g' hg'
      simp only [List.mem_cons] at hg'
      rcases hg' with rfl | hg'
      · rw [← okHead_none_false]; simpa using hhead
      · exact List.all_eq_true.mp htail g' (by simpa using hg')
    have htop : ∀ g' ∈ g :: g2 :: gs', (top g').1.isSome = true ∧ safeWith m false (top g').2 = true := by
      intro g' hg'
      have hk := hok g' hg'
      have hs := hsafe g' hg'
      match g', hk, hs with
      | [], hk, _ => simp [okTail] at hk
      | [(o, a)], hk, hs =>
        simp [okTail] at hk
        subst hk
        have ht : top [(some Occur.should, a)] = (some Occur.should, a) := rfl
        rw [ht]
        exact ⟨rfl, hs (some Occur.should, a) (by simp)⟩
      | e1 :: e2 :: g'', hk, hs =>
        simp only [okTail] at hk
        have ht : top (e1 :: e2 :: g'') = (some Occur.should, .clause (e1 :: e2 :: g'')) := rfl
        rw [ht]
        exact ⟨rfl, safe_clause m false _ (allMust_isSome _ hk) hs⟩
    apply safe_clause
    · intro e he
      simp only [List.mem_map] at he
      obtain ⟨g', hg', rfl⟩ := he
      exact (htop g' hg').1
    · intro e he
      simp only [List.mem_map] at he
      obtain ⟨g', hg', rfl⟩ := he
      exact (htop g' hg').2

theorem rewriteL_all_unwrapSafe_leaves (m : Mode) (b : Bool) (cs : List (Entry L))
    (h : ∀ e ∈ cs, ∃ l, e.2 = .leaf l) : (rewriteL cs).all (unwrapSafe m b) = true := by
  induction cs with
  | nil => rfl
  | cons e rest ih =>
    obtain ⟨o, a⟩ := e
    obtain ⟨l, hl⟩ := h (o, a) (by simp)
    simp only at hl
    subst hl
    have ih' := ih (fun e he => h e (List.mem_cons_of_mem _ he))
    have hu : unwrapSafe m b (o, rewrite (.leaf l : Ast L)) = true := by
      simp only [rewrite]
      unfold unwrapSafe
      split
      · rename_i heq; cases heq
      · rfl
    simp only [rewriteL, List.all_cons, hu, ih', Bool.and_self]

theorem leaves_safe (m : Mode) (b : Bool) (cs : List (Entry L)) (h : ∀ e ∈ cs, ∃ l, e.2 = .leaf l) :
    safeWith m b (.clause cs) = true := by
  have h2 : ∀ e ∈ cs, safeWith m b e.2 = true := by
    intro e he
    obtain ⟨l, hl⟩ := h e he
    rw [hl]; simp [safeWith]
  simp only [safeWith, safeWithL_of m b cs h2, rewriteL_all_unwrapSafe_leaves m b cs h, Bool.and_self]

/-- the tree folded from a juxtaposed marker list of leaves satisfies the side condition of
    `rewrite_preserves_sem` -/
theorem marks_safe (m : Mode) (cs : List (Entry L)) (h : ∀ e ∈ cs, ∃ l, e.2 = .leaf l) :
    safeWith m false (assemble (groups (marksItems cs))) = true := by
  rw [groups_marks, assemble_marks]
  match cs, h with
  | [], _ => exact leaves_safe m false [] (by intro e he; cases he)
  | [(o, a)], h =>
    by_cases ho : o = some .mustNot
    · simp only [ho, if_true]
      exact leaves_safe m false _ (by simpa [ho] using h)
    · simp only [ho, if_false]
      obtain ⟨l, hl⟩ := h (o, a) (by simp)
      simp only at hl
      rw [hl]; simp [safeWith]
  | e1 :: e2 :: rest, h => exact leaves_safe m false _ h

end TantivyModel.Grammar
