import TantivyModel.Proofs.BlockWandMoves
/-!
The steps of the mirrored `block_wand` loop: `align_scorers`, removal of exhausted scorers,
`advance_all_scorers_on_pivot`.
-/
namespace TantivyModel.BlockWand
open List TantivyModel.Wand

theorem getElem?_lt_length {β : Type} {l : List β} {i : Nat} {x : β} (h : l[i]? = some x) : i < l.length := by
  rcases Nat.lt_or_ge i l.length with h' | h'
  · exact h'
  · rw [getElem?_eq_none h'] at h; cases h

/-- `align_scorers`: only documents before the pivot are passed; on success the scorers before
`i` all sit on the pivot and the rest of the array is untouched -/
theorem align_spec {lo : Nat} (pd : Nat) : ∀ (i : Nat) (arr : List S), Inv lo arr → i ≤ arr.length →
    ∀ arr2 b, alignScorers arr pd i = (arr2, b) →
      Lower (· < pd) arr arr2 ∧ Inv lo arr2 ∧
      (b = true → arr2.length = arr.length ∧ (∀ k, k < i → ∃ s, arr2[k]? = some s ∧ s.doc = pd) ∧
        arr2.drop i = arr.drop i)
  | 0, arr, hinv, _, arr2, b, h => by
    simp only [alignScorers, Prod.mk.injEq] at h
    obtain ⟨rfl, rfl⟩ := h
    exact ⟨Lower.refl _ _, hinv, fun _ => ⟨rfl, fun k hk => absurd hk (Nat.not_lt_zero k), rfl⟩⟩
  | i + 1, arr, hinv, hi, arr2, b, h => by
    have hlt : i < arr.length := by omega
    unfold alignScorers at h
    rw [getElem?_eq_getElem hlt] at h
    simp only at h
    have hget : arr[i]? = some arr[i] := getElem?_eq_getElem hlt
    obtain ⟨hlow, hinv'⟩ := lower_set_seek arr hinv i pd arr[i] hget
    have hget' : (arr.set i (arr[i].seek pd))[i]? = some (arr[i].seek pd) := by
      rw [getElem?_set_self (by simpa using hlt)]
    split at h
    · -- went past the pivot
      rename_i hne
      simp only [Prod.mk.injEq] at h
      obtain ⟨rfl, rfl⟩ := h
      refine ⟨?_, ?_, fun hb => by cases hb⟩
      · refine hlow.trans ?_
        split
        · rename_i hT
          have hnil : (arr[i].seek pd).rest = [] :=
            rest_nil_of_doc_T ((hinv.wf _ (getElem_mem hlt)).seek pd).lt hT
          refine Lower.trans (Lower.of_tot_eq fun d => swapRemove_tot _ i _ hget' hnil d) ?_
          exact Lower.of_perm (restoreOrdering_perm _ _).symm
        · exact Lower.of_perm (restoreOrdering_perm _ _).symm
      · split
        · exact (hinv'.of_subset fun s hs => mem_swapRemove hs).of_subset
            fun s hs => (restoreOrdering_perm _ _).subset hs
        · exact hinv'.of_subset fun s hs => (restoreOrdering_perm _ _).subset hs
    · rename_i heq
      simp only [ne_eq, Decidable.not_not] at heq
      obtain ⟨hl2, hinv2, hb⟩ := align_spec pd i (arr.set i (arr[i].seek pd)) hinv' (by simp; omega) arr2 b h
      refine ⟨hlow.trans hl2, hinv2, ?_⟩
      intro hbt
      obtain ⟨hlen, hpre, hdrop⟩ := hb hbt
      refine ⟨by rw [hlen]; simp, ?_, ?_⟩
      · intro k hk
        rcases Nat.lt_or_ge k i with hki | hki
        · exact hpre k hki
        · have hk' : k = i := by omega
          subst hk'
          refine ⟨arr[k].seek pd, ?_, heq⟩
          have : arr2[k]? = (arr2.drop k)[0]? := by simp
          rw [this, hdrop]; simp [hget']
      · have : arr2.drop (i + 1) = (arr2.drop i).drop 1 := by simp
        rw [this, hdrop]
        simp only [drop_drop]
        exact drop_set_of_lt (by omega)

/-- the removal loop of `advance_all_scorers_on_pivot` only removes exhausted scorers -/
theorem removeTerminated_spec {lo : Nat} : ∀ (fuel i : Nat) (arr : List S), Inv lo arr →
    (∀ d, tot (removeTerminated arr i fuel) d = tot arr d) ∧
      (∀ s, s ∈ removeTerminated arr i fuel → s ∈ arr)
  | 0, _, arr, _ => ⟨fun _ => rfl, fun _ h => h⟩
  | fuel + 1, i, arr, hinv => by
    unfold removeTerminated
    split
    · exact ⟨fun _ => rfl, fun _ h => h⟩
    · rename_i hlt
      have hlt' : i < arr.length := by omega
      rw [getElem?_eq_getElem hlt']
      simp only
      split
      · rename_i hT
        have hnil : arr[i].rest = [] := rest_nil_of_doc_T (hinv.wf _ (getElem_mem hlt')).lt hT
        have hinv' : Inv lo (swapRemove arr i) := hinv.of_subset fun s hs => mem_swapRemove hs
        obtain ⟨h1, h2⟩ := removeTerminated_spec fuel i (swapRemove arr i) hinv'
        refine ⟨fun d => ?_, fun s hs => mem_swapRemove (h2 s hs)⟩
        rw [h1 d, swapRemove_tot arr i arr[i] (getElem?_eq_getElem hlt') hnil d]
      · exact removeTerminated_spec fuel (i + 1) arr hinv

theorem posts_map_seekBlock (l : List S) (t : Nat) : posts (l.map (·.seekBlock t)) = posts l := by
  induction l with
  | nil => rfl
  | cons x xs ih =>
    simp only [posts, map_cons, seekBlock_rest] at ih ⊢
    rw [ih]

theorem tot_map_seekBlock (l : List S) (t : Nat) (d : Nat) : tot (l.map (·.seekBlock t)) d = tot l d := by
  unfold tot; rw [posts_map_seekBlock]

theorem seekBlock_doc (s : S) (t : Nat) : (s.seekBlock t).doc = s.doc := by
  unfold TS.doc; rw [seekBlock_rest]

/-- a scorer positioned on `pd` contributes its current score at `pd` -/
theorem scoreIn_at_doc (s : S) (pd : Nat) (h : s.doc = pd) (hpd : pd < T) : scoreIn s.rest pd = s.score := by
  unfold TS.doc at h
  unfold TS.score scoreIn
  cases hr : s.rest with
  | nil => rw [hr] at h; simp only at h; omega
  | cons x xs =>
    obtain ⟨d, sc⟩ := x
    rw [hr] at h
    simp only at h
    subst h
    simp

theorem tot_eq_sum_score (P : List S) (pd : Nat) (hpd : pd < T) (h : ∀ x, x ∈ P → x.doc = pd) :
    tot P pd = (P.map TS.score).sum := by
  induction P with
  | nil => rfl
  | cons x xs ih =>
    rw [tot_cons, scoreIn_at_doc x pd (h x (by simp)) hpd, ih fun y hy => h y (by simp [hy])]
    simp

/-- advancing the scorers that sit on `pd` only changes the totals up to `pd` -/
theorem tot_map_advance (P : List S) (pd : Nat) (hwf : ∀ x, x ∈ P → WF x) (h : ∀ x, x ∈ P → x.doc = pd)
    (hpd : pd < T) (e : Nat) (he : pd < e) : tot (P.map TS.advance) e = tot P e := by
  induction P with
  | nil => rfl
  | cons x xs ih =>
    simp only [map_cons, tot_cons]
    have hne : x.rest ≠ [] := by
      intro hnil
      have := doc_eq_T_of_nil hnil
      have := h x (by simp); omega
    rw [advance_rest_seekP x (hwf x (by simp)).asc hne, h x (by simp),
      scoreIn_seekP_ge _ _ _ (by omega), ih (fun y hy => hwf y (by simp [hy])) fun y hy => h y (by simp [hy])]

end TantivyModel.BlockWand
