import TantivyModel.Model.LockFile
/-! Helper lemmas for C18: with the two extracted code shapes, the lock-file protocol is an
atomic test-and-set. -/
namespace TantivyModel.LockFile

/-- nobody is between test and insertion, and the file exists iff exactly one holder exists -/
def Inv (s : St) : Prop := s.sawFree = [] ∧ holders s = (if s.file then 1 else 0)

theorem inv_init : Inv init := by simp [Inv, init, holders]

theorem run_cons (sh : Shape) (s : St) (e : Ev) (es : List Ev) :
    run sh s (e :: es) = ((run sh (step sh s e).1 es).1, (step sh s e).2 :: (run sh (step sh s e).1 es).2) := rfl

theorem inv_step {sh : Shape} (ha : sh.atomicOpen = true) (hg : sh.guardLate = true) {s : St}
    (h : Inv s) (e : Ev) : Inv (step sh s e).1 := by
  obtain ⟨h1, h2⟩ := h
  cases e with
  | openWrite t =>
    simp only [step, ha, Bool.not_true, Bool.false_eq_true, ↓reduceIte]
    split
    · have : refuse sh s = s := by simp [refuse, hg]
      rw [this]; exact ⟨h1, h2⟩
    · rename_i hf
      have hf' : s.file = false := by simpa using hf
      have hs : succeed sh s t = { s with file := true, opened := t :: s.opened } := by simp [succeed, hg]
      rw [hs]
      refine ⟨h1, ?_⟩
      simp only [holders, hf', Bool.false_eq_true, ↓reduceIte, List.length_cons] at h2 ⊢
      omega
  | check t =>
    have : (step sh s (.check t)).1 = s := by simp [step, ha]
    rw [this]; exact ⟨h1, h2⟩
  | insert t =>
    have : (step sh s (.insert t)).1 = s := by simp [step, h1]
    rw [this]; exact ⟨h1, h2⟩
  | mkGuard t =>
    simp only [step]
    split
    · rename_i hc
      have hm : t ∈ s.opened := by simpa using hc
      have hl := List.length_erase_of_mem hm
      have hp := List.length_pos_of_mem hm
      refine ⟨h1, ?_⟩
      simp only [holders] at h2 ⊢
      simp only [hl]
      omega
    · exact ⟨h1, h2⟩
  | dropGuard =>
    simp only [step]
    split
    · exact ⟨h1, h2⟩
    · rename_i hg0
      refine ⟨h1, ?_⟩
      simp only [holders] at h2 ⊢
      simp only [Bool.false_eq_true, ↓reduceIte]
      split at h2 <;> omega

theorem inv_final {sh : Shape} (ha : sh.atomicOpen = true) (hg : sh.guardLate = true) (s : St)
    (h : Inv s) (es : List Ev) : Inv (run sh s es).1 := by
  induction es generalizing s with
  | nil => exact h
  | cons e es ih => rw [run_cons]; exact ih _ (inv_step ha hg h e)

end TantivyModel.LockFile
