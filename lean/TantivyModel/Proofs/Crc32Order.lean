import TantivyModel.Proofs.Crc32Burst
import Mathlib.Tactic.Ring
import Mathlib.Tactic.NormNum.Prime
import Mathlib.Data.Nat.Prime.Basic
/-!
The CRC-32 register, seen as a linear map over GF(2), has multiplicative order `2^32 - 1` on the
state `1`: `bitStep^[d] 1 ≠ 1` for every `0 < d < 2^32 - 1`. Consequence (`crc32_two_bits`): two
flipped bits in different bytes are always detected when they are less than `2^32 - 1` bit
positions apart (files below 512 MiB: every double-bit error).

The order is established without iterating four billion steps: the step is represented by a
32×32 bit matrix (`ofFn`), matrix powers are computed by repeated squaring (`powApply`, proved
equal to the iterate), the kernel evaluates `bitStep^[2^32-1] 1 = 1` and `bitStep^[(2^32-1)/p] 1 ≠ 1`
for the five prime factors `p` of `2^32 - 1 = 3 · 5 · 17 · 257 · 65537` (`decide +kernel`, a
computation on closed terms, no axiom), and a minimal-period argument does the rest.
-/
namespace TantivyModel.Crc32

/-- `iter n s = bitStep^[n] s` -/
def iter : Nat → BitVec 32 → BitVec 32
  | 0, s => s
  | n + 1, s => iter n (bitStep s)

theorem bitStep_zero : bitStep 0#32 = 0#32 := by decide

theorem iter_add (a b : Nat) (s : BitVec 32) : iter (a + b) s = iter b (iter a s) := by
  induction a generalizing s with
  | zero => simp [iter]
  | succ a ih =>
    have : a + 1 + b = (a + b) + 1 := by omega
    rw [this]; simp only [iter]; exact ih _

theorem iter_xor (n : Nat) (x y : BitVec 32) : iter n (x ^^^ y) = iter n x ^^^ iter n y := by
  induction n generalizing x y with
  | zero => rfl
  | succ n ih => simp only [iter, bitStep_xor, ih]

theorem iter_zero_vec (n : Nat) : iter n 0#32 = 0#32 := by
  induction n with
  | zero => rfl
  | succ n ih => simp only [iter, bitStep_zero, ih]

theorem iter_injective (n : Nat) {a b : BitVec 32} (h : iter n a = iter n b) : a = b := by
  induction n generalizing a b with
  | zero => exact h
  | succ n ih => exact bitStep_injective (ih h)

theorem bitStep8_eq_iter (c : BitVec 32) : bitStep8 c = iter 8 c := rfl

/-! ### bit matrices -/

/-- column `i` (counted from `i0`) is selected by bit `i` of `s` -/
def applyFrom : List (BitVec 32) → Nat → BitVec 32 → BitVec 32
  | [], _, _ => 0#32
  | c :: cs, i, s => (if s.getLsbD i then c else 0#32) ^^^ applyFrom cs (i + 1) s

def apply (M : List (BitVec 32)) (s : BitVec 32) : BitVec 32 := applyFrom M 0 s

def ofFn (f : BitVec 32 → BitVec 32) : List (BitVec 32) :=
  (List.range' 0 32).map (fun i => f (BitVec.twoPow 32 i))

def mul (A B : List (BitVec 32)) : List (BitVec 32) := B.map (apply A)

theorem applyFrom_xor (M : List (BitVec 32)) (i : Nat) (x y : BitVec 32) :
    applyFrom M i (x ^^^ y) = applyFrom M i x ^^^ applyFrom M i y := by
  induction M generalizing i with
  | nil => simp [applyFrom]
  | cons c cs ih =>
    simp only [applyFrom, ih, BitVec.getLsbD_xor]
    generalize applyFrom cs (i + 1) x = X
    generalize applyFrom cs (i + 1) y = Y
    cases x.getLsbD i <;> cases y.getLsbD i <;> simp
    · ac_rfl
    · ac_rfl
    · have : (c ^^^ X) ^^^ (c ^^^ Y) = (c ^^^ c) ^^^ (X ^^^ Y) := by ac_rfl
      rw [this, BitVec.xor_self, BitVec.zero_xor]

theorem applyFrom_zero (M : List (BitVec 32)) (i : Nat) : applyFrom M i 0#32 = 0#32 := by
  induction M generalizing i with
  | nil => rfl
  | cons c cs ih => simp [applyFrom, ih]

/-- an additive map commutes with the column selection -/
theorem applyFrom_map (g : BitVec 32 → BitVec 32) (hg : ∀ x y, g (x ^^^ y) = g x ^^^ g y)
    (hg0 : g 0#32 = 0#32) (B : List (BitVec 32)) (i : Nat) (s : BitVec 32) :
    applyFrom (B.map g) i s = g (applyFrom B i s) := by
  induction B generalizing i with
  | nil => simp [applyFrom, hg0]
  | cons c cs ih =>
    simp only [List.map_cons, applyFrom, ih, hg]
    cases s.getLsbD i <;> simp [hg0]

theorem apply_mul (A B : List (BitVec 32)) (s : BitVec 32) :
    apply (mul A B) s = apply A (apply B s) := by
  unfold apply mul
  exact applyFrom_map (applyFrom A 0) (applyFrom_xor A 0) (applyFrom_zero A 0) B 0 s

/-- the bits `i .. i+n-1` of `s` -/
def sel (s : BitVec 32) : Nat → Nat → BitVec 32
  | _, 0 => 0#32
  | i, n + 1 => (if s.getLsbD i then BitVec.twoPow 32 i else 0#32) ^^^ sel s (i + 1) n

theorem sel_getLsbD (s : BitVec 32) (i n j : Nat) :
    (sel s i n).getLsbD j = (decide (i ≤ j ∧ j < i + n) && s.getLsbD j) := by
  induction n generalizing i with
  | zero => simp [sel]
  | succ n ih =>
    simp only [sel, BitVec.getLsbD_xor, ih]
    by_cases hij : i = j
    · subst hij
      by_cases hb : s.getLsbD i = true
      · have hlt : i < 32 := BitVec.lt_of_getLsbD hb
        simp [hb, hlt]
      · have hb' : s.getLsbD i = false := by simpa using hb
        simp [hb']
    · have h1 : (if s.getLsbD i = true then BitVec.twoPow 32 i else 0#32).getLsbD j = false := by
        split
        · simp [hij]
        · simp
      rw [h1]
      by_cases hc : i ≤ j ∧ j < i + (n + 1)
      · have : i + 1 ≤ j ∧ j < i + 1 + n := by omega
        simp [hc, this]
      · have : ¬ (i + 1 ≤ j ∧ j < i + 1 + n) := by omega
        simp [hc, this]

theorem sel_full (s : BitVec 32) : sel s 0 32 = s := by
  apply BitVec.eq_of_getLsbD_eq
  intro j hj
  rw [sel_getLsbD]
  simp [hj]

theorem applyFrom_ofFn_aux (f : BitVec 32 → BitVec 32) (hf : ∀ x y, f (x ^^^ y) = f x ^^^ f y)
    (hf0 : f 0#32 = 0#32) (s : BitVec 32) (i n : Nat) :
    applyFrom ((List.range' i n).map (fun j => f (BitVec.twoPow 32 j))) i s = f (sel s i n) := by
  induction n generalizing i with
  | zero => simp [applyFrom, sel, hf0]
  | succ n ih =>
    simp only [List.range'_succ, List.map_cons, applyFrom, sel, hf, ih]
    cases s.getLsbD i <;> simp [hf0]

/-- an additive map is its matrix -/
theorem apply_ofFn (f : BitVec 32 → BitVec 32) (hf : ∀ x y, f (x ^^^ y) = f x ^^^ f y)
    (hf0 : f 0#32 = 0#32) (s : BitVec 32) : apply (ofFn f) s = f s := by
  unfold apply ofFn
  rw [applyFrom_ofFn_aux f hf hf0 s 0 32, sel_full]

/-- `M` is the matrix of `bitStep^[m]` -/
def Rep (M : List (BitVec 32)) (m : Nat) : Prop := ∀ s, apply M s = iter m s

theorem rep_step : Rep (ofFn bitStep) 1 := fun s => by
  rw [apply_ofFn bitStep bitStep_xor bitStep_zero]; rfl

theorem rep_mul {A B : List (BitVec 32)} {a b : Nat} (hA : Rep A a) (hB : Rep B b) :
    Rep (mul A B) (b + a) := fun s => by
  rw [apply_mul, hB, hA, iter_add]

/-- square and multiply -/
def powApply : Nat → List (BitVec 32) → Nat → BitVec 32 → BitVec 32
  | 0, _, _, s => s
  | f + 1, M, n, s =>
    if n = 0 then s else powApply f (mul M M) (n / 2) (if n % 2 = 1 then apply M s else s)

theorem powApply_correct (f : Nat) : ∀ (M : List (BitVec 32)) (m n : Nat) (s : BitVec 32),
    Rep M m → n < 2 ^ f → powApply f M n s = iter (m * n) s := by
  induction f with
  | zero =>
    intro M m n s _ hn
    have : n = 0 := by omega
    subst this; simp [powApply, iter]
  | succ f ih =>
    intro M m n s hM hn
    unfold powApply
    by_cases h0 : n = 0
    · subst h0; simp [iter]
    · simp only [h0, if_false]
      have hn2 : n / 2 < 2 ^ f := by
        rw [Nat.pow_succ] at hn; omega
      rw [ih (mul M M) (m + m) (n / 2) _ (rep_mul hM hM) hn2]
      have hdm := Nat.div_add_mod n 2
      by_cases h1 : n % 2 = 1
      · simp only [h1, if_true]
        rw [hM s, ← iter_add]
        congr 1
        have : n = 2 * (n / 2) + 1 := by omega
        conv => rhs; rw [this]
        ring
      · simp only [h1, if_false]
        congr 1
        have : n = 2 * (n / 2) := by omega
        conv => rhs; rw [this]
        ring

theorem iter_eq_powApply (n : Nat) (hn : n < 2 ^ 32) (s : BitVec 32) :
    iter n s = powApply 32 (ofFn bitStep) n s := by
  rw [powApply_correct 32 _ 1 n s rep_step hn, Nat.one_mul]

/-! ### the order of the register on the state `1` -/

theorem iter_N : iter 4294967295 1#32 = 1#32 := by
  rw [iter_eq_powApply 4294967295 (by decide)]; decide +kernel

theorem iter_N_div_3 : iter 1431655765 1#32 ≠ 1#32 := by
  rw [iter_eq_powApply 1431655765 (by decide)]; decide +kernel

theorem iter_N_div_5 : iter 858993459 1#32 ≠ 1#32 := by
  rw [iter_eq_powApply 858993459 (by decide)]; decide +kernel

theorem iter_N_div_17 : iter 252645135 1#32 ≠ 1#32 := by
  rw [iter_eq_powApply 252645135 (by decide)]; decide +kernel

theorem iter_N_div_257 : iter 16711935 1#32 ≠ 1#32 := by
  rw [iter_eq_powApply 16711935 (by decide)]; decide +kernel

theorem iter_N_div_65537 : iter 65535 1#32 ≠ 1#32 := by
  rw [iter_eq_powApply 65535 (by decide)]; decide +kernel


theorem iter_mul_period (m q : Nat) (h : iter m 1#32 = 1#32) : iter (m * q) 1#32 = 1#32 := by
  induction q with
  | zero => rfl
  | succ q ih => rw [Nat.mul_succ, iter_add, ih, h]

theorem prime_dvd_N {p : Nat} (hp : p.Prime) (h : p ∣ 4294967295) :
    p = 3 ∨ p = 5 ∨ p = 17 ∨ p = 257 ∨ p = 65537 := by
  have e : 4294967295 = 3 * (5 * (17 * (257 * 65537))) := by norm_num
  rw [e] at h
  rcases (Nat.Prime.dvd_mul hp).mp h with h | h
  · exact Or.inl ((Nat.prime_dvd_prime_iff_eq hp (by norm_num)).mp h)
  rcases (Nat.Prime.dvd_mul hp).mp h with h | h
  · exact Or.inr (Or.inl ((Nat.prime_dvd_prime_iff_eq hp (by norm_num)).mp h))
  rcases (Nat.Prime.dvd_mul hp).mp h with h | h
  · exact Or.inr (Or.inr (Or.inl ((Nat.prime_dvd_prime_iff_eq hp (by norm_num)).mp h)))
  rcases (Nat.Prime.dvd_mul hp).mp h with h | h
  · exact Or.inr (Or.inr (Or.inr (Or.inl ((Nat.prime_dvd_prime_iff_eq hp (by norm_num)).mp h))))
  · exact Or.inr (Or.inr (Or.inr (Or.inr ((Nat.prime_dvd_prime_iff_eq hp (by norm_num)).mp h))))

/-- the state `1` has period exactly `2^32 - 1` under the register step -/
theorem iter_order (d : Nat) (h0 : 0 < d) (h1 : d < 4294967295) : iter d 1#32 ≠ 1#32 := by
  intro hd
  have hex : ∃ k, 0 < k ∧ iter k 1#32 = 1#32 := ⟨d, h0, hd⟩
  have hm : 0 < Nat.find hex ∧ iter (Nat.find hex) 1#32 = 1#32 := Nat.find_spec hex
  have hmin : ∀ k, k < Nat.find hex → ¬ (0 < k ∧ iter k 1#32 = 1#32) :=
    fun k hk => Nat.find_min hex hk
  have hmd : Nat.find hex ≤ d := Nat.find_min' hex ⟨h0, hd⟩
  generalize Nat.find hex = m at hm hmin hmd
  obtain ⟨N, hN⟩ : ∃ N, N = 4294967295 := ⟨_, rfl⟩
  have hiN : iter N 1#32 = 1#32 := by rw [hN]; exact iter_N
  -- the minimal period divides N
  have hr : iter (N % m) 1#32 = 1#32 := by
    have e : N = m * (N / m) + N % m := (Nat.div_add_mod N m).symm
    rw [e, iter_add, iter_mul_period m _ hm.2] at hiN
    exact hiN
  have hr0 : N % m = 0 := by
    by_contra hne
    exact hmin (N % m) (Nat.mod_lt _ hm.1) ⟨Nat.pos_of_ne_zero hne, hr⟩
  have hdvd : m ∣ N := Nat.dvd_of_mod_eq_zero hr0
  obtain ⟨t, ht⟩ := hdvd
  have ht1 : t ≠ 1 := by
    intro h; subst h; omega
  obtain ⟨p, hp, hpt⟩ := Nat.exists_prime_and_dvd ht1
  obtain ⟨u, hu⟩ := hpt
  have hpN : p ∣ 4294967295 := by
    rw [← hN, ht, hu]; exact ⟨m * u, by ring⟩
  have hmu : iter (m * u) 1#32 = 1#32 := iter_mul_period m u hm.2
  have hprod : p * (m * u) = 4294967295 := by
    rw [← hN, ht, hu]; ring
  generalize m * u = w at hmu hprod
  rcases prime_dvd_N hp hpN with h | h | h | h | h <;> subst h
  · have : w = 1431655765 := by omega
    subst this; exact iter_N_div_3 hmu
  · have : w = 858993459 := by omega
    subst this; exact iter_N_div_5 hmu
  · have : w = 252645135 := by omega
    subst this; exact iter_N_div_17 hmu
  · have : w = 16711935 := by omega
    subst this; exact iter_N_div_257 hmu
  · have : w = 65535 := by omega
    subst this; exact iter_N_div_65537 hmu

/-! ### two flipped bits -/

theorem step_zero_byte (d : BitVec 32) : step d 0 = iter 8 d := by
  unfold step
  have : (0 : UInt8).toBitVec.setWidth 32 = 0#32 := by decide
  rw [this, BitVec.xor_zero]; rfl

/-- two runs over the same bytes: their difference evolves by the bare register -/
theorem update_diff (mid : List UInt8) (s t : BitVec 32) :
    update s mid ^^^ update t mid = iter (8 * mid.length) (s ^^^ t) := by
  induction mid generalizing s t with
  | nil => simp [update, iter]
  | cons b bs ih =>
    have e1 : update s (b :: bs) = update (step s b) bs := by simp [update]
    have e2 : update t (b :: bs) = update (step t b) bs := by simp [update]
    rw [e1, e2, ih, step_xor, UInt8.xor_self, step_zero_byte, ← iter_add]
    congr 1
    simp only [List.length_cons]; omega

theorem twoPow_iter (k : Nat) (hk : k < 8) : iter k (BitVec.twoPow 32 k) = 1#32 := by
  have : k = 0 ∨ k = 1 ∨ k = 2 ∨ k = 3 ∨ k = 4 ∨ k = 5 ∨ k = 6 ∨ k = 7 := by omega
  rcases this with h|h|h|h|h|h|h|h <;> subst h <;> decide

theorem zext_bit (k : Nat) (hk : k < 8) :
    ((1 : UInt8) <<< UInt8.ofNat k).toBitVec.setWidth 32 = BitVec.twoPow 32 k := by
  have : k = 0 ∨ k = 1 ∨ k = 2 ∨ k = 3 ∨ k = 4 ∨ k = 5 ∨ k = 6 ∨ k = 7 := by omega
  rcases this with h|h|h|h|h|h|h|h <;> subst h <;> decide

theorem u8_xor_cancel (a d : UInt8) : (a ^^^ d) ^^^ a = d := by
  rw [UInt8.xor_comm a d, UInt8.xor_assoc, UInt8.xor_self, UInt8.xor_zero]

/-- two flipped bits in two different bytes change the checksum whenever the two bytes lie in a
window of less than `2^32 - 1` bits (`8 * (mid.length + 2) ≤ 2^32 - 1`) -/
theorem crc32_two_bits (pre mid suf : List UInt8) (a b : UInt8) (k l : Nat) (hk : k < 8)
    (hl : l < 8) (hlen : 8 * (mid.length + 2) ≤ 4294967295) :
    crc32 (pre ++ ((a ^^^ (1 <<< UInt8.ofNat k)) :: (mid ++ ((b ^^^ (1 <<< UInt8.ofNat l)) :: suf))))
      ≠ crc32 (pre ++ (a :: (mid ++ (b :: suf)))) := by
  intro he
  unfold crc32 at he
  have h1 := finalize_injective he
  rw [update_append, update_append] at h1
  generalize update init pre = s at h1
  generalize hda : (1 : UInt8) <<< UInt8.ofNat k = da at h1
  generalize hdb : (1 : UInt8) <<< UInt8.ofNat l = db at h1
  have e : ∀ (x y : UInt8), update s (x :: (mid ++ (y :: suf)))
      = update (step (update (step s x) mid) y) suf := by
    intro x y
    have : update s (x :: (mid ++ (y :: suf))) = update (step s x) (mid ++ (y :: suf)) := by
      simp [update]
    rw [this, update_append]; simp [update]
  rw [e, e] at h1
  have h2 := update_injective_state suf h1
  have h3 : step (update (step s (a ^^^ da)) mid) (b ^^^ db) ^^^ step (update (step s a) mid) b
      = 0#32 := by rw [h2, BitVec.xor_self]
  rw [step_xor, update_diff, step_xor, BitVec.xor_self, u8_xor_cancel, u8_xor_cancel] at h3
  -- h3 : step (iter (8 * mid.length) (step 0 da)) db = 0
  unfold step at h3
  rw [BitVec.zero_xor] at h3
  have h4 : iter (8 * mid.length) (bitStep8 (da.toBitVec.setWidth 32)) ^^^ db.toBitVec.setWidth 32
      = 0#32 := by
    apply bitStep8_injective; rw [h3, bitStep8_zero]
  have h5 : iter (8 * mid.length) (bitStep8 (da.toBitVec.setWidth 32))
      = db.toBitVec.setWidth 32 := by
    have := congrArg (· ^^^ db.toBitVec.setWidth 32) h4
    simpa [BitVec.xor_assoc] using this
  rw [← hda, ← hdb, zext_bit k hk, zext_bit l hl, bitStep8_eq_iter, ← iter_add] at h5
  have h6 := congrArg (iter l) h5
  rw [twoPow_iter l hl, ← iter_add] at h6
  have hsplit : 8 + 8 * mid.length + l = k + (8 + 8 * mid.length + l - k) := by omega
  rw [hsplit, iter_add, twoPow_iter k hk] at h6
  exact iter_order _ (by omega) (by omega) h6

end TantivyModel.Crc32
