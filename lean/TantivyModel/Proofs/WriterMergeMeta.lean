import TantivyModel.Model.WriterMergeMeta
import TantivyModel.Proofs.WriterMergeSeg
/-!
`advance_deletes` with its bookkeeping differs from its core only by the early return, and that
early return is invisible on a committed segment advanced to its own commit opstamp.
-/
namespace TantivyModel.Writer

variable {α : Type} [DecidableEq α]

/-- two segments with the same id, documents (alive bits included) and cursor -/
def sameCore (a b : Seg α) : Prop := a.id = b.id ∧ a.docs = b.docs ∧ a.cursor = b.cursor

theorem advanceDeletes_skip (log : List (DelOp α)) (t : Nat) (sg : Seg α) (h : sg.delOp = some t) :
    advanceDeletes log t sg = sg := by
  simp [advanceDeletes, h]

theorem advanceDeletes_core (log : List (DelOp α)) (t : Nat) (sg : Seg α) (h : sg.delOp ≠ some t) :
    sameCore (advanceDeletes log t sg) (advance log t sg) := by
  unfold advanceDeletes
  rw [if_neg h]
  simp only
  split <;> exact ⟨rfl, rfl, rfl⟩

/-- on a committed segment that sits at `t`, `advance_deletes(target = t)` changes neither the
documents nor the cursor - whether it returns early or not -/
theorem advanceDeletes_committedAt (log : List (DelOp α)) (t : Nat) (sg : Seg α) (h : CommittedAt log t sg) :
    (advanceDeletes log t sg).docs = sg.docs ∧ (advanceDeletes log t sg).cursor = sg.cursor := by
  by_cases hd : sg.delOp = some t
  · rw [advanceDeletes_skip log t sg hd]; exact ⟨rfl, rfl⟩
  · obtain ⟨_, h2, h3⟩ := advanceDeletes_core log t sg hd
    rw [h2, h3, advance_committedAt log t sg h]
    exact ⟨rfl, rfl⟩

theorem mergeSegsD_eq_of_fields (log : List (DelOp α)) (target newId : Nat) (srcs : List (Seg α))
    (h : ∀ sg ∈ srcs, (advanceDeletes log target sg).docs = (advance log target sg).docs
      ∧ (advanceDeletes log target sg).cursor = (advance log target sg).cursor) :
    mergeSegsD log target newId srcs = mergeSegs log target newId srcs := by
  have hdocs : (srcs.map (advanceDeletes log target)).flatMap (fun sg => sg.docs.filter (·.alive))
      = (srcs.map (advance log target)).flatMap (fun sg => sg.docs.filter (·.alive)) := by
    rw [List.flatMap_map, List.flatMap_map]
    apply flatMap_congr'
    intro sg hsg
    rw [(h sg hsg).1]
  cases srcs with
  | nil => rfl
  | cons a rest =>
    have ha := h a (by simp)
    simp only [mergeSegsD, mergeSegs, List.map_cons] at hdocs ⊢
    rw [hdocs, ha.2]

end TantivyModel.Writer
