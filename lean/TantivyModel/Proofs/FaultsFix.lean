import TantivyModel.Proofs.FaultsClean
/-! C11: with the two repairs (`Fixes`) every writer keeps its workers resp. its lock guard. -/
namespace TantivyModel.Faults

/-- what the repairs guarantee of a writer -/
def wOk (fx : Fixes) (w : Writer) : Bool :=
  (!fx.restartWorkers || w.workers) && (!fx.rollbackKeeps || w.guard)

def Fit (fx : Fixes) (s : St) : Prop :=
  match s.writer with
  | none => True
  | some w => wOk fx w = true

theorem Fit_init (fx : Fixes) : Fit fx init := by simp [Fit, init]

theorem wOk_fresh (fx : Fixes) (s : St) : wOk fx (freshWriter s) = true := by
  simp [wOk, freshWriter]

theorem Fit_updaterCommit (sy : Bool) (fx : Fixes) (f : Plan) (s : St) (w : Writer) (h : wOk fx w = true) :
    Fit fx (updaterCommit sy f s w).1 := by
  unfold updaterCommit
  split
  · simpa [Fit, wOk, markErr] using h
  · split
    · simpa [Fit, wOk, markErr] using h
    · split
      · simpa [Fit, wOk, markErr, commitRegs] using h
      · split
        · simpa [Fit, wOk, markErr, commitRegs] using h
        · simp only [Fit, gcRun_writer]
          simpa [wOk, published, commitRegs] using h

theorem Fit_call (sy : Bool) (fx : Fixes) (cap : Nat) (f : Plan) (s : St) (c : Call) (h : Fit fx s) :
    Fit fx (call sy fx cap f s c).1 := by
  cases c with
  | newWriter =>
    simp only [call]
    cases hs : s.writer with
    | some w => simpa [Fit, hs] using h
    | none =>
      simp only
      split
      · simpa [Fit, hs] using h
      · split
        · simpa [Fit, hs] using h
        · split
          · simp [Fit, hs]
          · split
            · simp [Fit, hs, releaseLock]
            · simp [Fit, wOk_fresh]
  | add d =>
    simp only [call]
    cases hs : s.writer with
    | none => simp [Fit, hs]
    | some w =>
      simp only [Fit, hs] at h
      simp only
      split
      · simpa [Fit, wOk, markErr] using h
      · split
        · split
          · simpa [Fit, hs] using h
          · simpa [Fit, wOk] using h
        · split
          · simpa [Fit, wOk, bombed, newFiles] using h
          · split
            · simpa [Fit, wOk, newFiles] using h
            · simpa [Fit, wOk] using h
  | commit =>
    simp only [call]
    cases hs : s.writer with
    | none => simp [Fit, hs]
    | some w =>
      simp only [Fit, hs] at h
      simp only
      split
      · exact Fit_updaterCommit sy fx f s _ (by simpa [wOk] using h)
      · split
        · simp only [Fit, wOk, markErr] at h ⊢
          cases hr : fx.restartWorkers <;> simp_all
        · split
          · simp only [Fit, wOk, markErr, newFiles] at h ⊢
            cases hr : fx.restartWorkers <;> simp_all
          · apply Fit_updaterCommit
            unfold flushW
            split <;> simpa [wOk] using h
  | rollback =>
    simp only [call]
    cases hs : s.writer with
    | none => simp [Fit, hs]
    | some w =>
      simp only [Fit, hs] at h
      simp only
      split
      · simpa [Fit, wOk] using h
      · split
        · split
          · simpa [Fit, wOk, markErr] using h
          · rename_i hk
            simp only [Fit, wOk, markErr, releaseLock] at h ⊢
            simp_all
        · simp [Fit, wOk_fresh]
  | dropWriter =>
    simp only [call]
    cases hs : s.writer with
    | none => simp [Fit, hs]
    | some w =>
      simp only
      split <;> simp [Fit, releaseLock]
  | waitMerges =>
    simp only [call]
    cases hs : s.writer with
    | none => simp [Fit, hs]
    | some w =>
      simp only
      split <;> simp [Fit, releaseLock]
  | merge =>
    simp only [call]
    cases hs : s.writer with
    | none => simp [Fit, hs]
    | some w =>
      simp only [Fit, hs] at h
      simp only
      split
      · simpa [Fit, wOk, markErr] using h
      · split
        · simpa [Fit, wOk, markErr, newFiles] using h
        · split
          · simpa [Fit, wOk, markErr, newFiles] using h
          · split
            · simpa [Fit, wOk, markErr, newFiles, mergedRegs] using h
            · split
              · simpa [Fit, wOk, markErr, newFiles, mergedRegs] using h
              · simp only [Fit, gcRun_writer]
                simpa [wOk, mergedPublished, mergedRegs] using h
  | gc =>
    simp only [call]
    cases hs : s.writer with
    | none => simp [Fit, hs]
    | some w =>
      have h0 := h
      simp only [Fit, hs] at h
      simp only
      split
      · simpa [Fit, wOk, markErr] using h
      · split
        · simp only [Fit, gcRun_writer]; exact h0
        · simpa [Fit, wOk, markErr] using h
  | reload =>
    simp only [call]
    split
    · exact h
    · exact h
  | removeLock =>
    simp only [call]
    split
    · exact h
    · exact h

/-- the only call that can panic is a `rollback` of a writer that lost its guard -/
theorem call_panic {sy : Bool} {fx : Fixes} {cap : Nat} {f : Plan} {s : St} {c : Call}
    (hh : (call sy fx cap f s c).2 = .panic) : ∃ w, c = .rollback ∧ s.writer = some w ∧ w.guard = false := by
  have hu : ∀ s' w', (updaterCommit sy f s' w').2 ≠ .panic := by
    intro s' w'
    unfold updaterCommit
    split <;> try simp
    split <;> try simp
    split <;> try simp
    split <;> simp
  cases c with
  | rollback =>
    simp only [call] at hh
    cases hs : s.writer with
    | none => simp [hs] at hh
    | some w =>
      simp only [hs] at hh
      split at hh
      · rename_i hg
        exact ⟨w, rfl, rfl, by simpa using hg⟩
      · split at hh
        · split at hh <;> cases hh
        · cases hh
  | add d =>
    simp only [call] at hh
    cases hs : s.writer <;> simp only [hs] at hh
    · cases hh
    · split at hh <;> try cases hh
      split at hh
      · split at hh <;> cases hh
      · split at hh <;> try cases hh
        split at hh <;> cases hh
  | newWriter =>
    simp only [call] at hh
    cases hs : s.writer <;> simp only [hs] at hh
    · split at hh <;> try cases hh
      split at hh <;> try cases hh
      split at hh <;> try cases hh
      split at hh <;> cases hh
    · cases hh
  | commit =>
    simp only [call] at hh
    cases hs : s.writer <;> simp only [hs] at hh
    · cases hh
    · split at hh
      · exact absurd hh (hu _ _)
      · split at hh <;> try cases hh
        split at hh <;> try cases hh
        exact absurd hh (hu _ _)
  | dropWriter =>
    simp only [call] at hh
    cases hs : s.writer <;> simp only [hs] at hh <;> cases hh
  | waitMerges =>
    simp only [call] at hh
    cases hs : s.writer <;> simp only [hs] at hh
    · cases hh
    · split at hh <;> cases hh
  | merge =>
    simp only [call] at hh
    cases hs : s.writer <;> simp only [hs] at hh
    · cases hh
    · split at hh <;> try cases hh
      split at hh <;> try cases hh
      split at hh <;> try cases hh
      split at hh <;> try cases hh
      split at hh <;> cases hh
  | gc =>
    simp only [call] at hh
    cases hs : s.writer <;> simp only [hs] at hh
    · cases hh
    · split at hh <;> try cases hh
      split at hh
      · rename_i h1; rw [h1] at hh; cases hh
      · cases hh
  | reload =>
    simp only [call] at hh
    split at hh <;> cases hh
  | removeLock =>
    simp only [call] at hh
    cases hh

/-- a successful commit of a writer that has its workers publishes both registers and every queued document -/
theorem commit_ok_publishes {sy : Bool} {fx : Fixes} {cap : Nat} {f : Plan} {s : St} {w : Writer}
    (hw : s.writer = some w) (hwk : w.workers = true) (hok : (call sy fx cap f s .commit).2 = .ok) :
    content (call sy fx cap f s .commit).1.metaSegs = content w.committed ++ content w.uncommitted ++ w.queue := by
  cases hwe : w.workerErr with
  | true => simp [call, hw, hwk, hwe] at hok
  | false =>
    simp only [call, hw, hwk, hwe, Bool.not_true, Bool.false_eq_true, ↓reduceIte] at hok ⊢
    split at hok
    · cases hok
    · rename_i hcond
      obtain ⟨_, _, _, _, hm⟩ := updaterCommit_ok hok
      rw [if_neg hcond, hm]
      unfold flushW
      split
      · rename_i hq
        have : w.queue = [] := by simpa using hq
        simp [this]
      · simp [List.append_assoc]

theorem Fit_run (sy : Bool) (fx : Fixes) (cap : Nat) (F : Nat → Plan) (i : Nat) (s : St) (cs : List Call)
    (h : Fit fx s) : Fit fx (run sy fx cap F i s cs).1 :=
  run_inv (Fit fx) sy fx cap (fun f s c => Fit_call sy fx cap f s c) F i s cs h

end TantivyModel.Faults
