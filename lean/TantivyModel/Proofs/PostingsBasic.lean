import TantivyModel.Model.PostingsCodec
import TantivyModel.Proofs.VInt
/-! helper lemmas: bit lengths, u32, bit-width byte, delta coding, skip entries -/
namespace TantivyModel.Postings
open TantivyModel.Invert (RecOpt)

/-! ### bit lengths -/

theorem lt_two_pow_bitLen (n : Nat) : n < 2 ^ bitLen n := by
  induction n using Nat.strongRecOn with
  | _ n ih =>
    unfold bitLen
    split
    · subst_vars; simp
    · rename_i h
      have := ih (n / 2) (by omega)
      rw [Nat.pow_succ]; omega

theorem bitLen_le_of_lt (n k : Nat) (h : n < 2 ^ k) : bitLen n ≤ k := by
  induction k generalizing n with
  | zero =>
    have : n = 0 := by simp at h; omega
    subst this; unfold bitLen; simp
  | succ k ih =>
    unfold bitLen
    split
    · omega
    · have : n / 2 < 2 ^ k := by rw [Nat.pow_succ] at h; omega
      have := ih _ this
      omega

theorem lt_two_pow_numBits (vs : List Nat) : ∀ v ∈ vs, v < 2 ^ numBits vs := by
  induction vs with
  | nil => simp
  | cons a t ih =>
    intro v hv
    simp only [numBits]
    rcases List.mem_cons.mp hv with rfl | hv
    · exact Nat.lt_of_lt_of_le (lt_two_pow_bitLen _) (Nat.pow_le_pow_right (by omega) (Nat.le_max_left _ _))
    · exact Nat.lt_of_lt_of_le (ih v hv) (Nat.pow_le_pow_right (by omega) (Nat.le_max_right _ _))

theorem numBits_le (vs : List Nat) (k : Nat) (h : ∀ v ∈ vs, v < 2 ^ k) : numBits vs ≤ k := by
  induction vs with
  | nil => simp [numBits]
  | cons a t ih =>
    simp only [numBits]
    have h1 := bitLen_le_of_lt a k (h a (by simp))
    have h2 := ih (fun v hv => h v (by simp [hv]))
    omega

/-! ### u32 and the bit-width byte -/

theorem readU32_u32le (n : Nat) (h : n < 2 ^ 32) (rest : List Nat) :
    readU32 (u32le n ++ rest) = n := by
  simp only [u32le, readU32, List.cons_append, List.nil_append]
  omega

theorem u32le_length (n : Nat) : (u32le n).length = 4 := rfl

/-- `bitwidth_roundtrip`: the doc-bit-width byte of a skip entry decodes to what was encoded -/
theorem decode_encode_bitwidth (bits : Nat) (strict : Bool) (h : bits < Gen.Postings.BITWIDTH_LIMIT) :
    decodeBitwidth (encodeBitwidth bits strict) = (bits, strict) := by
  have hl : Gen.Postings.BITWIDTH_LIMIT = 32 := by decide
  have hm : Gen.Postings.BITWIDTH_MASK = 31 := by decide
  have hs : Gen.Postings.BITWIDTH_DELTA_SHIFT = 6 := by decide
  rw [hl] at h
  unfold decodeBitwidth encodeBitwidth
  rw [hm, hs]
  cases strict <;> simp <;> omega

theorem encodeBitwidth_lt (bits : Nat) (strict : Bool) (h : bits < Gen.Postings.BITWIDTH_LIMIT) :
    encodeBitwidth bits strict < 256 := by
  have hl : Gen.Postings.BITWIDTH_LIMIT = 32 := by decide
  have hs : Gen.Postings.BITWIDTH_DELTA_SHIFT = 6 := by decide
  rw [hl] at h
  unfold encodeBitwidth
  rw [hs]
  cases strict <;> simp <;> omega

/-! ### delta coding -/

theorem strictDeltas_length (o : Option Nat) (vs : List Nat) : (strictDeltas o vs).length = vs.length := by
  induction vs generalizing o with
  | nil => cases o <;> simp [strictDeltas]
  | cons v vs ih => cases o <;> simp [strictDeltas, ih]

theorem strictDeltas_le (o : Option Nat) (vs : List Nat) (bound : Nat) (h : ∀ v ∈ vs, v < bound) :
    ∀ d ∈ strictDeltas o vs, d < bound := by
  induction vs generalizing o with
  | nil => cases o <;> simp [strictDeltas]
  | cons v vs ih =>
    have hv := h v (by simp)
    have ih' := fun o => ih o (fun x hx => h x (by simp [hx]))
    cases o with
    | none =>
      simp only [strictDeltas]
      intro d hd
      rcases List.mem_cons.mp hd with rfl | hd
      · exact hv
      · exact ih' _ d hd
    | some p =>
      simp only [strictDeltas]
      intro d hd
      rcases List.mem_cons.mp hd with rfl | hd
      · omega
      · exact ih' _ d hd

/-- the offset is below every value (no constraint when there is no offset) -/
def Below (o : Option Nat) (vs : List Nat) : Prop :=
  match o with
  | none => True
  | some p => ∀ v ∈ vs, p < v

theorem strictIntegrate_strictDeltas (o : Option Nat) (vs : List Nat)
    (hs : vs.Pairwise (· < ·)) (hb : Below o vs) :
    strictIntegrate o (strictDeltas o vs) = vs := by
  induction vs generalizing o with
  | nil => cases o <;> simp [strictDeltas, strictIntegrate]
  | cons v vs ih =>
    have hp := List.pairwise_cons.mp hs
    have ih' := ih (some v) hp.2 (by simpa [Below] using hp.1)
    cases o with
    | none => simp [strictDeltas, strictIntegrate, ih']
    | some p =>
      have hpv : p < v := hb v (by simp)
      have e : p + (v - p - 1) + 1 = v := by omega
      simp [strictDeltas, strictIntegrate, e, ih']

theorem deltas_length (p : Nat) (vs : List Nat) : (deltas p vs).length = vs.length := by
  induction vs generalizing p with
  | nil => simp [deltas]
  | cons v vs ih => simp [deltas, ih]

theorem integrate_deltas (p : Nat) (vs : List Nat) (hs : vs.Pairwise (· < ·)) (hb : ∀ v ∈ vs, p ≤ v) :
    integrate p (deltas p vs) = vs := by
  induction vs generalizing p with
  | nil => simp [deltas, integrate]
  | cons v vs ih =>
    have hp := List.pairwise_cons.mp hs
    have hpv : p ≤ v := hb v (by simp)
    have e : p + (v - p) = v := by omega
    have := ih v hp.2 (fun x hx => Nat.le_of_lt (hp.1 x hx))
    simp [deltas, integrate, e, this]

/-! ### skip entries -/

theorem skipEntry_length (o : RecOpt) (l d t s : Nat) (w : Nat × Nat) :
    (skipEntry o l d t s w).length = entryLen o := by
  cases o <;> simp [skipEntry, u32le, entryLen] <;> decide

theorem skipEntry_readU32 (o : RecOpt) (l d t s : Nat) (w : Nat × Nat) (rest : List Nat)
    (h : l < 2 ^ 32) : readU32 (skipEntry o l d t s w ++ rest) = l := by
  simp only [skipEntry, List.append_assoc]
  exact readU32_u32le l h _

theorem skipEntry_getD4 (o : RecOpt) (l d t s : Nat) (w : Nat × Nat) (rest : List Nat) :
    (skipEntry o l d t s w ++ rest).getD 4 0 = encodeBitwidth d true := by
  simp [skipEntry, u32le]

theorem skipEntry_getD5 (o : RecOpt) (ho : hasFreq o = true) (l d t s : Nat) (w : Nat × Nat)
    (rest : List Nat) : (skipEntry o l d t s w ++ rest).getD 5 0 = t := by
  cases o <;> simp [skipEntry, u32le, hasFreq] at ho ⊢

theorem skipEntry_tfSum (l d t s : Nat) (w : Nat × Nat) (rest : List Nat) (h : s < 2 ^ 32) :
    readU32 ((skipEntry .positions l d t s w ++ rest).drop 6) = s := by
  have : (skipEntry .positions l d t s w ++ rest).drop 6 = u32le s ++ ([w.1, w.2] ++ rest) := by
    simp [skipEntry, u32le]
  rw [this]; exact readU32_u32le s h _

theorem skipEntry_drop (o : RecOpt) (l d t s : Nat) (w : Nat × Nat) (rest : List Nat) :
    (skipEntry o l d t s w ++ rest).drop (entryLen o) = rest := by
  rw [← skipEntry_length o l d t s w]; simp

/-! ### list splitting -/

theorem take_lt_drop (l : List Nat) (hs : l.Pairwise (· < ·)) (n : Nat) :
    ∀ x ∈ l.take n, ∀ y ∈ l.drop n, x < y := by
  have := List.take_append_drop n l
  rw [← this] at hs
  exact (List.pairwise_append.mp hs).2.2

theorem getLastD_mem (l : List Nat) (h : l ≠ []) : l.getLastD 0 ∈ l := by
  cases l with
  | nil => exact absurd rfl h
  | cons a t =>
    rw [List.getLastD_cons]
    induction t generalizing a with
    | nil => simp
    | cons b t ih =>
      simp only [List.getLastD_cons]
      exact List.mem_cons_of_mem _ (ih b (by simp))

end TantivyModel.Postings
