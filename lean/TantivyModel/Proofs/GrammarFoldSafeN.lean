import TantivyModel.Proofs.GrammarFoldSafe
import TantivyModel.Proofs.GrammarFoldNeg
namespace TantivyModel.Grammar
variable {L T : Type} [DecidableEq L]

/-! ## `rewrite_ast` is safe on the trees folded from chains with `-` operands -/

/-- every entry of every group comes from an item of the list, with the operator after it -/
theorem groups_entries (x : Item L) (rest : List (Item L)) (hr : ∀ it ∈ rest, it.1.isSome = true) :
    ∀ g ∈ groups (x :: rest), ∀ e ∈ g, ∃ op occ a nx, (op, occ, a) ∈ x :: rest
      ∧ e = entryOf op occ a nx ∧ (op.isSome = true ∨ nx.isSome = true ∨ rest = []) := by
  induction rest generalizing x with
  | nil =>
    obtain ⟨op, occ, a⟩ := x
    intro g hg e he
    simp [groups, nextOp] at hg
    subst hg
    simp at he
    exact ⟨op, occ, a, none, by simp, he, Or.inr (Or.inr rfl)⟩
  | cons y rest' ih =>
    obtain ⟨op, occ, a⟩ := x
    have hy : y.1.isSome = true := hr y (by simp)
    have ih' := ih y (fun it hi => hr it (List.mem_cons_of_mem _ hi))
    have hnext : nextOp (y :: rest') = y.1 := by obtain ⟨o1, o2, o3⟩ := y; rfl
    -- an entry of the tail's groups
    have tailcase : ∀ g ∈ groups (y :: rest'), ∀ e ∈ g, ∃ op' occ' a' nx, (op', occ', a') ∈ (op, occ, a) :: y :: rest'
        ∧ e = entryOf op' occ' a' nx ∧ (op'.isSome = true ∨ nx.isSome = true ∨ y :: rest' = []) := by
      intro g hg e he
      obtain ⟨op', occ', a', nx, hm, heq, _⟩ := ih' g hg e he
      exact ⟨op', occ', a', nx, List.mem_cons_of_mem _ hm, heq, Or.inl (hr (op', occ', a') hm)⟩
    have headcase : ∃ op' occ' a' nx, (op', occ', a') ∈ (op, occ, a) :: y :: rest'
        ∧ entryOf op occ a (nextOp (y :: rest')) = entryOf op' occ' a' nx
        ∧ (op'.isSome = true ∨ nx.isSome = true ∨ y :: rest' = []) :=
      ⟨op, occ, a, nextOp (y :: rest'), by simp, rfl, Or.inr (Or.inl (by rw [hnext]; exact hy))⟩
    intro g hg e he
    have hgr : groups ((op, occ, a) :: y :: rest') =
        (if nextOp (y :: rest') = some .and then
          match groups (y :: rest') with
          | g :: gs => (entryOf op occ a (nextOp (y :: rest')) :: g) :: gs
          | [] => [[entryOf op occ a (nextOp (y :: rest'))]]
        else [entryOf op occ a (nextOp (y :: rest'))] :: groups (y :: rest')) := by
      conv => lhs; unfold groups
      rfl
    rw [hgr] at hg
    split at hg
    · cases hgt : groups (y :: rest') with
      | nil =>
        rw [hgt] at hg
        simp at hg
        subst hg
        simp at he
        subst he
        exact headcase
      | cons g0 gs0 =>
        rw [hgt] at hg
        simp at hg
        rcases hg with rfl | hg
        · simp at he
          rcases he with rfl | he
          · exact headcase
          · exact tailcase g0 (by rw [hgt]; simp) e he
        · exact tailcase g (by rw [hgt]; simp [hg]) e he
    · simp at hg
      rcases hg with rfl | hg
      · simp at he
        subst he
        exact headcase
      · exact tailcase g hg e he

theorem safe_unary (m : Mode) (b : Bool) (a : Ast L) (o : Occur) (h : safeWith m b a = true) :
    safeWith m b (a.unary o) = true := by
  unfold Ast.unary
  exact safe_clause m b _ (by intro e he; simp at he; subst he; rfl) (by intro e he; simp at he; subst he; exact h)

/-- the entry of a chain element with an operator before or after it carries an explicit occur, and
    its tree is the operand or `NOT operand` -/
theorem entryOf_neg_shape (p nx : Option BinOp) (n : Bool) (a : Ast L)
    (h : p.isSome = true ∨ nx.isSome = true) :
    (entryOf p (negOcc n) a nx).1.isSome = true
      ∧ ((entryOf p (negOcc n) a nx).2 = a ∨ (entryOf p (negOcc n) a nx).2 = a.unary .mustNot) := by
  rw [entryOf_neg]
  by_cases h1 : p = some .and ∨ nx = some .and
  · simp [h1]
  · simp only [h1, if_false]
    cases n with
    | true =>
      simp only [if_true]
      by_cases h2 : p = none ∧ nx = none
      · rcases h with h | h <;> simp [h2.1, h2.2] at h
      · simp [h2]
    | false =>
      simp only [Bool.false_eq_true, if_false]
      refine ⟨?_, by simp⟩
      cases p with
      | none =>
        cases nx with
        | none => rcases h with h | h <;> simp at h
        | some x => cases x <;> simp [chainOcc]
      | some q => cases q <;> (cases nx with
        | none => simp [chainOcc]
        | some x => cases x <;> simp [chainOcc])

/-- assembling groups whose entries carry explicit occurs and safe trees gives a safe tree -/
theorem assemble_safe (m : Mode) (gs : List (List (Entry L)))
    (h : ∀ g ∈ gs, ∀ e ∈ g, e.1.isSome = true ∧ safeWith m false e.2 = true) :
    safeWith m false (assemble gs) = true := by
  have hgrp : ∀ g ∈ gs, safeWith m false (.clause g) = true := fun g hg =>
    safe_clause m false g (fun e he => (h g hg e he).1) (fun e he => (h g hg e he).2)
  have htop : ∀ g ∈ gs, (top g).1.isSome = true ∧ safeWith m false (top g).2 = true := by
    intro g hg
    match g, h g hg, hgrp g hg with
    | [], _, hc => exact ⟨rfl, hc⟩
    | [e], he, _ => exact he e (by simp)
    | e1 :: e2 :: g', _, hc => exact ⟨rfl, hc⟩
  have hmulti : safeWith m false (.clause (gs.map top)) = true := by
    apply safe_clause
    · intro e he
      obtain ⟨g, hg, rfl⟩ := List.mem_map.mp he
      exact (htop g hg).1
    · intro e he
      obtain ⟨g, hg, rfl⟩ := List.mem_map.mp he
      exact (htop g hg).2
  match gs, h, hgrp, hmulti with
  | [], _, _, hmulti => simpa [assemble] using hmulti
  | [g], h, hgrp, _ =>
    match g, h, hgrp with
    | [], _, hgrp => simpa [assemble] using hgrp [] (by simp)
    | [(o, a)], h, hgrp =>
      by_cases ho : o = some .mustNot
      · subst ho
        have : assemble [[((some Occur.mustNot : Option Occur), a)]] = .clause [(some .mustNot, a)] := by
          simp [assemble]
        rw [this]
        exact hgrp _ (by simp)
      · have : assemble [[(o, a)]] = a := by
          show (if o = some Occur.mustNot then Ast.clause [(o, a)] else a) = a
          rw [if_neg ho]
        rw [this]
        exact (h [(o, a)] (by simp) (o, a) (by simp)).2
    | e1 :: e2 :: g', _, hgrp =>
      have : assemble [e1 :: e2 :: g'] = .clause (e1 :: e2 :: g') := rfl
      rw [this]
      exact hgrp _ (by simp)
  | g1 :: g2 :: gs', _, _, hmulti =>
    rw [assemble_multi]
    exact hmulti

/-- the tree folded from `[-]a₀ op₁ [-]a₁ … opₙ [-]aₙ` satisfies the side condition of
    `rewrite_preserves_sem` as soon as the operands' own trees do -/
theorem chainN_safe (m : Mode) (n0 : Bool) (a0 : Ast L) (rest : List (BinOp × Bool × Ast L))
    (h0 : safeWith m false a0 = true) (hr : ∀ x ∈ rest, safeWith m false x.2.2 = true) :
    safeWith m false (assemble (groups (chainFromN none n0 a0 rest))) = true := by
  cases rest with
  | nil =>
    cases n0 with
    | false => simpa [chainFromN, groups, nextOp, negOcc, entryOf, occOr, assemble] using h0
    | true =>
      have : assemble (groups (chainFromN none true a0 ([] : List (BinOp × Bool × Ast L))))
          = .clause [(some .mustNot, a0)] := by
        simp [chainFromN, groups, nextOp, negOcc, entryOf, occOr, assemble]
      rw [this]
      exact safe_clause m false _ (by intro e he; simp at he; subst he; rfl)
        (by intro e he; simp at he; subst he; exact h0)
  | cons y rest' =>
    apply assemble_safe
    intro g hg e he
    have hsome : ∀ it ∈ ((y :: rest').map fun x => ((some x.1 : Option BinOp), negOcc x.2.1, x.2.2)), it.1.isSome = true := by
      intro it hi
      obtain ⟨x, _, rfl⟩ := List.mem_map.mp hi
      rfl
    obtain ⟨op, occ, a, nx, hmem, heq, hdisj⟩ :=
      groups_entries ((none : Option BinOp), negOcc n0, a0) _ hsome g hg e he
    have hdisj' : op.isSome = true ∨ nx.isSome = true := by
      rcases hdisj with h | h | h
      · exact Or.inl h
      · exact Or.inr h
      · simp at h
    -- the item is the first operand or one of the others
    have hitem : ∃ n, occ = negOcc n ∧ safeWith m false a = true := by
      simp only [List.mem_cons, List.mem_map] at hmem
      rcases hmem with h | ⟨x, hx, h⟩
      · have h2 := (Prod.mk.inj h).2
        obtain ⟨rfl, rfl⟩ := Prod.mk.inj h2
        exact ⟨n0, rfl, h0⟩
      · have h2 := (Prod.mk.inj h).2
        obtain ⟨rfl, rfl⟩ := Prod.mk.inj h2
        exact ⟨x.2.1, rfl, hr x (by simpa using hx)⟩
    obtain ⟨n, rfl, hsafe⟩ := hitem
    subst heq
    obtain ⟨h1, h2⟩ := entryOf_neg_shape op nx n a hdisj'
    refine ⟨h1, ?_⟩
    rcases h2 with h2 | h2
    · rw [h2]; exact hsafe
    · rw [h2]; exact safe_unary m false a .mustNot hsafe

end TantivyModel.Grammar
