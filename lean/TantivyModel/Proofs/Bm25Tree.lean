import TantivyModel.Model.Bm25
/-!
C12, query trees: the dis-max node is a run of `DisjunctionMaxCombiner` and does not depend on the
clause order (exact arithmetic); a boost factors out of every tree (exact arithmetic, boosts
compatible with `max`), hence `explain` agrees with the score on every tree.
No Mathlib.
-/
namespace TantivyModel.Bm25
open List Arith

variable {F : Type} [Arith F]

theorem sumScores_nil (s : Stats) (b acc : F) : sumScores s [] b acc = acc := by simp [sumScores]
theorem sumScores_cons (s : Stats) (q : QTree F) (qs : List (QTree F)) (b acc : F) :
    sumScores s (q :: qs) b acc = sumScores s qs b (add acc (score s q b)) := by simp [sumScores]
theorem maxScores_nil (s : Stats) (b acc : F) : maxScores s [] b acc = acc := by simp [maxScores]
theorem maxScores_cons (s : Stats) (q : QTree F) (qs : List (QTree F)) (b acc : F) :
    maxScores s (q :: qs) b acc = maxScores s qs b (Arith.max (score s q b) acc) := by simp [maxScores]
theorem score_dismax (s : Stats) (qs : List (QTree F)) (tie b : F) :
    score s (.dismax qs tie) b
      = add (maxScores s qs b zero) (mul (sub (sumScores s qs b zero) (maxScores s qs b zero)) tie) := by
  simp [score]
theorem score_sum (s : Stats) (qs : List (QTree F)) (b : F) : score s (.sum qs) b = sumScores s qs b zero := by
  simp [score]
theorem score_boost (s : Stats) (q : QTree F) (c b : F) : score s (.boost q c) b = score s q (mul b c) := by
  simp [score]
theorem score_const (s : Stats) (q : QTree F) (c b : F) : score s (.const q c) b = mul b c := by
  simp [score]
theorem score_term (s : Stats) (n id tf : Nat) (b : F) : score s (.term n id tf) b = termScore s n id tf b := by
  simp [score]
theorem score_phrase (s : Stats) (ns : List Nat) (id c : Nat) (b : F) :
    score s (.phrase ns id c) b = phraseScore s ns id c b := by
  simp [score]

/-! ### the dis-max node is a run of the combiner -/

theorem sumScores_eq_foldl (s : Stats) (b : F) : ∀ (qs : List (QTree F)) (acc : F),
    sumScores s qs b acc = (qs.map (score s · b)).foldl add acc
  | [], acc => by rw [sumScores_nil]; rfl
  | q :: qs, acc => by rw [sumScores_cons, sumScores_eq_foldl s b qs]; rfl

theorem maxScores_eq_foldl (s : Stats) (b : F) : ∀ (qs : List (QTree F)) (acc : F),
    maxScores s qs b acc = (qs.map (score s · b)).foldl (fun a x => Arith.max x a) acc
  | [], acc => by rw [maxScores_nil]; rfl
  | q :: qs, acc => by rw [maxScores_cons, maxScores_eq_foldl s b qs]; rfl

theorem foldl_update (xs : List F) (st : DisMaxState F) :
    xs.foldl DisMaxState.update st
      = ⟨xs.foldl (fun a x => Arith.max x a) st.max, xs.foldl add st.sum⟩ := by
  induction xs generalizing st with
  | nil => rfl
  | cons x xs ih => simp only [foldl_cons]; rw [ih]; rfl

/-- the score of a dis-max node = `DisjunctionMaxCombiner` updated with the clause scores in clause
order, then `score()` -/
theorem dismax_eq_combiner (s : Stats) (qs : List (QTree F)) (tie b : F) :
    score s (.dismax qs tie) b
      = ((qs.map (score s · b)).foldl DisMaxState.update DisMaxState.init).score tie := by
  rw [score_dismax, sumScores_eq_foldl, maxScores_eq_foldl, foldl_update]
  rfl

/-! ### independence of the clause order (exact arithmetic) -/

theorem foldl_perm {α β : Type} {f : β → α → β} (hf : ∀ b a₁ a₂, f (f b a₁) a₂ = f (f b a₂) a₁)
    {l₁ l₂ : List α} (p : l₁ ~ l₂) : ∀ init, l₁.foldl f init = l₂.foldl f init := by
  induction p with
  | nil => intro _; rfl
  | cons x _ ih => intro init; simp only [foldl_cons]; exact ih _
  | swap x y l => intro init; simp only [foldl_cons]; rw [hf]
  | trans _ _ ih₁ ih₂ => intro init; rw [ih₁, ih₂]

/-- addition and maximum are commutative and associative (true of exact arithmetic; of `f32` only
`max` and the commutativity of `+`) -/
structure AddMaxLaws (F : Type) [Arith F] : Prop where
  add_comm : ∀ x y : F, add x y = add y x
  add_assoc : ∀ x y z : F, add (add x y) z = add x (add y z)
  max_comm : ∀ x y : F, Arith.max x y = Arith.max y x
  max_assoc : ∀ x y z : F, Arith.max (Arith.max x y) z = Arith.max x (Arith.max y z)

theorem dismax_perm (hF : AddMaxLaws F) (s : Stats) {qs qs' : List (QTree F)} (h : qs ~ qs') (tie b : F) :
    score s (.dismax qs tie) b = score s (.dismax qs' tie) b := by
  rw [score_dismax, score_dismax, sumScores_eq_foldl, sumScores_eq_foldl, maxScores_eq_foldl, maxScores_eq_foldl]
  have hp : qs.map (score s · b) ~ qs'.map (score s · b) := h.map _
  have h1 : (qs.map (score s · b)).foldl add zero = (qs'.map (score s · b)).foldl add zero :=
    foldl_perm (fun x a₁ a₂ => by rw [hF.add_assoc, hF.add_comm a₁ a₂, ← hF.add_assoc]) hp zero
  have h2 : (qs.map (score s · b)).foldl (fun a x => Arith.max x a) zero
      = (qs'.map (score s · b)).foldl (fun a x => Arith.max x a) zero :=
    foldl_perm (fun x a₁ a₂ => by
      show Arith.max a₂ (Arith.max a₁ x) = Arith.max a₁ (Arith.max a₂ x)
      rw [← hF.max_assoc, hF.max_comm a₂ a₁, hF.max_assoc]) hp zero
  rw [h1, h2]

theorem sum_perm (hF : AddMaxLaws F) (s : Stats) {qs qs' : List (QTree F)} (h : qs ~ qs') (b : F) :
    score s (.sum qs) b = score s (.sum qs') b := by
  rw [score_sum, score_sum, sumScores_eq_foldl, sumScores_eq_foldl]
  exact foldl_perm (fun x a₁ a₂ => by rw [hF.add_assoc, hF.add_comm a₁ a₂, ← hF.add_assoc]) (h.map _) zero

/-! ### a boost factors out of every tree; explain = score -/

/-- the laws of exact arithmetic the explain path needs -/
structure ExactLaws (F : Type) [Arith F] : Prop where
  isOne_one : Arith.isOne (one : F) = true
  isOne_eq : ∀ x : F, Arith.isOne x = true → x = one
  one_mul : ∀ x : F, mul one x = x
  mul_comm : ∀ x y : F, mul x y = mul y x
  mul_assoc : ∀ x y z : F, mul (mul x y) z = mul x (mul y z)
  add_mul : ∀ x y b : F, mul (add x y) b = add (mul x b) (mul y b)
  sub_mul : ∀ x y b : F, mul (sub x y) b = sub (mul x b) (mul y b)
  zero_mul : ∀ b : F, mul zero b = zero

/-- multiplication by `b` commutes with `max` (true of every non-negative factor) -/
def MaxCompat (b : F) : Prop := ∀ x y : F, Arith.max (mul x b) (mul y b) = mul (Arith.max x y) b

mutual
/-- every `BoostQuery` factor of the tree commutes with `max` -/
def GoodBoosts : QTree F → Prop
  | .term _ _ _ => True
  | .phrase _ _ _ => True
  | .boost q b => MaxCompat b ∧ GoodBoosts q
  | .const _ _ => True
  | .sum qs => GoodBoostsL qs
  | .dismax qs _ => GoodBoostsL qs
def GoodBoostsL : List (QTree F) → Prop
  | [] => True
  | q :: qs => GoodBoosts q ∧ GoodBoostsL qs
end

theorem mul_one' (hF : ExactLaws F) (x : F) : mul x one = x := by rw [hF.mul_comm, hF.one_mul]

theorem maxCompat_mul (hF : ExactLaws F) {a b : F} (ha : MaxCompat a) (hb : MaxCompat b) : MaxCompat (mul a b) := by
  intro x y
  rw [← hF.mul_assoc, ← hF.mul_assoc, hb, ha, hF.mul_assoc]

theorem weighted_lin (hF : ExactLaws F) (W T β : F) :
    mul (if Arith.isOne β = true then W else mul W β) T = mul (mul (if Arith.isOne (one : F) = true then W else mul W one) T) β := by
  rw [hF.isOne_one]
  simp only [if_true]
  by_cases hb : Arith.isOne β = true
  · have := hF.isOne_eq β hb
    subst this
    simp only [hF.isOne_one, if_true]
    rw [mul_one' hF]
  · simp only [hb, Bool.false_eq_true, if_false]
    rw [hF.mul_assoc W β T, hF.mul_comm β T, ← hF.mul_assoc W T β]

mutual
theorem score_lin (hF : ExactLaws F) (s : Stats) : ∀ (q : QTree F), GoodBoosts q → ∀ β : F, MaxCompat β →
    score s q β = mul (score s q one) β
  | .term n id tf, _, β, _ => by
    rw [score_term, score_term]
    unfold termScore weight
    exact weighted_lin hF _ _ β
  | .phrase ns id c, _, β, _ => by
    rw [score_phrase, score_phrase]
    unfold phraseScore
    exact weighted_lin hF _ _ β
  | .boost q b, h, β, hβ => by
    have h' : MaxCompat b ∧ GoodBoosts q := by simpa [GoodBoosts] using h
    rw [score_boost, score_boost, score_lin hF s q h'.2 (mul β b) (maxCompat_mul hF hβ h'.1), hF.one_mul,
      score_lin hF s q h'.2 b h'.1, hF.mul_assoc, hF.mul_comm β b]
  | .const q c, _, β, _ => by
    rw [score_const, score_const, hF.one_mul, hF.mul_comm]
  | .sum qs, h, β, hβ => by
    have h' : GoodBoostsL qs := by simpa [GoodBoosts] using h
    rw [score_sum, score_sum]
    have := sum_lin hF s qs h' β hβ zero
    rw [hF.zero_mul] at this
    exact this
  | .dismax qs tie, h, β, hβ => by
    have h' : GoodBoostsL qs := by simpa [GoodBoosts] using h
    rw [score_dismax, score_dismax]
    have hs := sum_lin hF s qs h' β hβ zero
    have hm := max_lin hF s qs h' β hβ zero
    rw [hF.zero_mul] at hs hm
    rw [hs, hm, ← hF.sub_mul, hF.add_mul, hF.mul_assoc _ tie β, hF.mul_comm tie β, ← hF.mul_assoc]
theorem sum_lin (hF : ExactLaws F) (s : Stats) : ∀ (qs : List (QTree F)), GoodBoostsL qs → ∀ β : F, MaxCompat β →
    ∀ acc : F, sumScores s qs β (mul acc β) = mul (sumScores s qs one acc) β
  | [], _, β, _, acc => by rw [sumScores_nil, sumScores_nil]
  | q :: qs, h, β, hβ, acc => by
    have h' : GoodBoosts q ∧ GoodBoostsL qs := by simpa [GoodBoostsL] using h
    rw [sumScores_cons, sumScores_cons, score_lin hF s q h'.1 β hβ, ← hF.add_mul]
    exact sum_lin hF s qs h'.2 β hβ _
theorem max_lin (hF : ExactLaws F) (s : Stats) : ∀ (qs : List (QTree F)), GoodBoostsL qs → ∀ β : F, MaxCompat β →
    ∀ acc : F, maxScores s qs β (mul acc β) = mul (maxScores s qs one acc) β
  | [], _, β, _, acc => by rw [maxScores_nil, maxScores_nil]
  | q :: qs, h, β, hβ, acc => by
    have h' : GoodBoosts q ∧ GoodBoostsL qs := by simpa [GoodBoostsL] using h
    rw [maxScores_cons, maxScores_cons, score_lin hF s q h'.1 β hβ, hβ]
    exact max_lin hF s qs h'.2 β hβ _
end

/-- `explain(..).value()` = the score, for every tree (exact arithmetic, boosts compatible with max) -/
theorem explain_eq_score (hF : ExactLaws F) (s : Stats) : ∀ (q : QTree F), GoodBoosts q →
    explainValue s q = score s q one
  | .term n id tf, _ => by simp [explainValue, score]
  | .phrase ns id c, _ => by simp [explainValue, score]
  | .boost q b, h => by
    have h' : MaxCompat b ∧ GoodBoosts q := by simpa [GoodBoosts] using h
    rw [score_boost, hF.one_mul, score_lin hF s q h'.2 b h'.1]
    simp only [explainValue]
    rw [explain_eq_score hF s q h'.2]
  | .const q c, _ => by rw [score_const, hF.one_mul]; simp [explainValue]
  | .sum qs, _ => by simp [explainValue]
  | .dismax qs tie, _ => by simp [explainValue]

end TantivyModel.Bm25
