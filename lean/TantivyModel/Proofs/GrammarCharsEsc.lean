import TantivyModel.Proofs.GrammarCharsSet
namespace TantivyModel.Grammar.Chars
open TantivyModel.Grammar

/-! ## quoted phrases with escapes: any body at all -/

theorem quotedBody_esc (body t : Str) :
    quotedBody '"' (escQuoted body ++ '"' :: t) = some (body, t) := by
  induction body with
  | nil =>
    show quotedBody '"' ('"' :: t) = some ([], t)
    unfold quotedBody
    split
    · rename_i heq; cases heq
    · rename_i heq; exact absurd (List.cons.inj heq).1 (by decide)
    · rename_i heq
      obtain ⟨rfl, rfl⟩ := List.cons.inj heq
      simp
  | cons c rest ih =>
    by_cases hc : (c == '"' || c == '\\') = true
    · have e : escQuoted (c :: rest) ++ '"' :: t = '\\' :: c :: (escQuoted rest ++ '"' :: t) := by
        simp [escQuoted, hc]
      rw [e]
      unfold quotedBody
      split
      · rename_i heq; cases heq
      · rename_i heq
        obtain ⟨_, h2⟩ := List.cons.inj heq
        obtain ⟨rfl, rfl⟩ := List.cons.inj h2
        simp [ih]
      · rename_i hne heq
        obtain ⟨rfl, rfl⟩ := List.cons.inj heq
        exact (hne c (escQuoted rest ++ '"' :: t) rfl rfl).elim
    · have hc' : (c == '"' || c == '\\') = false := by simpa using hc
      have h1 : c ≠ '"' := by intro h; simp [h] at hc'
      have h2 : c ≠ '\\' := by intro h; simp [h] at hc'
      have e : escQuoted (c :: rest) ++ '"' :: t = c :: (escQuoted rest ++ '"' :: t) := by
        simp [escQuoted, hc']
      rw [e]
      unfold quotedBody
      split
      · rename_i heq; cases heq
      · rename_i heq; exact absurd (List.cons.inj heq).1 h2
      · rename_i heq
        obtain ⟨rfl, rfl⟩ := List.cons.inj heq
        simp [h1, ih]

theorem plainLiteral_phraseEsc (g : Bool) (body u t : Str) (sl : Nat) (px : Bool)
    (hu : slopOrPrefix u = ((sl, px), t)) :
    plainLiteral g ('"' :: (escQuoted body ++ '"' :: u)) = .ok (.leaf (.literal none body .double sl px)) t := by
  generalize hx : escQuoted body ++ '"' :: u = x
  have h1 : fieldName ('"' :: x) = none := by simp [fieldName, specialChars]
  have h2 : range ('"' :: x) = none := by
    simp [range, skip0, List.dropWhile, isNomSpace, tag, List.isPrefixOf]
  have h3 : set ('"' :: x) = none := by
    simp [set, skip0, List.dropWhile, isNomSpace, tag, List.isPrefixOf]
  have h4 : exists_ ('"' :: x) = none := by
    simp [exists_, skip0, List.dropWhile, isNomSpace]
  have h5 : regex ('"' :: x) = none := by simp [regex]
  have hn : negativeNumber ('"' :: x) = none := by
    unfold negativeNumber
    split
    · rename_i heq; exact absurd (List.cons.inj heq).1 (by decide)
    · rfl
  have hst : simpleTerm ('"' :: x) = some ((.double, body), u) := by
    have hq : quotedBody '"' x = some (body, u) := by
      rw [← hx]; exact quotedBody_esc body u
    unfold simpleTerm
    rw [hn]
    simp [hq]
  have h6 : termOrPhrase ('"' :: x) = some (.literal none body .double sl px, t) := by
    simp [termOrPhrase, hst, hu]
  simp [plainLiteral, h1, h2, h3, h4, h5, h6, setField]

/-- a double-quoted phrase of any characters, printed with escapes, optionally with a slop or the
    prefix star, is a good operand -/
theorem goodOpd_phraseEsc (g : Bool) (body : Str) (x : Sfx) (hx : WFSfx x) :
    GoodOpd g (phraseEscOpd body x) := by
  refine ⟨⟨'"', escQuoted body ++ '"' :: x.text, rfl, by decide, by decide, by decide, by decide, by decide⟩, ?_, ?_, ?_⟩
  · intro t _
    simp [phraseEscOpd, binaryOperand, tag, List.isPrefixOf]
  · intro t ht f hf
    obtain ⟨f', rfl⟩ : ∃ f', f = f' + 1 := ⟨f - 1, by simp [phraseEscOpd] at hf; omega⟩
    have htext : (phraseEscOpd body x).text ++ t = '"' :: (escQuoted body ++ '"' :: (x.text ++ t)) := by
      simp [phraseEscOpd]
    rw [htext]
    have hp := plainLiteral_phraseEsc g body (x.text ++ t) t _ _ (slopOrPrefix_sfx x hx t ht)
    generalize escQuoted body ++ '"' :: (x.text ++ t) = y at hp
    unfold pLeaf
    simp [R.orElse, tag, List.isPrefixOf, hp, phraseEscOpd]
  · simp [phraseEscOpd]; omega

/-- `name:"phrase"` of any characters, printed with escapes, is a good operand -/
theorem goodOpd_fieldPhraseEsc (g : Bool) (f body : Str) (x : Sfx) (hf : PlainWord f) (hx : WFSfx x) :
    GoodOpd g (fieldPhraseEscOpd f body x) := by
  obtain ⟨c, r, rfl⟩ := List.exists_cons_of_ne_nil hf.ne
  have hc : plain c = true := hf.all c (by simp)
  refine ⟨⟨c, r ++ ':' :: '"' :: (escQuoted body ++ '"' :: x.text), rfl, (plain_not_space c hc).2,
    plain_ne c ':' hc (by decide), plain_ne c '+' hc (by decide), plain_ne c '-' hc (by decide),
    plain_ne c ')' hc (by decide)⟩, ?_, ?_, ?_⟩
  · intro t _
    have e : (fieldPhraseEscOpd (c :: r) body x).text ++ t
        = (c :: r) ++ ':' :: ('"' :: (escQuoted body ++ '"' :: (x.text ++ t))) := by
      simp [fieldPhraseEscOpd]
    rw [e]
    exact binaryOperand_field (c :: r) _ hf
  · intro t ht f hfu
    obtain ⟨f', rfl⟩ : ∃ f', f = f' + 1 := ⟨f - 1, by simp [fieldPhraseEscOpd] at hfu; omega⟩
    have e : (fieldPhraseEscOpd (c :: r) body x).text ++ t
        = c :: (r ++ ':' :: ('"' :: (escQuoted body ++ '"' :: (x.text ++ t)))) := by
      simp [fieldPhraseEscOpd]
    rw [e]
    have hp := plainLiteral_phraseEsc g body (x.text ++ t) t _ _ (slopOrPrefix_sfx x hx t ht)
    generalize escQuoted body ++ '"' :: (x.text ++ t) = y at hp
    exact pLeaf_field g f' c r _ hf _ t
      (plainLiteral_field g c r _ hf (by simp [skip0, List.dropWhile, isNomSpace])
        (by simp [fieldName, specialChars]) _ _ _ _ t hp)
  · simp [fieldPhraseEscOpd]; omega

end TantivyModel.Grammar.Chars
