import TantivyModel.Proofs.Lock
/-! Helper lemmas for C18, part 2: `create` under the invariant, freshness of writer ids,
ownership without failed rollbacks, racing creations, continuity across rollback. -/
namespace TantivyModel.Lock

/-! ### what `create` does in a state satisfying the invariant -/

theorem create_free {s : St} (h : Inv s) (hf : s.held = false) (t : Nat) (a n : Bool) :
    create s t a n =
      if !a then ({ s with guards := [], held := false }, .invalidArg)
      else if !n then ({ s with guards := [], held := false }, .ioErr)
      else ({ s with held := true, guards := [.writer s.next],
                     writers := s.writers ++ [⟨s.next, false⟩], next := s.next + 1 }, .ok s.next) := by
  have hg := inv_free_nil h hf
  cases a <;> cases n <;> simp [create, step, hg, hf, move]

theorem create_held {s : St} (hh : s.held = true) (t : Nat) (a n : Bool) :
    (create s t a n).1 = s ∧ ((create s t a n).2 = .lockBusy ∨ (create s t a n).2 = .stuck) := by
  by_cases hc : Owner.creating t ∈ s.guards
  · simp [create, step, hc]
  · simp [create, step, hc, hh]

/-! ### writer ids are fresh -/

def WF (s : St) : Prop := (s.writers.map (·.id)).Nodup ∧ ∀ x ∈ s.writers, x.id < s.next

theorem setKilled_ids (ws : List Writer) (w : Nat) (k : Bool) :
    (setKilled ws w k).map (·.id) = ws.map (·.id) := by
  induction ws with
  | nil => rfl
  | cons x xs ih =>
    simp only [setKilled, List.map_cons] at ih ⊢
    rw [ih]
    split <;> rfl

theorem mem_setKilled {ws : List Writer} {w : Nat} {k : Bool} {x : Writer}
    (hx : x ∈ setKilled ws w k) : ∃ y ∈ ws, y.id = x.id := by
  simp only [setKilled, List.mem_map] at hx
  obtain ⟨y, hy, rfl⟩ := hx
  refine ⟨y, hy, ?_⟩
  split <;> rfl

theorem wf_init : WF init := by simp [WF, init]

theorem wf_filter {s : St} (h : WF s) (p : Writer → Bool) (gs : List Owner) (b : Bool) :
    WF { held := b, guards := gs, writers := s.writers.filter p, next := s.next } := by
  refine ⟨?_, ?_⟩
  · exact List.Nodup.sublist (List.Sublist.map _ List.filter_sublist) h.1
  · intro x hx
    exact h.2 x (List.mem_filter.1 hx).1

theorem wf_setKilled {s : St} (h : WF s) (w : Nat) (k : Bool) (gs : List Owner) (b : Bool) :
    WF { held := b, guards := gs, writers := setKilled s.writers w k, next := s.next } := by
  refine ⟨?_, ?_⟩
  · show ((setKilled s.writers w k).map (·.id)).Nodup
    rw [setKilled_ids]; exact h.1
  · intro x hx
    obtain ⟨y, hy, he⟩ := mem_setKilled hx
    have := h.2 y hy
    show x.id < s.next
    omega

theorem wf_dropWriter {s : St} (h : WF s) (w : Nat) : WF (dropWriter s w).1 := by
  unfold dropWriter
  split
  · exact h
  · split
    · exact wf_filter h _ _ _
    · exact wf_filter h _ _ _

theorem wf_step {s : St} (h : WF s) (e : Ev) : WF (step s e).1 := by
  cases e with
  | acquire t =>
    simp only [step]
    split
    · exact h
    · split
      · exact h
      · exact h
  | construct t a n =>
    simp only [step]
    split
    · split
      · exact h
      · split
        · exact h
        · refine ⟨?_, ?_⟩
          · show ((s.writers ++ [Writer.mk s.next false]).map Writer.id).Nodup
            rw [List.map_append, List.nodup_append]
            refine ⟨h.1, by simp, ?_⟩
            intro a ha b hb
            simp only [List.map_cons, List.map_nil, List.mem_singleton] at hb
            obtain ⟨x, hx, rfl⟩ := List.mem_map.1 ha
            have := h.2 x hx
            omega
          · intro x hx
            show x.id < s.next + 1
            rcases List.mem_append.1 hx with hx | hx
            · have := h.2 x hx; omega
            · simp only [List.mem_singleton] at hx
              subst hx
              simp
    · exact h
  | rollbackTake w =>
    simp only [step]
    split
    · exact h
    · split
      · exact h
      · exact h
  | rollbackNew w n =>
    simp only [step]
    split
    · split
      · exact wf_setKilled h _ _ _ _
      · exact h
    · exact h
  | rollbackFailedEarly w =>
    simp only [step]
    split <;> exact h
  | drop w => exact wf_dropWriter h w
  | wait w => exact wf_dropWriter h w
  | kill w =>
    simp only [step]
    split
    · exact wf_setKilled h _ _ _ _
    · exact h

theorem wf_final {s : St} (h : WF s) (es : List Ev) : WF (final s es) := by
  induction es generalizing s with
  | nil => exact h
  | cons e es ih => exact ih (wf_step h e)

theorem nodup_filter_eq_le_one (l : List Writer) (hn : (l.map (·.id)).Nodup) (w : Nat) :
    (l.filter (fun x => x.id == w)).length ≤ 1 := by
  induction l with
  | nil => simp
  | cons x xs ih =>
    simp only [List.map_cons, List.nodup_cons] at hn
    by_cases hx : x.id = w
    · have hnone : xs.filter (fun y => y.id == w) = [] := by
        rw [List.filter_eq_nil_iff]
        intro y hy hyw
        have : y.id = w := by simpa using hyw
        exact hn.1 (List.mem_map.2 ⟨y, hy, by omega⟩)
      simp [hx, hnone]
    · have := ih hn.2
      simp [hx, this]

theorem filter_none_le_one (l : List Writer) (p : Writer → Bool) (hp : ∀ x ∈ l, p x = false) :
    (l.filter p).length ≤ 1 := by
  rw [List.filter_eq_nil_iff.2 (by intro a ha; simp [hp a ha])]
  simp

/-- at most one live writer owns the guard -/
theorem owners_le_one {s : St} (hi : Inv s) (hw : WF s) :
    (s.writers.filter (fun x => s.guards.contains (.writer x.id))).length ≤ 1 := by
  cases hg : s.guards with
  | nil => exact filter_none_le_one _ _ (by intro x _; simp)
  | cons o rest =>
    have h1 : s.guards = [o] := inv_mem_eq hi (by simp [hg])
    rw [hg] at h1
    rw [h1]
    cases o with
    | writer w =>
      have hc : s.writers.filter (fun x => [Owner.writer w].contains (.writer x.id))
          = s.writers.filter (fun x => x.id == w) :=
        List.filter_congr (fun x _ => by by_cases h : x.id = w <;> simp [h])
      rw [hc]
      exact nodup_filter_eq_le_one s.writers hw.1 w
    | creating t => exact filter_none_le_one _ _ (by intro x _; simp)
    | rolling w => exact filter_none_le_one _ _ (by intro x _; simp)

/-! ### without a failed rollback every live writer owns the guard -/

def noFailedRollback : Ev → Bool
  | .rollbackNew _ false => false
  | _ => true

/-- every live writer object owns the guard (in its field or in its running `rollback`) -/
def Owned (s : St) : Prop :=
  s.writers.length ≤ 1 ∧ ∀ x ∈ s.writers, .writer x.id ∈ s.guards ∨ .rolling x.id ∈ s.guards

theorem owned_init : Owned init := by simp [Owned, init]

theorem owned_dropWriter {s : St} (h : Owned s) (w : Nat) : Owned (dropWriter s w).1 := by
  unfold dropWriter
  split
  · exact h
  · rename_i hcond
    have hfl : (s.writers.filter (·.id != w)).length ≤ 1 :=
      Nat.le_trans (List.length_filter_le _ _) h.1
    split
    · refine ⟨hfl, ?_⟩
      intro x hx
      obtain ⟨hxm, hxw⟩ := List.mem_filter.1 hx
      have hne : x.id ≠ w := by simpa using hxw
      rcases h.2 x hxm with ho | ho
      · left
        exact (List.mem_erase_of_ne (by intro he; cases he; exact hne rfl)).2 ho
      · right
        exact (List.mem_erase_of_ne (by intro he; cases he)).2 ho
    · refine ⟨hfl, ?_⟩
      intro x hx
      exact h.2 x (List.mem_filter.1 hx).1

theorem owned_step {s : St} (hi : Inv s) (h : Owned s) (e : Ev) (hn : noFailedRollback e = true) :
    Owned (step s e).1 := by
  cases e with
  | acquire t =>
    simp only [step]
    split
    · exact h
    · split
      · exact h
      · refine ⟨h.1, ?_⟩
        intro x hx
        rcases h.2 x hx with ho | ho
        · left; exact List.mem_cons_of_mem _ ho
        · right; exact List.mem_cons_of_mem _ ho
  | construct t a n =>
    simp only [step]
    split
    · rename_i hc
      have hg : s.guards = [.creating t] := inv_mem_eq hi (by simpa using hc)
      have hw : s.writers = [] := by
        match hws : s.writers with
        | [] => rfl
        | x :: _ =>
          have := h.2 x (by rw [hws]; simp)
          rw [hg] at this
          simp at this
      split
      · refine ⟨h.1, ?_⟩
        intro x hx; rw [hw] at hx; simp at hx
      · split
        · refine ⟨h.1, ?_⟩
          intro x hx; rw [hw] at hx; simp at hx
        · refine ⟨by simp [hw], ?_⟩
          intro x hx
          simp only [hw, List.nil_append, List.mem_singleton] at hx
          subst hx
          left
          simp [hg, move]
    · exact h
  | rollbackTake w =>
    simp only [step]
    split
    · exact h
    · split
      · rename_i hc
        have hg : s.guards = [.writer w] := inv_mem_eq hi (by simpa using hc)
        refine ⟨h.1, ?_⟩
        intro x hx
        rcases h.2 x hx with ho | ho
        · rw [hg] at ho
          simp only [List.mem_singleton, Owner.writer.injEq] at ho
          right
          simp [hg, move, ho]
        · rw [hg] at ho; simp at ho
      · exact h
  | rollbackNew w n =>
    cases n with
    | false => simp [noFailedRollback] at hn
    | true =>
      simp only [step]
      split
      · rename_i hc
        have hg : s.guards = [.rolling w] := inv_mem_eq hi (by simpa using hc)
        refine ⟨by simpa [setKilled] using h.1, ?_⟩
        intro x hx
        obtain ⟨y, hy, he⟩ := mem_setKilled hx
        rcases h.2 y hy with ho | ho
        · rw [hg] at ho; simp at ho
        · rw [hg] at ho
          simp only [List.mem_singleton, Owner.rolling.injEq] at ho
          left
          simp [hg, move, ← he, ho]
      · exact h
  | rollbackFailedEarly w =>
    simp only [step]
    split <;> exact h
  | drop w => exact owned_dropWriter h w
  | wait w => exact owned_dropWriter h w
  | kill w =>
    simp only [step]
    split
    · refine ⟨by simpa [setKilled] using h.1, ?_⟩
      intro x hx
      obtain ⟨y, hy, he⟩ := mem_setKilled hx
      rw [← he]
      exact h.2 y hy
    · exact h

theorem owned_final {s : St} (hi : Inv s) (h : Owned s) (es : List Ev)
    (hn : ∀ e ∈ es, noFailedRollback e = true) : Owned (final s es) := by
  induction es generalizing s with
  | nil => exact h
  | cons e es ih =>
    rw [final_cons]
    exact ih (inv_step hi e) (owned_step hi h e (hn e (by simp))) (fun e' he' => hn e' (by simp [he']))

/-! ### racing creations -/

def isCreateStep : Ev → Bool
  | .acquire _ => true
  | .construct _ _ _ => true
  | _ => false

def isOk : Out → Bool
  | .ok _ => true
  | _ => false

def countOk (os : List Out) : Nat := (os.filter isOk).length

/-- a writer owns the guard -/
def WriterOwns (s : St) : Prop := ∃ w, s.guards = [.writer w]

theorem writerOwns_step {s : St} (hi : Inv s) (h : WriterOwns s) (e : Ev) (he : isCreateStep e = true) :
    (step s e).1 = s ∧ isOk (step s e).2 = false := by
  obtain ⟨w, hw⟩ := h
  have hh : s.held = true := inv_mem_held hi (o := .writer w) (by simp [hw])
  cases e with
  | acquire t => simp [step, hw, hh, isOk]
  | construct t a n => simp [step, hw, isOk]
  | _ => simp [isCreateStep] at he

theorem writerOwns_run {s : St} (hi : Inv s) (h : WriterOwns s) (es : List Ev)
    (he : ∀ e ∈ es, isCreateStep e = true) : countOk (run s es).2 = 0 := by
  induction es with
  | nil => rfl
  | cons e es ih =>
    obtain ⟨h1, h2⟩ := writerOwns_step hi h e (he e (by simp))
    rw [run_cons, h1]
    have := ih (fun e' he' => he e' (by simp [he']))
    simp only [countOk, List.filter_cons, h2] at this ⊢
    simpa using this

theorem ok_step_writerOwns {s : St} (hi : Inv s) (e : Ev) (he : isCreateStep e = true)
    (hok : isOk (step s e).2 = true) : WriterOwns (step s e).1 := by
  cases e with
  | acquire t =>
    simp only [step] at hok
    split at hok
    · simp [isOk] at hok
    · split at hok <;> simp [isOk] at hok
  | construct t a n =>
    simp only [step] at hok ⊢
    split
    · rename_i hc
      have hg : s.guards = [.creating t] := inv_mem_eq hi (by simpa using hc)
      simp only [hc, ↓reduceIte] at hok
      split
      · rename_i ha; simp [ha, isOk] at hok
      · split
        · rename_i ha hn; simp [ha, hn, isOk] at hok
        · exact ⟨s.next, by simp [hg, move]⟩
    · rename_i hc
      have hc' : Owner.creating t ∉ s.guards := by simpa using hc
      simp [hc', isOk] at hok
  | _ => simp [isCreateStep] at he

theorem racing_le_one {s : St} (hi : Inv s) (es : List Ev)
    (he : ∀ e ∈ es, isCreateStep e = true) : countOk (run s es).2 ≤ 1 := by
  induction es generalizing s with
  | nil => simp [run, countOk]
  | cons e es ih =>
    rw [run_cons]
    have hrest : ∀ e' ∈ es, isCreateStep e' = true := fun e' he' => he e' (by simp [he'])
    by_cases hok : isOk (step s e).2 = true
    · have hw := ok_step_writerOwns hi e (he e (by simp)) hok
      have h0 := writerOwns_run (inv_step hi e) hw es hrest
      simp only [countOk, List.filter_cons, hok, ↓reduceIte, List.length_cons] at h0 ⊢
      omega
    · have := ih (inv_step hi e) hrest
      simp only [countOk, List.filter_cons, hok] at this ⊢
      simpa using this

/-- as long as the rollback of `w` has not finished, the guard stays where it is -/
theorem rolling_step {s : St} (hi : Inv s) {w : Nat} (hr : .rolling w ∈ s.guards) (e : Ev)
    (he : ∀ b, e ≠ .rollbackNew w b) :
    (step s e).1.guards = s.guards ∧ (step s e).1.held = true ∧ isOk (step s e).2 = false := by
  have hg : s.guards = [.rolling w] := inv_mem_eq hi hr
  have hh : s.held = true := inv_mem_held hi hr
  cases e with
  | acquire t => simp [step, hg, hh, isOk]
  | construct t a n => simp [step, hg, hh, isOk]
  | rollbackTake w' =>
    simp only [step]
    split
    · simp [hh, isOk]
    · split
      · rename_i hc; simp [hg] at hc
      · simp [hh, isOk]
  | rollbackNew w' b =>
    have hne : w' ≠ w := by
      intro h; exact he b (by rw [h])
    simp [step, hg, hne, hh, isOk]
  | rollbackFailedEarly w' =>
    simp only [step]
    split <;> simp [hh, isOk]
  | drop w' =>
    simp only [step, dropWriter]
    split
    · simp [hh, isOk]
    · split
      · rename_i hc; simp [hg] at hc
      · simp [hh, isOk]
  | wait w' =>
    simp only [step, dropWriter]
    split
    · simp [hh, isOk]
    · split
      · rename_i hc; simp [hg] at hc
      · simp [hh, isOk]
  | kill w' =>
    simp only [step]
    split <;> simp [hh, isOk]

end TantivyModel.Lock
