import TantivyModel.Proofs.TopNComputer
/-!
`TopNHeap` (collection by score) refines `topK`; the threshold filter of `for_each_pruning` and
any driver that only skips documents not above the threshold are sound; merge of per-segment
fruits; paging.
-/
namespace TantivyModel.TopN
open List

variable {α : Type}

theorem ins_append_of_not_le {β : Type} {le : β → β → Bool} (e w : β) (hw : le w e = false)
    (init : List β) : ins le e (init ++ [w]) = ins le e init ++ [w] := by
  induction init with
  | nil => simp [ins, hw]
  | cons x xs ih =>
    simp only [cons_append, ins]
    split
    · rw [ih]; rfl
    · rfl

/-- invariant of `TopNHeap` after the pushes `xs` -/
structure HInv (gt : α → α → Bool) (K : Nat) (xs : List (Entry α)) (h : Heap α) : Prop where
  topN : h.topN = K
  heap : h.heap = (isort (le gt) xs).take K
  thr : h.threshold = if h.heap.length = K ∧ 0 < K then h.heap.getLast?.map (·.key) else none

theorem hinv_new (gt : α → α → Bool) (K : Nat) : HInv gt K [] (Heap.new K : Heap α) where
  topN := rfl
  heap := by simp [Heap.new, isort]
  thr := by
    show (none : Option α) = if ([] : List (Entry α)).length = K ∧ 0 < K then _ else none
    rw [if_neg (by simp; omega)]

theorem hinv_push {gt : α → α → Bool} (hgt : StrictWeak gt) {K : Nat} {xs : List (Entry α)}
    {h : Heap α} {e : Entry α} (hi : HInv gt K xs h) (hasc : AddrAsc (xs ++ [e])) :
    HInv gt K (xs ++ [e]) (heapPush gt h e) := by
  have hle := le_totalPreorder hgt
  have hsnoc := topK_snoc hgt hasc.nodup K
  rw [← hi.heap] at hsnoc
  have hsorted : Sorted (le gt) h.heap := by rw [hi.heap]; exact (isort_sorted hle xs).take K
  have hlenle : h.heap.length ≤ K := by rw [hi.heap]; exact length_take_le _ _
  unfold heapPush
  split
  · -- room left
    rename_i hlt
    rw [hi.topN] at hlt
    have hlen : (ins (le gt) e h.heap).length ≤ K := by rw [length_ins]; omega
    refine ⟨hi.topN, ?_, ?_⟩
    · show ins (le gt) e h.heap = _
      rw [hsnoc, take_of_length_le hlen]
    · show (if (ins (le gt) e h.heap).length = h.topN then _ else h.threshold) = _
      rw [hi.topN]
      have hthr : h.threshold = none := by
        rw [hi.thr, if_neg]; omega
      rw [hthr]
      by_cases hc : (ins (le gt) e h.heap).length = K
      · rw [if_pos hc, if_pos ⟨hc, by rw [length_ins] at hc; omega⟩]
      · rw [if_neg hc, if_neg (fun hh => hc hh.1)]
  · rename_i hge
    rw [hi.topN] at hge
    have hlenK : h.heap.length = K := by omega
    split
    · rename_i t ht
      have hKpos : 0 < K := by
        rcases Nat.eq_zero_or_pos K with h0 | h0
        · rw [hi.thr, if_neg (by omega)] at ht; cases ht
        · exact h0
      rw [hi.thr, if_pos ⟨hlenK, hKpos⟩] at ht
      -- the heap is init ++ [w] with w.key = t
      have hne : h.heap ≠ [] := by intro h0; rw [h0] at hlenK; simp at hlenK; omega
      obtain ⟨w, hw⟩ : ∃ w, h.heap.getLast? = some w := by
        cases hgl : h.heap.getLast? with
        | none => exact absurd (getLast?_eq_none_iff.mp hgl) hne
        | some w => exact ⟨w, rfl⟩
      have hsplit : h.heap = h.heap.dropLast ++ [w] := by
        have := dropLast_concat_getLast hne
        rw [getLast?_eq_some_getLast hne] at hw
        cases hw
        exact this.symm
      have htw : w.key = t := by rw [hw] at ht; simpa using ht
      have hwmem : w ∈ xs := by
        have : w ∈ h.heap := by rw [hsplit]; simp
        rw [hi.heap] at this
        exact mem_isort.mp (mem_of_mem_take this)
      have hwlt : w.addr < e.addr := by
        unfold AddrAsc at hasc
        rw [pairwise_append] at hasc
        exact hasc.2.2 w hwmem e (by simp)
      split
      · -- replaces the worst
        rename_i hgte
        have hwe : le gt w e = false := by
          unfold le
          rw [htw, hgt.asymm _ _ hgte, hgte]; simp
        have hinit : (h.heap.dropLast).length = K - 1 := by rw [length_dropLast, hlenK]
        have hhp : (ins (le gt) e h.heap.dropLast).length = K := by rw [length_ins, hinit]; omega
        refine ⟨hi.topN, ?_, ?_⟩
        · show ins (le gt) e h.heap.dropLast = _
          rw [hsnoc, hsplit, ins_append_of_not_le e w hwe, dropLast_concat,
            take_left' hhp]
        · show (ins (le gt) e h.heap.dropLast).getLast?.map (·.key) = _
          rw [if_pos ⟨hhp, hKpos⟩]
      · -- not above the threshold: unchanged
        rename_i hngt
        simp only [Bool.not_eq_true] at hngt
        have hwe : le gt w e = true := by
          unfold le
          rw [htw, hngt]; simp; right; omega
        have hall : ∀ x ∈ h.heap, le gt x e = true := by
          intro x hx
          rw [hsplit] at hx hsorted
          unfold Sorted at hsorted
          rw [pairwise_append] at hsorted
          rcases mem_append.mp hx with hx | hx
          · exact hle.trans _ _ _ (hsorted.2.2 x hx w (by simp)) hwe
          · simp at hx; subst hx; exact hwe
        have hcount : K ≤ h.heap.countP (fun x => le gt x e) := by
          rw [countP_eq_length.mpr hall, hlenK]; exact Nat.le_refl _
        refine ⟨hi.topN, ?_, hi.thr⟩
        rw [hsnoc, take_ins_of_count hle e hsorted hcount, take_of_length_le hlenle]
    · -- no threshold although the heap is "full": K = 0
      rename_i hnone
      have hK0 : K = 0 := by
        rcases Nat.eq_zero_or_pos K with h0 | h0
        · exact h0
        · exfalso
          rw [hi.thr, if_pos ⟨hlenK, h0⟩] at hnone
          have hne : h.heap ≠ [] := by intro h0'; rw [h0'] at hlenK; simp at hlenK; omega
          cases hgl : h.heap.getLast? with
          | none => exact absurd (getLast?_eq_none_iff.mp hgl) hne
          | some w => rw [hgl] at hnone; cases hnone
      refine ⟨hi.topN, ?_, hi.thr⟩
      rw [hi.heap, hK0]; simp

theorem hinv_pushAll {gt : α → α → Bool} (hgt : StrictWeak gt) {K : Nat}
    (es xs : List (Entry α)) (h : Heap α) (hi : HInv gt K xs h) (hasc : AddrAsc (xs ++ es)) :
    HInv gt K (xs ++ es) (es.foldl (heapPush gt) h) := by
  induction es generalizing xs h with
  | nil => simpa using hi
  | cons e es ih =>
    have hasc' : AddrAsc ((xs ++ [e]) ++ es) := by simpa using hasc
    have hpre : AddrAsc (xs ++ [e]) := by
      unfold AddrAsc at hasc' ⊢
      exact (pairwise_append.mp hasc').1
    have := ih (xs ++ [e]) (heapPush gt h e) (hinv_push hgt hi hpre) hasc'
    simpa using this

/-! ### the threshold filter and pruning drivers -/

/-- structural coherence of a heap: a threshold is only ever set on a full, non-empty heap -/
def HeapWf (h : Heap α) : Prop := ∀ t, h.threshold = some t → h.heap.length = h.topN ∧ 0 < h.topN

theorem heapWf_new (K : Nat) : HeapWf (Heap.new K : Heap α) := by
  intro t ht; simp [Heap.new] at ht

theorem heapWf_push (gt : α → α → Bool) {h : Heap α} (hw : HeapWf h) (e : Entry α) :
    HeapWf (heapPush gt h e) := by
  unfold heapPush
  split
  · rename_i hlt
    intro t ht
    show (ins (le gt) e h.heap).length = h.topN ∧ 0 < h.topN
    simp only at ht
    split at ht
    · rename_i heq
      exact ⟨heq, by omega⟩
    · exact absurd (hw t ht).1 (by omega)
  · split
    · rename_i t ht
      have hfull := hw t ht
      split
      · intro t' _
        refine ⟨?_, hfull.2⟩
        show (ins (le gt) e h.heap.dropLast).length = h.topN
        rw [length_ins, length_dropLast]; omega
      · exact hw
    · exact hw

/-- a candidate that is not above the heap's own threshold leaves the heap unchanged -/
theorem heapPush_not_above (gt : α → α → Bool) {h : Heap α} (hw : HeapWf h) (e : Entry α)
    (hna : above gt e.key h.threshold = false) : heapPush gt h e = h := by
  cases ht : h.threshold with
  | none => rw [ht] at hna; simp [above] at hna
  | some t =>
    rw [ht] at hna
    simp only [above] at hna
    have hfull := hw t ht
    unfold heapPush
    rw [if_neg (by omega), ht]
    simp [hna]

/-- state coherence of the pruning loop: the loop's threshold is the heap's threshold -/
def Coherent (st : Heap α × Option α) : Prop := HeapWf st.1 ∧ st.2 = st.1.threshold

theorem coherent_step (gt : α → α → Bool) {st : Heap α × Option α} (hc : Coherent st) (c : Cand α) :
    Coherent (if above gt c.entry.key st.2 then callback gt st c else st) ∧
    (if above gt c.entry.key st.2 then callback gt st c else st).1
      = if c.alive then heapPush gt st.1 c.entry else st.1 := by
  by_cases ha : above gt c.entry.key st.2 = true
  · rw [if_pos ha]
    unfold callback
    by_cases hal : c.alive = true
    · simp only [hal, if_true]
      exact ⟨⟨heapWf_push gt hc.1 _, rfl⟩, by first | trivial | rfl⟩
    · simp only [hal]
      exact ⟨hc, by simp⟩
  · rw [if_neg ha]
    refine ⟨hc, ?_⟩
    by_cases hal : c.alive = true
    · simp only [hal, if_true]
      rw [hc.2] at ha
      exact (heapPush_not_above gt hc.1 _ (by simpa using ha)).symm
    · simp [hal]

/-- `for_each_pruning_scorer` + the TopDocs callback = pushing every live document -/
theorem forEachPruning_eq_pushAll (gt : α → α → Bool) (cs : List (Cand α))
    (st : Heap α × Option α) (hc : Coherent st) :
    (forEachPruning gt st cs).1
      = ((cs.filter (·.alive)).map (·.entry)).foldl (heapPush gt) st.1 := by
  induction cs generalizing st with
  | nil => simp [forEachPruning]
  | cons c cs ih =>
    obtain ⟨hc', hstep⟩ := coherent_step gt hc c
    have : forEachPruning gt st (c :: cs)
        = forEachPruning gt (if above gt c.entry.key st.2 then callback gt st c else st) cs := by
      simp [forEachPruning]
    rw [this, ih _ hc', hstep]
    by_cases hal : c.alive = true
    · simp [hal]
    · simp [hal]

/-- a driver that only skips documents not above the current threshold computes exactly what
the exhaustive loop computes -/
theorem prunedRun_eq_forEach (gt : α → α → Bool) (cs : List (Cand α × Bool))
    (st : Heap α × Option α) (hs : skipsBelow gt st cs = true) :
    prunedRun gt st cs = forEachPruning gt st (cs.map (·.1)) := by
  induction cs generalizing st with
  | nil => simp [prunedRun, forEachPruning]
  | cons p cs ih =>
    obtain ⟨c, skipped⟩ := p
    have hfe : forEachPruning gt st (((c, skipped) :: cs).map (·.1))
        = forEachPruning gt (if above gt c.entry.key st.2 then callback gt st c else st)
            (cs.map (·.1)) := by
      simp [forEachPruning]
    rw [hfe]
    cases skipped with
    | true =>
      simp only [skipsBelow, if_true, Bool.and_eq_true, Bool.not_eq_true'] at hs
      simp only [prunedRun, if_true]
      rw [ih st hs.2, hs.1]
      simp
    | false =>
      simp only [skipsBelow] at hs
      simp only [prunedRun]
      exact ih _ (by simpa using hs)

/-! ### merge of per-segment fruits -/

/-- pointwise relation between two lists of equal length -/
inductive Forall₂ {γ δ : Type} (R : γ → δ → Prop) : List γ → List δ → Prop
  | nil : Forall₂ R [] []
  | cons {a b l₁ l₂} : R a b → Forall₂ R l₁ l₂ → Forall₂ R (a :: l₁) (b :: l₂)

theorem forall₂_map_left {γ δ : Type} {R : γ → δ → Prop} (f : δ → γ) (l : List δ)
    (h : ∀ d, d ∈ l → R (f d) d) : Forall₂ R (l.map f) l := by
  induction l with
  | nil => exact .nil
  | cons d ds ih =>
    exact .cons (h d (by simp)) (ih fun d' hd' => h d' (by simp [hd']))

theorem addrNodup_take_isort_append {gt : α → α → Bool} {A B : List (Entry α)}
    (h : AddrNodup (A ++ B)) (n : Nat) : AddrNodup ((isort (le gt) A).take n ++ B) := by
  have h1 : AddrNodup (isort (le gt) A ++ B) :=
    h.perm (Perm.append_right B (isort_perm A).symm)
  exact h1.sublist (Sublist.append_right (take_sublist n _) B)

/-- the best `N` of a concatenation only depend on the best `N` of each part -/
theorem takeN_isort_congr {gt : α → α → Bool} (hgt : StrictWeak gt) (N : Nat)
    {A A' B B' : List (Entry α)} (hA : (isort (le gt) A).take N = (isort (le gt) A').take N)
    (hB : (isort (le gt) B).take N = (isort (le gt) B').take N)
    (hn : AddrNodup (A ++ B)) (hn' : AddrNodup (A' ++ B')) :
    (isort (le gt) (A ++ B)).take N = (isort (le gt) (A' ++ B')).take N := by
  have hle := le_totalPreorder hgt
  have key : ∀ {A B : List (Entry α)}, AddrNodup (A ++ B) →
      (isort (le gt) (A ++ B)).take N
        = (isort (le gt) ((isort (le gt) B).take N ++ (isort (le gt) A).take N)).take N := by
    intro A B hn
    have hn1 : AddrNodup ((isort (le gt) A).take N ++ B) := addrNodup_take_isort_append hn N
    have hn2 : AddrNodup (B ++ (isort (le gt) A).take N) := hn1.perm perm_append_comm
    rw [takeK_isort_append hle (hn.antisym hgt) N,
      isort_eq_of_perm hle (hn1.antisym hgt) perm_append_comm,
      takeK_isort_append hle (hn2.antisym hgt) N]
  rw [key hn, key hn', hA, hB]

theorem takeN_isort_flatten {gt : α → α → Bool} (hgt : StrictWeak gt) (N : Nat)
    {fruits segs : List (List (Entry α))}
    (h : Forall₂ (fun f d => (isort (le gt) f).take N = (isort (le gt) d).take N) fruits segs)
    (hn : AddrNodup fruits.flatten) (hn' : AddrNodup segs.flatten) :
    (isort (le gt) fruits.flatten).take N = (isort (le gt) segs.flatten).take N := by
  induction h with
  | nil => rfl
  | cons hfd _ ih =>
    simp only [flatten_cons] at hn hn' ⊢
    exact takeN_isort_congr hgt N hfd
      (ih (hn.sublist (sublist_append_right _ _)) (hn'.sublist (sublist_append_right _ _))) hn hn'

theorem Forall₂.imp {γ δ : Type} {R S : γ → δ → Prop} (h : ∀ a b, R a b → S a b) {l₁ : List γ} {l₂ : List δ}
    (hr : Forall₂ R l₁ l₂) : Forall₂ S l₁ l₂ := by
  induction hr with
  | nil => exact .nil
  | cons hab _ ih => exact .cons (h _ _ hab) ih

theorem Forall₂.mem_right {γ δ : Type} {R : γ → δ → Prop} {l₁ : List γ} {l₂ : List δ}
    (h : Forall₂ R l₁ l₂) : Forall₂ (fun a b => R a b ∧ b ∈ l₂) l₁ l₂ := by
  induction h with
  | nil => exact .nil
  | cons hab _ ih => exact .cons ⟨hab, by simp⟩ (ih.imp fun a b h => ⟨h.1, by simp [h.2]⟩)

theorem Forall₂.map_right {γ δ ε : Type} {R : γ → ε → Prop} (g : δ → ε) {l₁ : List γ} {l₂ : List δ}
    (h : Forall₂ (fun a b => R a (g b)) l₁ l₂) : Forall₂ R l₁ (l₂.map g) := by
  induction h with
  | nil => exact .nil
  | cons hab _ ih => exact .cons hab ih

theorem mem_flatten_of_forall₂ {fruits segs : List (List (Entry α))}
    (h : Forall₂ (fun f d => ∀ x, x ∈ f → x ∈ d) fruits segs) {b : Entry α} (hb : b ∈ fruits.flatten) :
    b ∈ segs.flatten := by
  induction h with
  | nil => exact hb
  | cons hfd _ ih =>
    simp only [flatten_cons, mem_append] at hb ⊢
    rcases hb with hb | hb
    · exact Or.inl (hfd b hb)
    · exact Or.inr (ih hb)

/-- fruits that are duplicate-free sub-collections of their segments are duplicate-free together -/
theorem addrNodup_flatten_of_sub {fruits segs : List (List (Entry α))}
    (h : Forall₂ (fun f d => (∀ x, x ∈ f → x ∈ d) ∧ AddrNodup f) fruits segs)
    (hn : AddrNodup segs.flatten) : AddrNodup fruits.flatten := by
  induction h with
  | nil => exact Pairwise.nil
  | cons hfd hrest ih =>
    simp only [flatten_cons] at hn ⊢
    unfold AddrNodup at hn ⊢
    rw [pairwise_append] at hn ⊢
    refine ⟨hfd.2, ih hn.2.1, ?_⟩
    intro a ha b hb
    exact hn.2.2 a (hfd.1 a ha) b (mem_flatten_of_forall₂ (hrest.imp fun _ _ h => h.1) hb)

end TantivyModel.TopN
