import TantivyModel.Proofs.MergeWF
/-! an arbitrary (shuffled) doc-id mapping: every document keeps its postings (C04 / C17) -/
namespace TantivyModel.Merge

/-- the filled tables invert ANY duplicate-free in-bounds new→old table -/
theorem fill_inverse {α} (segs : List (Segment α)) (tbl : List (Nat × Nat)) (hnd : tbl.Nodup)
    (hb : ∀ a ∈ tbl, inB (emptyTables segs) a.1 a.2) (s d n : Nat) :
    getAddr (fillFrom (emptyTables segs) 0 tbl) s d = some n ↔ tbl[n]? = some (s, d) := by
  constructor
  · intro h
    by_cases hm : (s, d) ∈ tbl
    · obtain ⟨j, hj⟩ := List.getElem?_of_mem hm
      have := getAddr_fillFrom_mem tbl (emptyTables segs) 0 s d j hnd hb hj
      rw [this] at h
      simp at h
      subst h
      exact hj
    · rw [getAddr_fillFrom_notMem _ _ _ _ _ hm, getAddr_emptyTables] at h
      cases h
  · intro h
    have := getAddr_fillFrom_mem tbl (emptyTables segs) 0 s d n hnd hb h
    simpa using this

theorem mem_remapPostings (m : Tables) (i : Nat) (ps : List Posting) (x : Posting) :
    x ∈ remapPostings m i ps ↔ ∃ p ∈ ps, getAddr m i p.doc = some x.doc ∧ x = { p with doc := x.doc } := by
  unfold remapPostings
  rw [List.mem_filterMap]
  constructor
  · rintro ⟨p, hp, h⟩
    cases hg : getAddr m i p.doc with
    | none => rw [hg] at h; cases h
    | some n =>
      rw [hg] at h
      simp only [Option.some.injEq] at h
      subst h
      exact ⟨p, hp, hg, rfl⟩
  · rintro ⟨p, hp, hg, hx⟩
    refine ⟨p, hp, ?_⟩
    rw [hg, hx]

theorem mem_remapAllFrom {α} (m : Tables) (k : Key) (i : Nat) (rest : List (Segment α)) (x : Posting) :
    x ∈ remapAllFrom m k i rest ↔
      ∃ j seg, rest[j]? = some seg ∧ x ∈ remapPostings m (i + j) (postingsOf seg.terms k) := by
  induction rest generalizing i with
  | nil => simp [remapAllFrom]
  | cons s rest' ih =>
    simp only [remapAllFrom, List.mem_append, ih]
    constructor
    · rintro (h | ⟨j, seg, hj, hx⟩)
      · exact ⟨0, s, by simp, by simpa using h⟩
      · exact ⟨j + 1, seg, by simpa using hj, by
          have e : i + (j + 1) = i + 1 + j := by omega
          rw [e]; exact hx⟩
    · rintro ⟨j, seg, hj, hx⟩
      cases j with
      | zero =>
        simp at hj
        subst hj
        exact Or.inl (by simpa using hx)
      | succ j' =>
        right
        refine ⟨j', seg, by simpa using hj, ?_⟩
        have e : i + (j' + 1) = i + 1 + j' := by omega
        rw [e] at hx; exact hx

theorem find?_unique_of_mem {α} (q : α → Bool) (l : List α) (x : α) (hx : x ∈ l) (hq : q x = true)
    (hu : ∀ a ∈ l, ∀ b ∈ l, q a = true → q b = true → a = b) : l.find? q = some x := by
  cases h : l.find? q with
  | none =>
    rw [List.find?_eq_none] at h
    exact absurd hq (h x hx)
  | some y =>
    have hy := List.mem_of_find?_eq_some h
    have hqy := List.find?_some h
    rw [hu y hy x hx hqy hq]

theorem find?_perm_unique' {α} (q : α → Bool) (l l' : List α) (hp : l.Perm l')
    (hu : ∀ a ∈ l, ∀ b ∈ l, q a = true → q b = true → a = b) : l.find? q = l'.find? q := by
  cases h : l.find? q with
  | none =>
    symm
    rw [List.find?_eq_none] at h ⊢
    intro x hx
    exact h x (hp.mem_iff.2 hx)
  | some a =>
    have ha := List.mem_of_find?_eq_some h
    have hqa := List.find?_some h
    symm
    apply find?_unique_of_mem q l' a (hp.mem_iff.1 ha) hqa
    intro x hx y hy hqx hqy
    exact hu x (hp.mem_iff.2 hx) y (hp.mem_iff.2 hy) hqx hqy

theorem docs_nodup_of_pairwise (ps : List Posting) (h : ps.Pairwise docLt) : (ps.map (·.doc)).Nodup := by
  rw [List.Nodup, List.pairwise_map]
  exact h.imp (fun hab => Nat.ne_of_lt hab)

theorem eq_of_doc_eq (ps : List Posting) (h : ps.Pairwise docLt) (a b : Posting) (ha : a ∈ ps) (hb : b ∈ ps)
    (hd : a.doc = b.doc) : a = b := by
  obtain ⟨i, hi⟩ := List.getElem?_of_mem ha
  obtain ⟨j, hj⟩ := List.getElem?_of_mem hb
  have hil := List.getElem?_eq_some_iff.1 hi
  have hjl := List.getElem?_eq_some_iff.1 hj
  rcases Nat.lt_trichotomy i j with hlt | heq | hgt
  · have := List.pairwise_iff_getElem.1 h i j hil.1 hjl.1 hlt
    rw [hil.2, hjl.2] at this
    unfold docLt at this; omega
  · subst heq
    rw [hi] at hj
    exact Option.some.inj hj
  · have := List.pairwise_iff_getElem.1 h j i hjl.1 hil.1 hgt
    rw [hil.2, hjl.2] at this
    unfold docLt at this; omega

/-- new document `n` (old address `(s, d)`) has, for every key, exactly the posting of old
document `d` of source `s` — tf and positions unchanged — whatever the mapping -/
theorem shuffled_find {α} (segs : List (Segment α)) (tbl : List (Nat × Nat)) (hnd : tbl.Nodup)
    (hb : ∀ a ∈ tbl, inB (emptyTables segs) a.1 a.2)
    (hpost : ∀ s ∈ segs, ∀ t ∈ s.terms, postingsOk s.alive.length t.2 = true)
    (k : Key) (n s d : Nat) (seg : Segment α) (hn : tbl[n]? = some (s, d)) (hs : segs[s]? = some seg) :
    ((shuffledPostings segs tbl k).find? fun p => p.doc == n).map (fun p => (p.tf, p.pos))
      = ((postingsOf seg.terms k).find? fun p => p.doc == d).map fun p => (p.tf, p.pos) := by
  let m := fillFrom (emptyTables segs) 0 tbl
  let L := remapAllFrom m k 0 segs
  have hpw : ∀ sg ∈ segs, (postingsOf sg.terms k).Pairwise docLt := by
    intro sg hsg
    unfold postingsOf
    cases hl : sg.terms.lookup k with
    | none => simp
    | some ps =>
      have hm : (k, ps) ∈ sg.terms := by
        obtain ⟨l1, l2, he, _⟩ := List.lookup_eq_some_iff.1 hl
        rw [he]; simp
      exact ((postingsOk_iff _ _).1 (hpost sg hsg (k, ps) hm)).1
  -- every element of L with doc = n comes from source s and old doc d
  have horigin : ∀ x ∈ L, x.doc = n → ∃ p ∈ postingsOf seg.terms k, p.doc = d ∧ x = { p with doc := n } := by
    intro x hx hxn
    obtain ⟨j, sg, hj, hxr⟩ := (mem_remapAllFrom m k 0 segs x).1 hx
    obtain ⟨p, hp, hg, hxe⟩ := (mem_remapPostings m (0 + j) _ x).1 hxr
    rw [hxn] at hg hxe
    have := (fill_inverse segs tbl hnd hb (0 + j) p.doc n).1 hg
    rw [hn] at this
    simp only [Option.some.injEq, Prod.mk.injEq] at this
    obtain ⟨hsj, hdp⟩ := this
    have hj' : segs[s]? = some sg := by rw [hsj]; simpa using hj
    rw [hs] at hj'
    cases hj'
    exact ⟨p, hp, hdp.symm, hxe⟩
  have huniq : ∀ a ∈ L, ∀ b ∈ L, (a.doc == n) = true → (b.doc == n) = true → a = b := by
    intro a ha b hb' hqa hqb
    obtain ⟨p1, hp1, hd1, rfl⟩ := horigin a ha (by simpa using hqa)
    obtain ⟨p2, hp2, hd2, rfl⟩ := horigin b hb' (by simpa using hqb)
    have hseg : seg ∈ segs := List.mem_of_getElem? hs
    rw [eq_of_doc_eq _ (hpw seg hseg) p1 p2 hp1 hp2 (hd1.trans hd2.symm)]
  unfold shuffledPostings
  rw [← find?_perm_unique' (fun p => p.doc == n) L _ (List.mergeSort_perm _ _).symm huniq]
  cases hfd : (postingsOf seg.terms k).find? (fun p => p.doc == d) with
  | none =>
    have : L.find? (fun p => p.doc == n) = none := by
      rw [List.find?_eq_none]
      intro x hx hq
      obtain ⟨p, hp, hd, _⟩ := horigin x hx (by simpa using hq)
      rw [List.find?_eq_none] at hfd
      exact hfd p hp (by simpa using hd)
    rw [this]
  | some p =>
    have hp := List.mem_of_find?_eq_some hfd
    have hpd : p.doc = d := by simpa using List.find?_some hfd
    have hxin : ({ p with doc := n } : Posting) ∈ L := by
      apply (mem_remapAllFrom m k 0 segs _).2
      refine ⟨s, seg, hs, ?_⟩
      apply (mem_remapPostings m (0 + s) _ _).2
      refine ⟨p, hp, ?_, rfl⟩
      rw [Nat.zero_add, hpd]
      exact (fill_inverse segs tbl hnd hb s d n).2 hn
    rw [find?_unique_of_mem (fun p => p.doc == n) L _ hxin (by simp) huniq]
    rfl

theorem inB_emptyTables {α} (segs : List (Segment α)) (s d : Nat) :
    inB (emptyTables segs) s d ↔ ∃ seg, segs[s]? = some seg ∧ d < seg.alive.length := by
  unfold inB emptyTables
  simp only [List.getElem?_map]
  cases hs : segs[s]? with
  | none => simp
  | some seg => simp

theorem filterMap_getElem?_all_some {α β} (f : α → Option β) (l : List α) (h : ∀ a ∈ l, (f a).isSome = true)
    (n : Nat) : (l.filterMap f)[n]? = (l[n]?).bind f := by
  induction l generalizing n with
  | nil => simp
  | cons a rest ih =>
    have ha := h a (by simp)
    cases hf : f a with
    | none => rw [hf] at ha; cases ha
    | some b =>
      simp only [List.filterMap_cons, hf]
      cases n with
      | zero => simp [hf]
      | succ n' => simpa using ih (fun x hx => h x (by simp [hx])) n'

/-- per-document data through an arbitrary in-bounds table: new doc `n` carries the data of the
old document at address `tbl[n]` -/
theorem shuffledDocs_getElem? {α} (segs : List (Segment α)) (tbl : List (Nat × Nat))
    (hlen : ∀ s ∈ segs, s.docs.length = s.alive.length)
    (hb : ∀ a ∈ tbl, ∃ seg, segs[a.1]? = some seg ∧ a.2 < seg.alive.length)
    (n s d : Nat) (seg : Segment α) (hn : tbl[n]? = some (s, d)) (hs : segs[s]? = some seg) :
    (shuffledDocs segs tbl)[n]? = seg.docs[d]? := by
  unfold shuffledDocs copyDocs
  rw [filterMap_getElem?_all_some _ _ _ n, hn]
  · simp [hs]
  · intro a ha
    obtain ⟨sg, hsg, hlt⟩ := hb a ha
    have hl := hlen sg (List.mem_of_getElem? hsg)
    simp only [hsg]
    rw [List.getElem?_eq_getElem (by omega)]
    rfl

/-! ### the doc store of a shuffled merge: per-source iterators -/

theorem storeIter_eq {α} (segs : List (Segment α)) (tbl : List (Nat × Nat)) (iters : List (List α))
    (hI : ∀ s seg, segs[s]? = some seg →
      iters[s]? = some (((tbl.filter fun a => a.1 == s).map (·.2)).filterMap fun d => seg.docs[d]?))
    (hb : ∀ a ∈ tbl, ∃ seg, segs[a.1]? = some seg ∧ a.2 < seg.docs.length) :
    storeIter iters tbl = some (copyDocs segs tbl) := by
  induction tbl generalizing iters with
  | nil => simp [storeIter, copyDocs]
  | cons a rest ih =>
    obtain ⟨seg, hseg, hlt⟩ := hb a (by simp)
    have hit := hI a.1 seg hseg
    simp only [List.filter_cons, beq_self_eq_true, if_true, List.map_cons, List.filterMap_cons,
      List.getElem?_eq_getElem hlt] at hit
    simp only [storeIter, hit, copyDocs, List.filterMap_cons, hseg, List.getElem?_eq_getElem hlt]
    have hlen : a.1 < iters.length := by
      rcases Nat.lt_or_ge a.1 iters.length with h | h
      · exact h
      · rw [List.getElem?_eq_none h] at hit; cases hit
    rw [ih (iters.set a.1 _) ?_ (fun b hb' => hb b (by simp [hb']))]
    · rfl
    · intro s sg hsg
      by_cases hs : a.1 = s
      · subst hs
        rw [hseg] at hsg
        cases hsg
        rw [List.getElem?_set_self hlen]
      · rw [List.getElem?_set_ne hs]
        have := hI s sg hsg
        have hne : (a.1 == s) = false := by simpa using hs
        simpa [List.filter_cons, hne] using this

/-- if every source's live documents appear in the table exactly once and in doc-id order (what a
k-way merge of per-source iterators produces), the per-source store iterators deliver exactly the
documents the table asks for -/
theorem storeIter_copyDocs {α} (segs : List (Segment α)) (tbl : List (Nat × Nat))
    (hlen : ∀ s ∈ segs, s.docs.length = s.alive.length)
    (hsrc : ∀ s seg, segs[s]? = some seg → (tbl.filter fun a => a.1 == s).map (·.2) = liveIds seg.alive)
    (hb : ∀ a ∈ tbl, ∃ seg, segs[a.1]? = some seg ∧ a.2 < seg.alive.length) :
    storeIter (storeIters segs) tbl = some (copyDocs segs tbl) := by
  apply storeIter_eq
  · intro s seg hs
    simp only [storeIters, List.getElem?_map, hs, Option.map_some]
    rw [hsrc s seg hs]
    have := liveIdsFrom_filterMap seg.docs seg.alive 0 (hlen seg (List.mem_of_getElem? hs))
    simp only [Nat.sub_zero] at this
    rw [← this]
    rfl
  · intro a ha
    obtain ⟨seg, hs, hlt⟩ := hb a ha
    exact ⟨seg, hs, by rw [hlen seg (List.mem_of_getElem? hs)]; exact hlt⟩

end TantivyModel.Merge
