import TantivyModel.Proofs.WriterSteps
/-!
Preservation of `WInv` by commit, rollback, clean `delete_all_documents`, prepare, tick, flush.
-/
namespace TantivyModel.Writer
open TantivyModel.WriterSpec

variable {α : Type} [DecidableEq α]

theorem quiescent_iff (s : WState α) (h : quiescent s = true) :
    s.channel = [] ∧ (∀ w ∈ s.workers, w.seg = none) ∧ s.inflight = [] := by
  simp only [quiescent, Bool.and_eq_true, List.isEmpty_iff, List.all_eq_true, Option.isNone_iff_eq_none] at h
  exact ⟨h.1.1, h.1.2, h.2⟩

theorem workers_idle_pairs (ws : List (Worker α)) (h : ∀ w ∈ ws, w.seg = none) :
    ws.flatMap workerPairs = [] :=
  flatMap_nil_of _ _ (fun w hw => by simp [workerPairs, h w hw])

theorem flatMap_filter_drop {β γ : Type} (p : β → Bool) (f : β → List γ) (l : List β)
    (h : ∀ x ∈ l, p x = false → f x = []) : (l.filter p).flatMap f = l.flatMap f := by
  induction l with
  | nil => rfl
  | cons a l ih =>
    have ih' := ih (fun x hx => h x (by simp [hx]))
    cases hp : p a
    · simp [List.filter_cons, hp, ih', h a (by simp) hp]
    · simp [List.filter_cons, hp, ih']

/-- a segment whose alive bits are the opstamp rule over the whole queue: its alive documents are
its live pairs -/
theorem aliveDocs_of_bits (log : List (DelOp α)) (sg : Seg α)
    (h : ∀ d ∈ sg.docs, d.alive = !dead log (d.doc, d.op)) :
    aliveDocs sg = ((segPairs sg).filter (fun p => !dead log p)).map (·.1) := by
  simp only [aliveDocs, segPairs, List.filter_map, List.map_map]
  have : sg.docs.filter (fun d => d.alive) = sg.docs.filter ((fun p => !dead log p) ∘ fun d => (d.doc, d.op)) := by
    apply List.filter_congr
    intro d hd
    simp [h d hd]
  rw [this]
  rfl

theorem hasAlive_false (log : List (DelOp α)) (sg : Seg α)
    (h : ∀ d ∈ sg.docs, d.alive = !dead log (d.doc, d.op)) (hn : hasAlive sg = false) :
    (segPairs sg).filter (fun p => !dead log p) = [] := by
  simp only [hasAlive, List.any_eq_false] at hn
  simp only [segPairs, List.filter_eq_nil_iff, List.mem_map]
  rintro p ⟨d, hd, rfl⟩
  have := hn d hd
  rw [h d hd] at this
  simpa using this

def commitState (s : WState α) (p : Option Nat) : WState α :=
  saveMetas { s with stamper := s.stamper + 1,
                     workers := s.workers.map (fun _ => { cur := s.flushed, seg := none }),
                     flushed := if (s.uncommitted ++ s.committed).isEmpty then s.flushed else s.log.length,
                     uncommitted := [],
                     committed := (s.uncommitted ++ s.committed).map (advance s.log s.stamper) }
    s.stamper p

theorem inv_commit (s : WState α) (P C : List α) (h : WInv s P C) (hq : quiescent s = true) (p : Option Nat) :
    WInv (commitState s p) P P := by
  obtain ⟨hch, hwk, hin⟩ := quiescent_iff s hq
  have hall : allPairs s = (s.uncommitted ++ s.committed).flatMap segPairs := by
    simp [allPairs, chanPairs, hch, hin, workers_idle_pairs s.workers hwk]
  have hok : ∀ sg ∈ s.uncommitted ++ s.committed, SegOK s.log sg :=
    fun sg hsg => h.segs sg (by simp only [List.mem_append] at hsg ⊢; rcases hsg with h1 | h1 <;> simp [h1])
  have hle : ∀ del ∈ s.log, del.op ≤ s.stamper := fun del hd => Nat.le_of_lt (h.logLt del hd)
  have hbits : ∀ a ∈ (s.uncommitted ++ s.committed).map (advance s.log s.stamper),
      ∀ d ∈ a.docs, d.alive = !dead s.log (d.doc, d.op) := by
    intro a ha
    obtain ⟨sg, hsg, rfl⟩ := List.mem_map.mp ha
    exact (advance_full s.log s.stamper sg (hok sg hsg) hle).2
  let K := ((s.uncommitted ++ s.committed).map (advance s.log s.stamper)).filter hasAlive
  have hK : (commitState s p).committed = K := rfl
  have hallK : allPairs (commitState s p) = K.flatMap segPairs := by
    have : ((commitState s p).workers).flatMap workerPairs = [] := by
      apply workers_idle_pairs
      intro w hw
      simp only [commitState, saveMetas, List.mem_map] at hw
      obtain ⟨_, _, rfl⟩ := hw
      rfl
    simp only [allPairs, this, hK]
    simp [commitState, saveMetas, chanPairs, hch, hin]
  have hlive : live (commitState s p) = live s := by
    simp only [live, hallK, hall]
    show ((K.flatMap segPairs).filter (fun q => !dead s.log q)).map (·.1) = _
    rw [filter_flatMap', filter_flatMap']
    have e1 : K.flatMap (fun x => (segPairs x).filter (fun q => !dead s.log q))
        = ((s.uncommitted ++ s.committed).map (advance s.log s.stamper)).flatMap
            (fun x => (segPairs x).filter (fun q => !dead s.log q)) := by
      apply flatMap_filter_drop
      intro a ha hn
      exact hasAlive_false s.log a (hbits a ha) hn
    rw [e1, List.flatMap_map]
    simp only [segPairs_advance]
  have hpub : published (commitState s p) = live (commitState s p) := by
    simp only [live, hallK]
    show K.flatMap aliveDocs = ((K.flatMap segPairs).filter (fun q => !dead s.log q)).map (·.1)
    rw [filter_flatMap', List.map_flatMap]
    apply flatMap_congr'
    intro a ha
    exact aliveDocs_of_bits s.log a (hbits a (List.mem_filter.mp ha).1)
  have hmemK : ∀ a ∈ K, ∃ sg ∈ s.uncommitted ++ s.committed, a = advance s.log s.stamper sg := by
    intro a ha
    obtain ⟨sg, hsg, rfl⟩ := List.mem_map.mp (List.mem_filter.mp ha).1
    exact ⟨sg, hsg, rfl⟩
  have hpairsK : ∀ q ∈ K.flatMap segPairs, q ∈ allPairs s := by
    intro q hq'
    obtain ⟨a, ha, hqa⟩ := List.mem_flatMap.mp hq'
    obtain ⟨sg, hsg, rfl⟩ := hmemK a ha
    rw [segPairs_advance] at hqa
    rw [hall]
    exact List.mem_flatMap.mpr ⟨sg, hsg, hqa⟩
  have hchanK : chanPairs (commitState s p) = [] := by simp [commitState, saveMetas, chanPairs, hch]
  refine ⟨?_, ?_, ?_, ?_, h.sorted, ?_, ?_, ?_, ?_, ?_⟩
  · rw [hlive]; exact h.pend
  · rw [hpub, hlive]; exact h.pend
  · intro q hq'
    rw [hallK] at hq'
    have := h.pairsLt q (hpairsK q hq')
    show q.2 < s.stamper + 1
    omega
  · intro del hd
    have := h.logLt del hd
    show del.op < s.stamper + 1
    omega
  · rw [hchanK]; exact List.Pairwise.nil
  · show (if (s.uncommitted ++ s.committed).isEmpty then s.flushed else s.log.length) ≤ s.log.length
    have := h.flushedLe
    split <;> omega
  · intro w hw
    simp only [commitState, saveMetas, List.mem_map] at hw
    obtain ⟨_, _, rfl⟩ := hw
    refine ⟨h.flushedLe, ?_, by intro sg hsg; simp at hsg⟩
    intro del _ q hq'
    rw [hchanK] at hq'
    simp at hq'
  · intro a ha
    have ha' : a ∈ K := by
      simp only [commitState, saveMetas, hin, List.nil_append, List.append_nil] at ha
      exact ha
    obtain ⟨sg, hsg, rfl⟩ := hmemK a ha'
    exact advance_segOK s.log s.stamper sg (hok sg hsg)
  · intro a ha d hd
    have ha' : a ∈ K := ha
    have := h.pairsLt _ (hpairsK _ (List.mem_flatMap.mpr ⟨a, ha', mem_segPairs hd⟩))
    exact this

def rollbackState (s : WState α) : WState α :=
  { stamper := s.metas.opstamp, committedOpstamp := s.metas.opstamp, log := [], flushed := 0,
    channel := [], workers := s.workers.map (fun _ => { cur := 0, seg := none }),
    inflight := [], uncommitted := [], committed := s.metas.segs.map reload, merges := [],
    metas := s.metas, nextId := s.nextId }

theorem inv_rollback (s : WState α) (P C : List α) (h : WInv s P C) : WInv (rollbackState s) C C := by
  have hw0 : (rollbackState s).workers.flatMap workerPairs = [] := by
    apply workers_idle_pairs
    intro w hw
    simp only [rollbackState, List.mem_map] at hw
    obtain ⟨_, _, rfl⟩ := hw
    rfl
  have hall : allPairs (rollbackState s) = (s.metas.segs.map reload).flatMap segPairs := by
    simp only [allPairs, hw0]
    simp [rollbackState, chanPairs]
  have hlive : live (rollbackState s) = published s := by
    simp only [live, hall]
    show (((s.metas.segs.map reload).flatMap segPairs).filter (fun q => !dead ([] : List (DelOp α)) q)).map (·.1) = _
    have hft : ∀ l : List (α × Nat), l.filter (fun q => !dead ([] : List (DelOp α)) q) = l := by
      intro l; simp [dead_nil]
    rw [hft]
    simp only [published, List.flatMap_map, List.map_flatMap]
    apply flatMap_congr'
    intro sg _
    simp [segPairs, reload, aliveDocs, List.map_map, Function.comp_def]
  refine ⟨?_, h.pub, ?_, ?_, ?_, ?_, ?_, ?_, ?_, h.metaLt⟩
  · rw [hlive]; exact h.pub
  · intro q hq
    rw [hall] at hq
    obtain ⟨a, ha, hqa⟩ := List.mem_flatMap.mp hq
    obtain ⟨sg, hsg, rfl⟩ := List.mem_map.mp ha
    simp only [segPairs, reload, List.mem_map, List.mem_filter] at hqa
    obtain ⟨d, ⟨hd, _⟩, rfl⟩ := hqa
    exact h.metaLt sg hsg d hd
  · intro del hd; simp [rollbackState] at hd
  · exact List.Pairwise.nil
  · exact List.Pairwise.nil
  · exact Nat.le_refl _
  · intro w hw
    simp only [rollbackState, List.mem_map] at hw
    obtain ⟨_, _, rfl⟩ := hw
    refine ⟨Nat.zero_le _, ?_, by intro sg hsg; simp at hsg⟩
    intro del hd; simp [rollbackState] at hd
  · intro a ha
    simp only [rollbackState, List.nil_append, List.mem_map] at ha
    obtain ⟨sg, _, rfl⟩ := ha
    refine ⟨Nat.le_refl _, ?_, ?_⟩
    · intro d hd
      simp only [reload, List.mem_filter] at hd
      simp [reload, rollbackState, dead_nil, hd.2]
    · intro del hd; simp [rollbackState] at hd

/-- the hypothesis on `delete_all_documents`: nothing of the current transaction is pending and
the delete queue of this writer is empty -/
def cleanState (s : WState α) : Prop :=
  s.log = [] ∧ s.channel = [] ∧ s.inflight = [] ∧ s.uncommitted = [] ∧ ∀ w ∈ s.workers, w.seg = none

def deleteAllState (s : WState α) : WState α :=
  { s with uncommitted := [], committed := [], stamper := s.committedOpstamp }

theorem inv_deleteAll (s : WState α) (P C : List α) (h : WInv s P C) (hc : cleanState s) :
    WInv (deleteAllState s) [] C := by
  obtain ⟨hlog, hch, hin, _, hwk⟩ := hc
  have hall : allPairs (deleteAllState s) = [] := by
    simp [allPairs, deleteAllState, chanPairs, hch, hin, workers_idle_pairs s.workers hwk]
  refine ⟨?_, h.pub, ?_, ?_, h.sorted, h.chanSorted, h.flushedLe, h.workers, ?_, h.metaLt⟩
  · simp [live, hall]
  · intro q hq; rw [hall] at hq; simp at hq
  · intro del hd
    have : del ∈ s.log := hd
    rw [hlog] at this; simp at this
  · intro a ha
    simp [deleteAllState, hin] at ha

def prepareState (s : WState α) : WState α :=
  { s with stamper := s.stamper + 1,
           workers := s.workers.map (fun _ => { cur := s.flushed, seg := none }) }

theorem inv_prepare (s : WState α) (P C : List α) (h : WInv s P C) (hq : quiescent s = true) :
    WInv (prepareState s) P C := by
  obtain ⟨hch, hwk, hin⟩ := quiescent_iff s hq
  have hw0 : (prepareState s).workers.flatMap workerPairs = [] := by
    apply workers_idle_pairs
    intro w hw
    simp only [prepareState, List.mem_map] at hw
    obtain ⟨_, _, rfl⟩ := hw
    rfl
  have hall : allPairs (prepareState s) = allPairs s := by
    simp only [allPairs, hw0, workers_idle_pairs s.workers hwk]
    rfl
  refine ⟨?_, h.pub, ?_, ?_, h.sorted, h.chanSorted, h.flushedLe, ?_, h.segs, h.metaLt⟩
  · simp only [live, hall]; exact h.pend
  · intro q hq'
    rw [hall] at hq'
    have := h.pairsLt q hq'
    show q.2 < s.stamper + 1
    omega
  · intro del hd
    have := h.logLt del hd
    show del.op < s.stamper + 1
    omega
  · intro w hw
    simp only [prepareState, List.mem_map] at hw
    obtain ⟨_, _, rfl⟩ := hw
    refine ⟨h.flushedLe, ?_, by intro sg hsg; simp at hsg⟩
    intro del _ q hq'
    have : q ∈ chanPairs s := hq'
    simp [chanPairs, hch] at this

theorem inv_tick (s : WState α) (P C : List α) (h : WInv s P C) :
    WInv { s with stamper := s.stamper + 1 } P C := by
  refine ⟨h.pend, h.pub, ?_, ?_, h.sorted, h.chanSorted, h.flushedLe, h.workers, h.segs, h.metaLt⟩
  · intro q hq'
    have := h.pairsLt q hq'
    show q.2 < s.stamper + 1
    omega
  · intro del hd
    have := h.logLt del hd
    show del.op < s.stamper + 1
    omega

theorem inv_flush (s : WState α) (P C : List α) (h : WInv s P C) :
    WInv { s with flushed := s.log.length } P C :=
  ⟨h.pend, h.pub, h.pairsLt, h.logLt, h.sorted, h.chanSorted, Nat.le_refl _, h.workers, h.segs, h.metaLt⟩

end TantivyModel.Writer
