import TantivyModel.Proofs.MergeSteps3
/-! any number of merges in flight: the invariant of `SysM` and its preservation -/
namespace TantivyModel.Merge

def isPlain : Ev → Bool
  | .startMerge _ => false
  | .startMergeExplicit _ => false
  | .endMerge => false
  | _ => true

/-- plain events do not look at the merge in flight -/
theorem step_plain_view (s : SysM) (o : Option Running) (ev : Ev) (h : isPlain ev = true) :
    (s.view o).step ev = ⟨((s.view none).step ev).st, o, ((s.view none).step ev).stamp,
      ((s.view none).step ev).nextId⟩ := by
  cases ev <;> first | rfl | (simp [isPlain] at h)

theorem step_plain_running (s : Sys) (ev : Ev) (h : isPlain ev = true) : (s.step ev).running = s.running := by
  cases ev <;> first | rfl | (simp [isPlain] at h)

/-- the invariant is monotone in the stamper and the id source -/
theorem inv_bump (s : Sys) (hI : Inv s) (d : Nat) :
    Inv { s with stamp := s.stamp + d, nextId := s.nextId + 1 } :=
  { ops_lt := fun op hop => by have := hI.ops_lt op hop; show op.opstamp < s.stamp + d; omega,
    c_lt := by have := hI.c_lt; show s.st.committedOpstamp < s.stamp + d; omega,
    ops_ne := hI.ops_ne,
    wf := fun e he => by obtain ⟨h1, h2, h3⟩ := hI.wf e he; exact ⟨h1, h2, Nat.lt_succ_of_lt h3⟩,
    pwf := fun e he => by obtain ⟨h1, h3⟩ := hI.pwf e he; exact ⟨h1, Nat.lt_succ_of_lt h3⟩,
    comD1 := hI.comD1, comD2 := hI.comD2, pubE := hI.pubE, ids := hI.ids, pids := hI.pids,
    repoch := hI.repoch,
    run := fun r hr hep => by
      have h := hI.run r hr hep
      exact { srcs_ne := h.srcs_ne, srcs_lt := fun id hid => Nat.lt_succ_of_lt (h.srcs_lt id hid),
              mwf := fun m hm => by
                obtain ⟨h1, h2, h3, h4⟩ := h.mwf m hm
                exact ⟨h1, h2, Nat.lt_succ_of_lt h3, h4⟩,
              pendAll := h.pendAll, pubC := h.pubC } }

theorem bool_false_of_not_true {b : Bool} (h : ¬ b = true) : b = false := by
  cases b <;> simp_all

theorem startMerge_unc (s : Sys) (ids : List Nat) (hnone : s.running = none) (hnil : ids ≠ [])
    (hu : containsAll s.st.uncommitted ids = true) :
    s.step (.startMerge ids) =
      { s with
        running := some ⟨ids, mergeEntries s.st.queue (s.st.uncommitted.filter (inSources ids))
          (mergeTarget false s.st.committedOpstamp s.stamp) s.nextId, s.st.epoch⟩,
        stamp := s.stamp + 1, nextId := s.nextId + 1 } := by
  simp [Sys.step, hnone, hnil, hu]

theorem startMerge_com (s : Sys) (ids : List Nat) (hnone : s.running = none) (hnil : ids ≠ [])
    (hu : containsAll s.st.uncommitted ids = false) (hc : containsAll s.st.committed ids = true) :
    s.step (.startMerge ids) =
      { s with
        running := some ⟨ids, mergeEntries s.st.queue (s.st.committed.filter (inSources ids))
          (mergeTarget true s.st.committedOpstamp s.stamp) s.nextId, s.st.epoch⟩,
        nextId := s.nextId + 1 } := by
  simp [Sys.step, hnone, hnil, hu, hc]

theorem startMerge_noop (s : Sys) (ids : List Nat) (hnone : s.running = none)
    (h : ids = [] ∨ (containsAll s.st.uncommitted ids = false ∧ containsAll s.st.committed ids = false)) :
    s.step (.startMerge ids) = s := by
  rcases h with h | ⟨hu, hc⟩
  · simp [Sys.step, hnone, h]
  · by_cases hnil : ids = []
    · simp [Sys.step, hnone, hnil]
    · simp [Sys.step, hnone, hnil, hu, hc]

/-- what `startMerge` does when it starts a merge (no merge in flight before) -/
theorem startMerge_shape (s : Sys) (ids : List Nat) (hnone : s.running = none) (r0 : Running)
    (h : (s.step (.startMerge ids)).running = some r0) :
    (s.step (.startMerge ids)).st = s.st ∧ (s.step (.startMerge ids)).nextId = s.nextId + 1 ∧
    (∃ d, (s.step (.startMerge ids)).stamp = s.stamp + d) ∧
    r0.sources = ids ∧ ids ≠ [] ∧ containsAll (s.st.uncommitted ++ s.st.committed) ids = true ∧
    r0.epoch = s.st.epoch ∧ ∀ m ∈ r0.merged.toList, m.segId = s.nextId := by
  by_cases hnil : ids = []
  · rw [startMerge_noop s ids hnone (Or.inl hnil), hnone] at h; cases h
  · by_cases hu : containsAll s.st.uncommitted ids = true
    · rw [startMerge_unc s ids hnone hnil hu] at h ⊢
      simp only [Option.some.injEq] at h
      subst h
      refine ⟨rfl, rfl, ⟨1, rfl⟩, rfl, hnil,
        containsAll_mono _ _ _ (fun e he => List.mem_append_left _ he) hu, rfl, ?_⟩
      intro m hm
      simp only [Option.mem_toList] at hm
      exact (mergeEntries_some_props _ _ _ _ m hm).1
    · have hu' := bool_false_of_not_true hu
      by_cases hc : containsAll s.st.committed ids = true
      · rw [startMerge_com s ids hnone hnil hu' hc] at h ⊢
        simp only [Option.some.injEq] at h
        subst h
        refine ⟨rfl, rfl, ⟨0, rfl⟩, rfl, hnil,
          containsAll_mono _ _ _ (fun e he => List.mem_append_right _ he) hc, rfl, ?_⟩
        intro m hm
        simp only [Option.mem_toList] at hm
        exact (mergeEntries_some_props _ _ _ _ m hm).1
      · rw [startMerge_noop s ids hnone (Or.inr ⟨hu', bool_false_of_not_true hc⟩), hnone] at h
        cases h

theorem startMerge_none_eq (s : Sys) (ids : List Nat) (hnone : s.running = none)
    (h : (s.step (.startMerge ids)).running = none) : s.step (.startMerge ids) = s := by
  by_cases hnil : ids = []
  · exact startMerge_noop s ids hnone (Or.inl hnil)
  · by_cases hu : containsAll s.st.uncommitted ids = true
    · rw [startMerge_unc s ids hnone hnil hu] at h; cases h
    · have hu' := bool_false_of_not_true hu
      by_cases hc : containsAll s.st.committed ids = true
      · rw [startMerge_com s ids hnone hnil hu' hc] at h; cases h
      · exact startMerge_noop s ids hnone (Or.inr ⟨hu', bool_false_of_not_true hc⟩)

theorem startMergeExplicit_unc (s : Sys) (ids : List Nat) (hnone : s.running = none) (hnil : ids ≠ [])
    (hu : containsAll s.st.uncommitted ids = true) :
    s.step (.startMergeExplicit ids) =
      { s with
        running := some ⟨ids, mergeEntries s.st.queue (s.st.uncommitted.filter (inSources ids))
          s.st.committedOpstamp s.nextId, s.st.epoch⟩,
        nextId := s.nextId + 1 } := by
  simp [Sys.step, hnone, hnil, hu]

theorem startMergeExplicit_com (s : Sys) (ids : List Nat) (hnone : s.running = none) (hnil : ids ≠ [])
    (hu : containsAll s.st.uncommitted ids = false) (hc : containsAll s.st.committed ids = true) :
    s.step (.startMergeExplicit ids) =
      { s with
        running := some ⟨ids, mergeEntries s.st.queue (s.st.committed.filter (inSources ids))
          s.st.committedOpstamp s.nextId, s.st.epoch⟩,
        nextId := s.nextId + 1 } := by
  simp [Sys.step, hnone, hnil, hu, hc]

theorem startMergeExplicit_noop (s : Sys) (ids : List Nat) (hnone : s.running = none)
    (h : ids = [] ∨ (containsAll s.st.uncommitted ids = false ∧ containsAll s.st.committed ids = false)) :
    s.step (.startMergeExplicit ids) = s := by
  rcases h with h | ⟨hu, hc⟩
  · simp [Sys.step, hnone, h]
  · by_cases hnil : ids = []
    · simp [Sys.step, hnone, hnil]
    · simp [Sys.step, hnone, hnil, hu, hc]

/-- what an explicit merge start does (no merge in flight before) -/
theorem startMergeExplicit_shape (s : Sys) (ids : List Nat) (hnone : s.running = none) (r0 : Running)
    (h : (s.step (.startMergeExplicit ids)).running = some r0) :
    (s.step (.startMergeExplicit ids)).st = s.st ∧ (s.step (.startMergeExplicit ids)).nextId = s.nextId + 1 ∧
    (∃ d, (s.step (.startMergeExplicit ids)).stamp = s.stamp + d) ∧
    r0.sources = ids ∧ ids ≠ [] ∧ containsAll (s.st.uncommitted ++ s.st.committed) ids = true ∧
    r0.epoch = s.st.epoch ∧ ∀ m ∈ r0.merged.toList, m.segId = s.nextId := by
  by_cases hnil : ids = []
  · rw [startMergeExplicit_noop s ids hnone (Or.inl hnil), hnone] at h; cases h
  · by_cases hu : containsAll s.st.uncommitted ids = true
    · rw [startMergeExplicit_unc s ids hnone hnil hu] at h ⊢
      simp only [Option.some.injEq] at h
      subst h
      refine ⟨rfl, rfl, ⟨0, rfl⟩, rfl, hnil,
        containsAll_mono _ _ _ (fun e he => List.mem_append_left _ he) hu, rfl, ?_⟩
      intro m hm
      simp only [Option.mem_toList] at hm
      exact (mergeEntries_some_props _ _ _ _ m hm).1
    · have hu' := bool_false_of_not_true hu
      by_cases hc : containsAll s.st.committed ids = true
      · rw [startMergeExplicit_com s ids hnone hnil hu' hc] at h ⊢
        simp only [Option.some.injEq] at h
        subst h
        refine ⟨rfl, rfl, ⟨0, rfl⟩, rfl, hnil,
          containsAll_mono _ _ _ (fun e he => List.mem_append_right _ he) hc, rfl, ?_⟩
        intro m hm
        simp only [Option.mem_toList] at hm
        exact (mergeEntries_some_props _ _ _ _ m hm).1
      · rw [startMergeExplicit_noop s ids hnone (Or.inr ⟨hu', bool_false_of_not_true hc⟩), hnone] at h
        cases h

theorem startMergeExplicit_none_eq (s : Sys) (ids : List Nat) (hnone : s.running = none)
    (h : (s.step (.startMergeExplicit ids)).running = none) : s.step (.startMergeExplicit ids) = s := by
  by_cases hnil : ids = []
  · exact startMergeExplicit_noop s ids hnone (Or.inl hnil)
  · by_cases hu : containsAll s.st.uncommitted ids = true
    · rw [startMergeExplicit_unc s ids hnone hnil hu] at h; cases h
    · have hu' := bool_false_of_not_true hu
      by_cases hc : containsAll s.st.committed ids = true
      · rw [startMergeExplicit_com s ids hnone hnil hu' hc] at h; cases h
      · exact startMergeExplicit_noop s ids hnone (Or.inr ⟨hu', bool_false_of_not_true hc⟩)

/-! ### a merge survives the end of another merge -/

theorem mem_swapIn (reg : List Entry) (ids : List Nat) (m : Option Entry) (e : Entry)
    (h : e ∈ swapIn reg ids m) : (e ∈ reg ∧ inSources ids e = false) ∨ e ∈ m.toList := by
  rw [swapIn_eq, List.mem_append, List.mem_filter] at h
  rcases h with ⟨h1, h2⟩ | h
  · left
    refine ⟨h1, ?_⟩
    cases hh : inSources ids e with
    | false => rfl
    | true => simp [hh] at h2
  · exact Or.inr h

/-- if every id of `idsj` is found in the swapped register, none of them is a removed source and
the entries selected by `idsj` are the same as before -/
theorem swapIn_other (reg other : List Entry) (idsi idsj : List Nat) (m : Option Entry)
    (hnot : ∀ x ∈ m.toList, x.segId ∉ idsj)
    (hnd : ((reg ++ other).map (·.segId)).Nodup)
    (hci : containsAll reg idsi = true) :
    (containsAll (swapIn reg idsi m ++ other) idsj = true →
        containsAll (reg ++ other) idsj = true ∧ ∀ id ∈ idsj, id ∉ idsi) ∧
    ((∀ id ∈ idsj, id ∉ idsi) →
        (swapIn reg idsi m).filter (inSources idsj) = reg.filter (inSources idsj)) := by
  constructor
  · intro hc
    rw [containsAll_iff] at hc
    have key : ∀ id ∈ idsj, (∃ e ∈ reg ++ other, e.segId = id) ∧ id ∉ idsi := by
      intro id hid
      obtain ⟨e, he, rfl⟩ := hc id hid
      rw [List.mem_append] at he
      rcases he with he | he
      · rcases mem_swapIn _ _ _ _ he with ⟨h1, h2⟩ | h
        · refine ⟨⟨e, List.mem_append_left _ h1, rfl⟩, ?_⟩
          intro hin
          have := (inSources_iff idsi e).2 hin
          rw [h2] at this; cases this
        · exact absurd hid (hnot e h)
      · refine ⟨⟨e, List.mem_append_right _ he, rfl⟩, ?_⟩
        intro hin
        obtain ⟨e', he', heq⟩ := (containsAll_iff reg idsi).1 hci _ hin
        rw [List.map_append, List.nodup_append] at hnd
        exact hnd.2.2 e'.segId (List.mem_map.2 ⟨e', he', rfl⟩) e.segId (List.mem_map.2 ⟨e, he, rfl⟩) heq
    exact ⟨(containsAll_iff _ _).2 (fun id hid => (key id hid).1), fun id hid => (key id hid).2⟩
  · intro hdis
    rw [swapIn_eq, List.filter_append, List.filter_filter]
    have h1 : m.toList.filter (inSources idsj) = [] := by
      rw [List.filter_eq_nil_iff]
      intro x hx hin
      exact hnot x hx ((inSources_iff _ _).1 hin)
    rw [h1, List.append_nil]
    apply List.filter_congr
    intro e _
    cases hj : inSources idsj e with
    | false => simp
    | true =>
      have : inSources idsi e = false := by
        cases hi : inSources idsi e with
        | false => rfl
        | true => exact absurd ((inSources_iff _ _).1 hi) (hdis _ ((inSources_iff _ _).1 hj))
      simp [this]

end TantivyModel.Merge
