import TantivyModel.Model.GC
/-!
Helper lemmas for C10: the in-flight invariant of a collection and its preservation, membership
characterisations of the big-step collection.
-/
namespace TantivyModel.GC
open TantivyModel.Storage

/-- invariant of a GC in flight: what it selected is managed and protected by no live meta -/
def GInv (s : St) : Prop :=
  ∀ l, s.pending = some l → ∀ p ∈ l, s.managed.contains p = true ∧ p ∉ living s

theorem mem_insertP (l : List Path) (p q : Path) : q ∈ insertP l p ↔ q = p ∨ q ∈ l := by
  unfold insertP
  by_cases h : l.contains p = true
  · simp only [h, if_true]
    constructor
    · intro hq; exact Or.inr hq
    · rintro (rfl | hq)
      · simpa using h
      · exact hq
  · have h' : p ∉ l := by simpa using h
    simp [h']

theorem mem_flatten_eraseIdx (ll : List (List Path)) (i : Nat) (p : Path)
    (h : p ∈ (ll.eraseIdx i).flatten) : p ∈ ll.flatten := by
  rw [List.mem_flatten] at *
  obtain ⟨l, hl, hp⟩ := h
  exact ⟨l, List.mem_of_mem_eraseIdx hl, hp⟩

theorem GInv.step {s : St} (h : GInv s) (e : Ev) (hok : okEv s e = true) : GInv (s.step e) := by
  intro l hl p hp
  cases e with
  | track fs =>
    simp only [St.step] at hl
    obtain ⟨hm, hn⟩ := h l hl p hp
    refine ⟨hm, ?_⟩
    intro hliv
    simp only [living, St.step, List.flatten_cons, List.mem_cons, List.mem_append] at hliv
    apply hn
    rcases hliv with h1 | h1 | h1
    · simp [living, h1]
    · simp only [okEv, List.all_eq_true] at hok
      have := hok p h1
      simp only [hm, Bool.not_true, Bool.false_or] at this
      simpa using this
    · simp [living, h1]
  | drop i =>
    simp only [St.step] at hl
    obtain ⟨hm, hn⟩ := h l hl p hp
    refine ⟨hm, ?_⟩
    intro hliv
    apply hn
    simp only [living, St.step, List.mem_cons] at hliv ⊢
    rcases hliv with h1 | h1
    · exact Or.inl h1
    · exact Or.inr (mem_flatten_eraseIdx _ _ _ h1)
  | openWrite q =>
    simp only [St.step] at hl
    obtain ⟨hm, hn⟩ := h l hl p hp
    refine ⟨?_, hn⟩
    simp only [St.step, List.contains_iff_mem, mem_insertP]
    exact Or.inr (by simpa using hm)
  | gcCompute =>
    simp only [St.step, Option.some.injEq] at hl
    subst hl
    simp only [List.mem_filter, Bool.not_eq_true', List.contains_eq_mem, decide_eq_false_iff_not] at hp
    exact ⟨by simpa [St.step] using hp.1, by simpa [living, St.step] using hp.2⟩
  | gcDelete q ok =>
    simp only [St.step] at hl ⊢
    cases hpend : s.pending with
    | none => simp [hpend] at hl
    | some l0 =>
      simp only [hpend] at hl ⊢
      by_cases hc : l0.contains q = true
      · simp only [hc, if_true] at hl ⊢
        cases ok with
        | true =>
          simp only [if_true, Option.some.injEq] at hl ⊢
          subst hl
          have hp0 : p ∈ l0 := (List.mem_filter.mp hp).1
          exact h l0 hpend p hp0
        | false =>
          simp only [Bool.false_eq_true, if_false, Option.some.injEq] at hl ⊢
          subst hl
          have hp0 : p ∈ l0 := (List.mem_filter.mp hp).1
          exact h l0 hpend p hp0
      · simp only [hc, Bool.false_eq_true, if_false] at hl ⊢
        rw [hpend] at hl
        simp only [Option.some.injEq] at hl
        subst hl
        simpa [hpend] using h l0 hpend p hp
  | gcFinish =>
    simp only [St.step] at hl
    cases hpend : s.pending with
    | none => simp [hpend] at hl
    | some l0 =>
      cases l0 with
      | nil => simp [hpend] at hl
      | cons a t =>
        simp only [hpend] at hl
        simp only [Option.some.injEq] at hl
        subst hl
        simpa [St.step, hpend] using h _ hpend p hp

theorem mem_fullGC_deleted (s : St) (fails : List Path) (p : Path) :
    p ∈ (fullGC s fails).deleted ↔ p ∈ s.managed ∧ p ∉ living s ∧ p ∉ fails := by
  simp only [fullGC, List.mem_filter, List.contains_eq_mem, Bool.not_eq_true', decide_eq_false_iff_not,
    Bool.and_eq_true, decide_eq_true_eq]
  grind

theorem mem_fullGC_failed (s : St) (fails : List Path) (p : Path) :
    p ∈ (fullGC s fails).failed ↔ p ∈ s.managed ∧ p ∉ living s ∧ p ∈ fails := by
  simp only [fullGC, List.mem_filter, List.contains_eq_mem, Bool.not_eq_true', decide_eq_false_iff_not,
    Bool.and_eq_true, decide_eq_true_eq]
  grind

theorem mem_fullGC_dir (s : St) (fails : List Path) (p : Path) :
    p ∈ (fullGC s fails).dir ↔ p ∈ s.dir ∧ p ∉ (fullGC s fails).deleted := by
  simp only [fullGC, List.mem_filter, List.contains_eq_mem, Bool.not_eq_true', decide_eq_false_iff_not,
    Bool.and_eq_true, decide_eq_true_eq]

theorem mem_fullGC_managed (s : St) (fails : List Path) (p : Path) :
    p ∈ (fullGC s fails).managed ↔ p ∈ s.managed ∧ p ∉ (fullGC s fails).deleted := by
  simp only [fullGC, List.mem_filter, List.contains_eq_mem, Bool.not_eq_true', decide_eq_false_iff_not,
    Bool.and_eq_true, decide_eq_true_eq]

theorem visible_sync (a : AtomSt) : a.sync.visible = a.visible := by
  simp [AtomSt.sync, AtomSt.visible]

theorem visibleManaged_step (s : Dir) (op : Op) (h : ∀ b, op ≠ .atomicWrite MANAGED b) :
    visibleManaged (s.step op) = visibleManaged s := by
  unfold visibleManaged
  cases op with
  | syncDir => simp [Dir.step, visible_sync]
  | atomicWrite q b =>
    have hq : MANAGED ≠ q := fun e => h b (by rw [e])
    simp [Dir.step, upd_other _ _ _ _ hq]
  | _ => simp [Dir.step]

theorem RInv.step {s : Dir} (h : RInv s) (op : Op) (hok : RegOK s op) : RInv (s.step op) := by
  intro p hp
  by_cases hw : ∃ b, op = .atomicWrite MANAGED b
  · obtain ⟨b, rfl⟩ := hw
    have hv : visibleManaged (s.step (.atomicWrite MANAGED b)) = b.refs := by
      simp [visibleManaged, Dir.step, AtomSt.visible]
    rw [hv]
    have hf : (s.step (.atomicWrite MANAGED b)).file p = s.file p := by simp [Dir.step]
    rw [hf] at hp
    exact hok rfl p hp
  · have hw' : ∀ b, op ≠ .atomicWrite MANAGED b := fun b e => hw ⟨b, e⟩
    rw [visibleManaged_step s op hw']
    cases op with
    | create q =>
      by_cases hq : p = q
      · subst hq; exact hok
      · apply h; simpa [Dir.step, upd_other _ _ _ _ hq] using hp
    | write q n =>
      by_cases hq : p = q
      · subst hq; apply h
        simpa [Dir.step, FileSt.mayPresent] using hp
      · apply h; simpa [Dir.step, upd_other _ _ _ _ hq] using hp
    | flush q =>
      by_cases hq : p = q
      · subst hq; apply h
        simpa [Dir.step, FileSt.mayPresent] using hp
      · apply h; simpa [Dir.step, upd_other _ _ _ _ hq] using hp
    | terminate q =>
      by_cases hq : p = q
      · subst hq; apply h
        simpa [Dir.step, FileSt.mayPresent] using hp
      · apply h; simpa [Dir.step, upd_other _ _ _ _ hq] using hp
    | syncDir =>
      apply h
      simp only [Dir.step, FileSt.sync, FileSt.mayPresent] at hp
      simp only [FileSt.mayPresent]
      cases hvis : (s.file p).vis <;> simp [hvis] at hp ⊢
    | atomicWrite q b => apply h; simpa [Dir.step] using hp
    | delete q =>
      by_cases hq : p = q
      · subst hq; exact h p hok
      · apply h; simpa [Dir.step, upd_other _ _ _ _ hq] using hp
    | ack c => apply h; simpa [Dir.step] using hp

theorem RInv.run {s : Dir} (h : RInv s) (t : List Op) (hd : RegDisc s t) : RInv (s.run t) := by
  induction t generalizing s with
  | nil => exact h
  | cons op t ih =>
    simp only [Dir.run, List.foldl_cons]
    exact ih (h.step op hd.1) hd.2

/-! ## fine-grained collection and reader: invariant and preservation -/

structure FInv (s : FSt) : Prop where
  g : GInv s.base
  snapJ : ∀ L, s.snap = some L → s.gcLocked = true →
    ∀ p, s.base.managed.contains p = true → p ∈ living s.base → p ∈ L
  metaLive : ∀ p ∈ s.metaFiles, p ∈ living s.base ∧ p ∈ s.base.dir
  rd : ∀ F, s.rlist = some F → ∀ p ∈ F, p ∈ s.base.dir ∧ (∀ l, s.base.pending = some l → p ∉ l)
  rlNone : s.rdLocked = false → s.rlist = none
  excl : s.gcLocked = true → s.rdLocked = false

theorem living_track (s : St) (fs : List Path) (p : Path) :
    p ∈ living (s.step (.track fs)) ↔ p ∈ fs ∨ p ∈ living s := by
  simp only [living, St.step, List.flatten_cons, List.mem_cons, List.mem_append]
  constructor
  · rintro (h | h | h)
    · exact Or.inr (Or.inl h)
    · exact Or.inl h
    · exact Or.inr (Or.inr h)
  · rintro (h | h | h)
    · exact Or.inr (Or.inl h)
    · exact Or.inl h
    · exact Or.inr (Or.inr h)

theorem living_drop (s : St) (i : Nat) (p : Path) (h : p ∈ living (s.step (.drop i))) : p ∈ living s := by
  simp only [living, St.step, List.mem_cons] at h ⊢
  rcases h with h | h
  · exact Or.inl h
  · exact Or.inr (mem_flatten_eraseIdx _ _ _ h)

theorem gcDelete_dir (s : St) (q : Path) (ok : Bool) (p : Path) (hp : p ∈ s.dir)
    (hq : ∀ l, s.pending = some l → q ∈ l → p ≠ q) : p ∈ (s.step (.gcDelete q ok)).dir := by
  simp only [St.step]
  cases hpend : s.pending with
  | none => simpa using hp
  | some l =>
    simp only []
    by_cases hc : q ∈ l
    · have hne := hq l hpend hc
      cases ok with
      | true => simp [hc, hp, hne]
      | false => simp [hc, hp]
    · simp [hc, hp]

theorem gcDelete_pending (s : St) (q : Path) (ok : Bool) (l' : List Path)
    (h : (s.step (.gcDelete q ok)).pending = some l') : ∃ l, s.pending = some l ∧ ∀ p ∈ l', p ∈ l := by
  simp only [St.step] at h
  cases hpend : s.pending with
  | none => simp [hpend] at h
  | some l =>
    simp only [hpend] at h
    refine ⟨l, rfl, ?_⟩
    by_cases hc : l.contains q = true
    · cases ok with
      | true =>
        simp only [hc, if_true, Option.some.injEq] at h
        subst h
        intro p hp; exact (List.mem_filter.mp hp).1
      | false =>
        simp only [hc, if_true, Bool.false_eq_true, if_false, Option.some.injEq] at h
        subst h
        intro p hp; exact (List.mem_filter.mp hp).1
    · simp only [hc, Bool.false_eq_true, if_false] at h
      rw [hpend] at h
      simp only [Option.some.injEq] at h
      subst h
      intro p hp; exact hp

theorem gcFinish_dir (s : St) : (s.step .gcFinish).dir = s.dir := by
  simp only [St.step]
  cases s.pending with
  | none => rfl
  | some l => cases l <;> rfl

theorem gcFinish_pending (s : St) (l' : List Path) (h : (s.step .gcFinish).pending = some l') :
    s.pending = some l' := by
  simp only [St.step] at h
  cases hpend : s.pending with
  | none => simp [hpend] at h
  | some l =>
    cases l with
    | nil => simp [hpend] at h
    | cons a t => simpa [hpend] using h

theorem living_gcFinish (s : St) : living (s.step .gcFinish) = living s := by
  simp only [St.step, living]
  cases s.pending with
  | none => rfl
  | some l => cases l <;> rfl

theorem living_gcDelete (s : St) (q : Path) (ok : Bool) : living (s.step (.gcDelete q ok)) = living s := by
  simp only [St.step, living]
  cases s.pending with
  | none => rfl
  | some l =>
    simp only []
    by_cases hc : q ∈ l
    · cases ok <;> simp [hc]
    · simp [hc]


theorem FInv.step {s : FSt} (h : FInv s) (e : FEv) (hok : okF true true s e = true) : FInv (s.step e) := by
  cases e with
  | track fs =>
    simp only [okF] at hok
    refine ⟨h.g.step _ hok, ?_, ?_, h.rd, h.rlNone, h.excl⟩
    · intro L hL hl p hm hp
      rcases (living_track s.base fs p).mp hp with hf | hlv
      · simp only [okEv, List.all_eq_true] at hok
        have := hok p hf
        simp only [show (s.base.managed.contains p) = true from hm, Bool.not_true, Bool.false_or] at this
        exact h.snapJ L hL hl p hm (by simpa using this)
      · exact h.snapJ L hL hl p hm hlv
    · intro p hp
      exact ⟨(living_track s.base fs p).mpr (Or.inr (h.metaLive p hp).1), (h.metaLive p hp).2⟩
  | drop i =>
    simp only [okF, List.all_eq_true] at hok
    refine ⟨h.g.step (.drop i) rfl, ?_, ?_, h.rd, h.rlNone, h.excl⟩
    · intro L hL hl p hm hp
      exact h.snapJ L hL hl p hm (living_drop s.base i p hp)
    · intro p hp
      exact ⟨by simpa [FSt.step] using hok p hp, (h.metaLive p hp).2⟩
  | openWrite q =>
    simp only [okF, Bool.and_eq_true, Bool.not_eq_true'] at hok
    refine ⟨h.g.step _ hok.1, ?_, ?_, ?_, h.rlNone, h.excl⟩
    · intro L _ hl
      simp only [FSt.step] at hl
      rw [hok.2] at hl
      cases hl
    · intro p hp
      refine ⟨(h.metaLive p hp).1, ?_⟩
      simp only [FSt.step, St.step, mem_insertP]
      exact Or.inr (h.metaLive p hp).2
    · intro F hF p hp
      obtain ⟨h1, h2⟩ := h.rd F hF p hp
      refine ⟨?_, h2⟩
      simp only [FSt.step, St.step, mem_insertP]
      exact Or.inr h1
  | publish fs =>
    simp only [okF, List.all_eq_true, Bool.and_eq_true] at hok
    refine ⟨h.g, h.snapJ, ?_, h.rd, h.rlNone, h.excl⟩
    intro p hp
    have := hok p hp
    exact ⟨by simpa [FSt.step] using this.1, by simpa [FSt.step] using this.2⟩
  | gLock =>
    simp only [okF, Bool.and_eq_true, Bool.not_eq_true', Option.isNone_iff_eq_none, Bool.not_true,
      Bool.false_or] at hok
    refine ⟨h.g, ?_, h.metaLive, h.rd, h.rlNone, fun _ => hok.1.1.2⟩
    intro L hL
    simp only [FSt.step] at hL
    rw [hok.2] at hL
    cases hL
  | gLiving =>
    refine ⟨h.g, ?_, h.metaLive, h.rd, h.rlNone, h.excl⟩
    intro L hL _ p _ hp
    simp only [FSt.step, Option.some.injEq] at hL
    subst hL
    exact hp
  | gSelect =>
    simp only [okF, Bool.and_eq_true, Option.isNone_iff_eq_none] at hok
    obtain ⟨⟨hlock, hsnap⟩, _⟩ := hok
    obtain ⟨L, hL⟩ := Option.isSome_iff_exists.mp hsnap
    refine ⟨?_, ?_, h.metaLive, ?_, h.rlNone, h.excl⟩
    · intro l hl p hp
      simp only [FSt.step, Option.some.injEq] at hl
      subst hl
      simp only [hL, Option.getD_some, List.mem_filter, Bool.not_eq_true', List.contains_eq_mem,
        decide_eq_false_iff_not] at hp
      have hm : s.base.managed.contains p = true := by simpa using hp.1
      refine ⟨by simpa [FSt.step] using hp.1, ?_⟩
      intro hlv
      exact hp.2 (h.snapJ L hL hlock p hm (by simpa [FSt.step, living] using hlv))
    · intro L' hL' hl p hm hp
      exact h.snapJ L' (by simpa [FSt.step] using hL') hlock p (by simpa [FSt.step] using hm)
        (by simpa [FSt.step, living] using hp)
    · intro F hF
      have hr := h.excl hlock
      have := h.rlNone hr
      simp only [FSt.step] at hF
      rw [this] at hF
      cases hF
  | gUnlock =>
    refine ⟨h.g, ?_, h.metaLive, h.rd, h.rlNone, ?_⟩
    · intro L hL
      simp [FSt.step] at hL
    · intro hl
      simp [FSt.step] at hl
  | gDelete q ok =>
    simp only [okF, Bool.and_eq_true, Bool.not_eq_true'] at hok
    have hq : ∀ l, s.base.pending = some l → q ∈ l → q ∉ living s.base :=
      fun l hl hql => (h.g l hl q hql).2
    refine ⟨h.g.step _ hok.2, ?_, ?_, ?_, h.rlNone, h.excl⟩
    · intro L _ hl
      simp only [FSt.step] at hl
      rw [hok.1] at hl
      cases hl
    · intro p hp
      obtain ⟨h1, h2⟩ := h.metaLive p hp
      refine ⟨by simpa [FSt.step, living_gcDelete] using h1, ?_⟩
      apply gcDelete_dir _ _ _ _ h2
      intro l hl hql hpq
      exact hq l hl hql (hpq ▸ h1)
    · intro F hF p hp
      obtain ⟨h1, h2⟩ := h.rd F hF p hp
      refine ⟨?_, ?_⟩
      · apply gcDelete_dir _ _ _ _ h1
        intro l hl hql hpq
        exact h2 l hl (hpq ▸ hql)
      · intro l' hl' hpl
        obtain ⟨l, hl, hsub⟩ := gcDelete_pending _ _ _ _ hl'
        exact h2 l hl (hsub p hpl)
  | gFinish =>
    simp only [okF, Bool.not_eq_true'] at hok
    refine ⟨h.g.step .gcFinish rfl, ?_, ?_, ?_, h.rlNone, h.excl⟩
    · intro L _ hl
      simp only [FSt.step] at hl
      rw [hok] at hl
      cases hl
    · intro p hp
      obtain ⟨h1, h2⟩ := h.metaLive p hp
      exact ⟨by simpa [FSt.step, living_gcFinish] using h1, by simpa [FSt.step, gcFinish_dir] using h2⟩
    · intro F hF p hp
      obtain ⟨h1, h2⟩ := h.rd F hF p hp
      refine ⟨by simpa [FSt.step, gcFinish_dir] using h1, ?_⟩
      intro l' hl'
      exact h2 l' (gcFinish_pending _ _ hl')
  | rLock =>
    simp only [okF, Bool.and_eq_true, Bool.not_eq_true'] at hok
    refine ⟨h.g, h.snapJ, h.metaLive, h.rd, ?_, ?_⟩
    · intro hl
      simp [FSt.step] at hl
    · intro hl
      simp only [FSt.step] at hl
      rw [hok.1] at hl
      cases hl
  | rList =>
    refine ⟨h.g, h.snapJ, h.metaLive, ?_, ?_, h.excl⟩
    · intro F hF p hp
      simp only [FSt.step, Option.some.injEq] at hF
      subst hF
      obtain ⟨h1, h2⟩ := h.metaLive p hp
      refine ⟨h2, ?_⟩
      intro l hl hpl
      exact (h.g l hl p hpl).2 h1
    · intro hl
      simp only [okF, Bool.not_true, Bool.false_or] at hok
      simp only [FSt.step] at hl
      rw [hok] at hl
      cases hl
  | rOpen q => exact h
  | rUnlock =>
    refine ⟨h.g, h.snapJ, h.metaLive, ?_, ?_, ?_⟩
    · intro F hF
      simp [FSt.step] at hF
    · intro _
      simp [FSt.step]
    · intro _
      simp [FSt.step]

theorem FInv.safe {s : FSt} (h : FInv s) (evs : List FEv) (hd : FDisc true true s evs = true) :
    FSafe s evs := by
  induction evs generalizing s with
  | nil => trivial
  | cons e es ih =>
    simp only [FDisc, Bool.and_eq_true] at hd
    refine ⟨?_, ih (h.step e hd.1) hd.2⟩
    cases e with
    | gDelete p ok =>
      simp only [okF, Bool.and_eq_true, okEv] at hd
      cases hpend : s.base.pending with
      | none => simp [hpend] at hd
      | some l =>
        simp only [hpend] at hd
        exact (h.g l hpend p (by simpa using hd.1.2)).2
    | rOpen p =>
      simp only [okF, Bool.and_eq_true] at hd
      cases hr : s.rlist with
      | none => simp [hr] at hd
      | some F =>
        simp only [hr, Option.getD_some] at hd
        exact (h.rd F hr p (by simpa using hd.1.2)).1
    | _ => trivial

theorem lookupD_of_mem_nodup {α : Type} (l : List (Path × Option α)) (hn : (l.map Prod.fst).Nodup)
    (p : Path) (v : Option α) (h : (p, v) ∈ l) : lookupD l p = v := by
  induction l with
  | nil => cases h
  | cons e t ih =>
    obtain ⟨q, w⟩ := e
    simp only [List.map_cons, List.nodup_cons] at hn
    unfold lookupD
    simp only [List.lookup_cons]
    rcases List.mem_cons.mp h with he | ht
    · cases he
      simp
    · have hne : p ≠ q := by
        intro e
        apply hn.1
        rw [← e]
        exact List.mem_map.mpr ⟨(p, v), ht, rfl⟩
      have : (p == q) = false := by simpa using hne
      simp only [this]
      exact ih hn.2 ht

/-! ## the delete loop: small steps vs `fullGC` -/

theorem mem_dedup (l : List Path) (p : Path) : p ∈ dedup l ↔ p ∈ l := by
  induction l with
  | nil => simp [dedup]
  | cons a t ih =>
    simp only [dedup, List.mem_cons, List.mem_filter, bne_iff_ne, ne_eq, ih]
    by_cases h : p = a <;> simp [h]

theorem nodup_dedup (l : List Path) : (dedup l).Nodup := by
  induction l with
  | nil => simp [dedup]
  | cons a t ih =>
    simp only [dedup, List.nodup_cons, List.mem_filter, bne_iff_ne, ne_eq, not_and, Decidable.not_not]
    exact ⟨fun _ => trivial, ih.filter _⟩

/-- state of the delete loop after the paths in `done` have been processed -/
structure LoopInv (s0 : St) (T fails done : List Path) (st : St) : Prop where
  pending : st.pending = some (T.filter (fun p => !done.contains p))
  managed : st.managed = s0.managed
  live : st.live = s0.live
  dir : ∀ p, p ∈ st.dir ↔ p ∈ s0.dir ∧ ¬(p ∈ done ∧ p ∈ T ∧ p ∉ fails)
  deleted : ∀ p, p ∈ st.deleted ↔ p ∈ done ∧ p ∈ T ∧ p ∉ fails

theorem filter_filter_ne (T done : List Path) (q : Path) :
    (T.filter (fun p => !done.contains p)).filter (· != q) = T.filter (fun p => !(done ++ [q]).contains p) := by
  rw [List.filter_filter]
  apply List.filter_congr
  intro p _
  by_cases h1 : p = q <;> by_cases h2 : p ∈ done <;> simp [h1, h2]

theorem LoopInv.step {s0 : St} {T fails done : List Path} {st : St} (h : LoopInv s0 T fails done st)
    (q : Path) (hq : q ∈ T) (hnd : q ∉ done) :
    LoopInv s0 T fails (done ++ [q]) (st.step (.gcDelete q (!fails.contains q))) := by
  have hmem : q ∈ T.filter (fun p => !done.contains p) := by
    simp [List.mem_filter, hq, hnd]
  have hc : (T.filter (fun p => !done.contains p)).contains q = true := by simpa using hmem
  by_cases hf : q ∈ fails
  · have hfb : (!fails.contains q) = false := by simp [hf]
    refine ⟨?_, ?_, ?_, ?_, ?_⟩
    · simp only [St.step, h.pending, hc, if_true, hfb, Bool.false_eq_true, if_false, filter_filter_ne]
    · simp only [St.step, h.pending, hc, if_true, hfb, Bool.false_eq_true, if_false]; exact h.managed
    · simp only [St.step, h.pending, hc, if_true, hfb, Bool.false_eq_true, if_false]; exact h.live
    · intro p
      simp only [St.step, h.pending, hc, if_true, hfb, Bool.false_eq_true, if_false]
      rw [h.dir p]
      simp only [List.mem_append, List.mem_singleton]
      constructor
      · rintro ⟨h1, h2⟩
        refine ⟨h1, ?_⟩
        rintro ⟨hd | hd, hT, hnf⟩
        · exact h2 ⟨hd, hT, hnf⟩
        · subst hd; exact hnf hf
      · rintro ⟨h1, h2⟩
        exact ⟨h1, fun ⟨hd, hT, hnf⟩ => h2 ⟨Or.inl hd, hT, hnf⟩⟩
    · intro p
      simp only [St.step, h.pending, hc, if_true, hfb, Bool.false_eq_true, if_false]
      rw [h.deleted p]
      simp only [List.mem_append, List.mem_singleton]
      constructor
      · rintro ⟨hd, hT, hnf⟩; exact ⟨Or.inl hd, hT, hnf⟩
      · rintro ⟨hd | hd, hT, hnf⟩
        · exact ⟨hd, hT, hnf⟩
        · subst hd; exact absurd hf hnf
  · have hfb : (!fails.contains q) = true := by simp [hf]
    refine ⟨?_, ?_, ?_, ?_, ?_⟩
    · simp only [St.step, h.pending, hc, if_true, hfb, filter_filter_ne]
    · simp only [St.step, h.pending, hc, if_true, hfb]; exact h.managed
    · simp only [St.step, h.pending, hc, if_true, hfb]; exact h.live
    · intro p
      simp only [St.step, h.pending, hc, if_true, hfb, List.mem_filter, bne_iff_ne, ne_eq]
      rw [h.dir p]
      simp only [List.mem_append, List.mem_singleton]
      constructor
      · rintro ⟨⟨h1, h2⟩, hne⟩
        refine ⟨h1, ?_⟩
        rintro ⟨hd | hd, hT, hnf⟩
        · exact h2 ⟨hd, hT, hnf⟩
        · exact hne hd
      · rintro ⟨h1, h2⟩
        refine ⟨⟨h1, fun ⟨hd, hT, hnf⟩ => h2 ⟨Or.inl hd, hT, hnf⟩⟩, ?_⟩
        intro hpq
        subst hpq
        exact h2 ⟨Or.inr rfl, hq, hf⟩
    · intro p
      simp only [St.step, h.pending, hc, if_true, hfb, List.mem_cons]
      rw [h.deleted p]
      simp only [List.mem_append, List.mem_singleton]
      constructor
      · rintro (hpq | ⟨hd, hT, hnf⟩)
        · subst hpq; exact ⟨Or.inr rfl, hq, hf⟩
        · exact ⟨Or.inl hd, hT, hnf⟩
      · rintro ⟨hd | hd, hT, hnf⟩
        · exact Or.inr ⟨hd, hT, hnf⟩
        · exact Or.inl hd

theorem LoopInv.run {s0 : St} {T fails : List Path} (D : List Path) (hD : ∀ q ∈ D, q ∈ T) (hn : D.Nodup)
    (done : List Path) (hdis : ∀ q ∈ D, q ∉ done) (st : St) (h : LoopInv s0 T fails done st) :
    LoopInv s0 T fails (done ++ D) (st.run (D.map (fun p => Ev.gcDelete p (!fails.contains p)))) := by
  induction D generalizing done st with
  | nil => simpa [St.run] using h
  | cons q t ih =>
    simp only [List.nodup_cons] at hn
    have h1 := h.step q (hD q (by simp)) (hdis q (by simp))
    have := ih (fun x hx => hD x (by simp [hx])) hn.2 (done ++ [q])
      (by
        intro x hx hxd
        rcases List.mem_append.mp hxd with hxd | hxd
        · exact hdis x (by simp [hx]) hxd
        · simp only [List.mem_singleton] at hxd
          subst hxd
          exact hn.1 hx)
      _ h1
    simpa [St.run, List.append_assoc] using this

theorem MInv.step {s : Dir} (h : MInv s) (op : Op) (hok : MetaRegOK s op) : MInv (s.step op) := by
  have hMM : MANAGED ≠ META := by decide
  cases op with
  | atomicWrite q b =>
    obtain ⟨h1, h2⟩ := hok
    by_cases hq : q = MANAGED
    · subst hq
      intro hex
      have hv : visibleManaged (s.step (.atomicWrite MANAGED b)) = b.refs := by
        simp [visibleManaged, Dir.step, AtomSt.visible]
      rw [hv]
      apply h2 rfl
      apply h
      simpa [Dir.step, upd_other _ _ _ _ (Ne.symm hMM)] using hex
    · intro _
      rw [visibleManaged_step s _ (fun b' e => hq (by cases e; rfl))]
      by_cases hm : q = META
      · exact h1 hm
      · apply h
        rename_i hex
        have hm' : META ≠ q := fun e => hm e.symm
        simpa [Dir.step, upd_other _ _ _ _ hm'] using hex
  | syncDir =>
    intro hex
    rw [visibleManaged_step s _ (fun b e => by cases e)]
    apply h
    simp only [Dir.step, AtomSt.sync] at hex
    rcases hex with hd | hp
    · cases hdur : (s.atom META).dur with
      | some x => exact Or.inl (by simp)
      | none =>
        right
        intro hpe
        apply hd
        simp [AtomSt.visible, hpe, hdur]
    · exact absurd rfl hp
  | create q => intro hex; rw [visibleManaged_step s _ (fun b e => by cases e)]; exact h (by simpa [Dir.step] using hex)
  | write q n => intro hex; rw [visibleManaged_step s _ (fun b e => by cases e)]; exact h (by simpa [Dir.step] using hex)
  | flush q => intro hex; rw [visibleManaged_step s _ (fun b e => by cases e)]; exact h (by simpa [Dir.step] using hex)
  | terminate q => intro hex; rw [visibleManaged_step s _ (fun b e => by cases e)]; exact h (by simpa [Dir.step] using hex)
  | delete q => intro hex; rw [visibleManaged_step s _ (fun b e => by cases e)]; exact h (by simpa [Dir.step] using hex)
  | ack c => intro hex; rw [visibleManaged_step s _ (fun b e => by cases e)]; exact h (by simpa [Dir.step] using hex)

theorem MInv.run {s : Dir} (h : MInv s) (t : List Op) (hd : MetaRegDisc s t) : MInv (s.run t) := by
  induction t generalizing s with
  | nil => exact h
  | cons op t ih =>
    simp only [Dir.run, List.foldl_cons]
    exact ih (h.step op hd.1) hd.2

theorem metaRegDisc_take (s : Dir) (t : List Op) (k : Nat) (h : MetaRegDisc s t) : MetaRegDisc s (t.take k) := by
  induction t generalizing s k with
  | nil => simpa using h
  | cons op t ih =>
    cases k with
    | zero => trivial
    | succ k => exact ⟨h.1, ih _ k h.2⟩

end TantivyModel.GC
