import TantivyModel.Model.GC
/-!
Helper lemmas for C10: the in-flight invariant of a collection and its preservation, membership
characterisations of the big-step collection.
-/
namespace TantivyModel.GC
open TantivyModel.Storage

/-- invariant of a GC in flight: what it selected is managed and protected by no live meta -/
def GInv (s : St) : Prop :=
  ∀ l, s.pending = some l → ∀ p ∈ l, s.managed.contains p = true ∧ p ∉ living s

theorem mem_insertP (l : List Path) (p q : Path) : q ∈ insertP l p ↔ q = p ∨ q ∈ l := by
  unfold insertP
  by_cases h : l.contains p = true
  · simp only [h, if_true]
    constructor
    · intro hq; exact Or.inr hq
    · rintro (rfl | hq)
      · simpa using h
      · exact hq
  · have h' : p ∉ l := by simpa using h
    simp [h']

theorem mem_flatten_eraseIdx (ll : List (List Path)) (i : Nat) (p : Path)
    (h : p ∈ (ll.eraseIdx i).flatten) : p ∈ ll.flatten := by
  rw [List.mem_flatten] at *
  obtain ⟨l, hl, hp⟩ := h
  exact ⟨l, List.mem_of_mem_eraseIdx hl, hp⟩

theorem GInv.step {s : St} (h : GInv s) (e : Ev) (hok : okEv s e = true) : GInv (s.step e) := by
  intro l hl p hp
  cases e with
  | track fs =>
    simp only [St.step] at hl
    obtain ⟨hm, hn⟩ := h l hl p hp
    refine ⟨hm, ?_⟩
    intro hliv
    simp only [living, St.step, List.flatten_cons, List.mem_cons, List.mem_append] at hliv
    apply hn
    rcases hliv with h1 | h1 | h1
    · simp [living, h1]
    · simp only [okEv, List.all_eq_true] at hok
      have := hok p h1
      simp only [hm, Bool.not_true, Bool.false_or] at this
      simpa using this
    · simp [living, h1]
  | drop i =>
    simp only [St.step] at hl
    obtain ⟨hm, hn⟩ := h l hl p hp
    refine ⟨hm, ?_⟩
    intro hliv
    apply hn
    simp only [living, St.step, List.mem_cons] at hliv ⊢
    rcases hliv with h1 | h1
    · exact Or.inl h1
    · exact Or.inr (mem_flatten_eraseIdx _ _ _ h1)
  | openWrite q =>
    simp only [St.step] at hl
    obtain ⟨hm, hn⟩ := h l hl p hp
    refine ⟨?_, hn⟩
    simp only [St.step, List.contains_iff_mem, mem_insertP]
    exact Or.inr (by simpa using hm)
  | gcCompute =>
    simp only [St.step, Option.some.injEq] at hl
    subst hl
    simp only [List.mem_filter, Bool.not_eq_true', List.contains_eq_mem, decide_eq_false_iff_not] at hp
    exact ⟨by simpa [St.step] using hp.1, by simpa [living, St.step] using hp.2⟩
  | gcDelete q ok =>
    simp only [St.step] at hl ⊢
    cases hpend : s.pending with
    | none => simp [hpend] at hl
    | some l0 =>
      simp only [hpend] at hl ⊢
      by_cases hc : l0.contains q = true
      · simp only [hc, if_true] at hl ⊢
        cases ok with
        | true =>
          simp only [if_true, Option.some.injEq] at hl ⊢
          subst hl
          have hp0 : p ∈ l0 := (List.mem_filter.mp hp).1
          exact h l0 hpend p hp0
        | false =>
          simp only [Bool.false_eq_true, if_false, Option.some.injEq] at hl ⊢
          subst hl
          have hp0 : p ∈ l0 := (List.mem_filter.mp hp).1
          exact h l0 hpend p hp0
      · simp only [hc, Bool.false_eq_true, if_false] at hl ⊢
        rw [hpend] at hl
        simp only [Option.some.injEq] at hl
        subst hl
        simpa [hpend] using h l0 hpend p hp
  | gcFinish =>
    simp only [St.step] at hl
    cases hpend : s.pending with
    | none => simp [hpend] at hl
    | some l0 =>
      cases l0 with
      | nil => simp [hpend] at hl
      | cons a t =>
        simp only [hpend] at hl
        simp only [Option.some.injEq] at hl
        subst hl
        simpa [St.step, hpend] using h _ hpend p hp

theorem mem_fullGC_deleted (s : St) (fails : List Path) (p : Path) :
    p ∈ (fullGC s fails).deleted ↔ p ∈ s.managed ∧ p ∉ living s ∧ p ∉ fails := by
  simp only [fullGC, List.mem_filter, List.contains_eq_mem, Bool.not_eq_true', decide_eq_false_iff_not,
    Bool.and_eq_true, decide_eq_true_eq]
  grind

theorem mem_fullGC_failed (s : St) (fails : List Path) (p : Path) :
    p ∈ (fullGC s fails).failed ↔ p ∈ s.managed ∧ p ∉ living s ∧ p ∈ fails := by
  simp only [fullGC, List.mem_filter, List.contains_eq_mem, Bool.not_eq_true', decide_eq_false_iff_not,
    Bool.and_eq_true, decide_eq_true_eq]
  grind

theorem mem_fullGC_dir (s : St) (fails : List Path) (p : Path) :
    p ∈ (fullGC s fails).dir ↔ p ∈ s.dir ∧ p ∉ (fullGC s fails).deleted := by
  simp only [fullGC, List.mem_filter, List.contains_eq_mem, Bool.not_eq_true', decide_eq_false_iff_not,
    Bool.and_eq_true, decide_eq_true_eq]

theorem mem_fullGC_managed (s : St) (fails : List Path) (p : Path) :
    p ∈ (fullGC s fails).managed ↔ p ∈ s.managed ∧ p ∉ (fullGC s fails).deleted := by
  simp only [fullGC, List.mem_filter, List.contains_eq_mem, Bool.not_eq_true', decide_eq_false_iff_not,
    Bool.and_eq_true, decide_eq_true_eq]

theorem visible_sync (a : AtomSt) : a.sync.visible = a.visible := by
  simp [AtomSt.sync, AtomSt.visible]

theorem visibleManaged_step (s : Dir) (op : Op) (h : ∀ b, op ≠ .atomicWrite MANAGED b) :
    visibleManaged (s.step op) = visibleManaged s := by
  unfold visibleManaged
  cases op with
  | syncDir => simp [Dir.step, visible_sync]
  | atomicWrite q b =>
    have hq : MANAGED ≠ q := fun e => h b (by rw [e])
    simp [Dir.step, upd_other _ _ _ _ hq]
  | _ => simp [Dir.step]

theorem RInv.step {s : Dir} (h : RInv s) (op : Op) (hok : RegOK s op) : RInv (s.step op) := by
  intro p hp
  by_cases hw : ∃ b, op = .atomicWrite MANAGED b
  · obtain ⟨b, rfl⟩ := hw
    have hv : visibleManaged (s.step (.atomicWrite MANAGED b)) = b.refs := by
      simp [visibleManaged, Dir.step, AtomSt.visible]
    rw [hv]
    have hf : (s.step (.atomicWrite MANAGED b)).file p = s.file p := by simp [Dir.step]
    rw [hf] at hp
    exact hok rfl p hp
  · have hw' : ∀ b, op ≠ .atomicWrite MANAGED b := fun b e => hw ⟨b, e⟩
    rw [visibleManaged_step s op hw']
    cases op with
    | create q =>
      by_cases hq : p = q
      · subst hq; exact hok
      · apply h; simpa [Dir.step, upd_other _ _ _ _ hq] using hp
    | write q n =>
      by_cases hq : p = q
      · subst hq; apply h
        simpa [Dir.step, FileSt.mayPresent] using hp
      · apply h; simpa [Dir.step, upd_other _ _ _ _ hq] using hp
    | flush q =>
      by_cases hq : p = q
      · subst hq; apply h
        simpa [Dir.step, FileSt.mayPresent] using hp
      · apply h; simpa [Dir.step, upd_other _ _ _ _ hq] using hp
    | terminate q =>
      by_cases hq : p = q
      · subst hq; apply h
        simpa [Dir.step, FileSt.mayPresent] using hp
      · apply h; simpa [Dir.step, upd_other _ _ _ _ hq] using hp
    | syncDir =>
      apply h
      simp only [Dir.step, FileSt.sync, FileSt.mayPresent] at hp
      simp only [FileSt.mayPresent]
      cases hvis : (s.file p).vis <;> simp [hvis] at hp ⊢
    | atomicWrite q b => apply h; simpa [Dir.step] using hp
    | delete q =>
      by_cases hq : p = q
      · subst hq; exact h p hok
      · apply h; simpa [Dir.step, upd_other _ _ _ _ hq] using hp
    | ack c => apply h; simpa [Dir.step] using hp

theorem RInv.run {s : Dir} (h : RInv s) (t : List Op) (hd : RegDisc s t) : RInv (s.run t) := by
  induction t generalizing s with
  | nil => exact h
  | cons op t ih =>
    simp only [Dir.run, List.foldl_cons]
    exact ih (h.step op hd.1) hd.2

end TantivyModel.GC
