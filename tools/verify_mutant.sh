#!/bin/bash
# verify_mutant.sh <worktree> <A|B>
# Confirms a candidate seeded change: demo passes on clean code, full suite passes with the
# change, demo fails with the change. Prints VERIFIED / REJECTED <reason>. Leaves the tree clean.
WT=$1; X=$2; x=$(echo $X | tr A-Z a-z)
cd $WT || exit 2
export CARGO_NET_OFFLINE=true RUST_BACKTRACE=0
git checkout -q -- . 2>/dev/null
cp out/$X/demo.rs tests/mutant_demo_$x.rs
L=out/$X/verify.log; : > $L
echo "== demo on clean tree" >> $L
if ! cargo test --offline --test mutant_demo_$x >> $L 2>&1; then echo "REJECTED $WT $X demo-fails-on-clean-tree"; exit 1; fi
if ! git apply out/$X/patch.diff; then echo "REJECTED $WT $X patch-does-not-apply"; exit 1; fi
echo "== suite with patch" >> $L
# the demo tests are extra integration tests; exclude them from the suite run
cargo nextest run --workspace --no-fail-fast --offline --test-threads 8 -E 'not (binary(~mutant_demo))' >> $L 2>&1
RC=$?
SUM=$(grep -E "Summary" $L | tail -1)
if [ $RC -ne 0 ]; then git checkout -q -- .; echo "REJECTED $WT $X suite-fails: $SUM"; exit 1; fi
echo "== demo with patch" >> $L
if cargo test --offline --test mutant_demo_$x >> $L 2>&1; then git checkout -q -- .; echo "REJECTED $WT $X demo-passes-with-patch"; exit 1; fi
git checkout -q -- .
echo "VERIFIED $WT $X suite: $SUM"
