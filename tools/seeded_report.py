#!/usr/bin/env python3
"""seeded_report.py <eval logs...>: reads `MUTANT <dir>/<patch> <Cxx> rc=<n>` lines (later files
override earlier ones), writes `detected_by` into seeded/*/meta.json and prints the markdown table
for DESIGN.md §10.5."""
import json, os, re, sys
ROOT = os.path.dirname(os.path.dirname(os.path.abspath(__file__)))
res = {}
how = {}
for path in sys.argv[1:]:
    cur = None
    for line in open(path, errors='replace'):
        m = re.match(r'=== (\S+) ::', line)
        if m:
            cur = m.group(1)
        m = re.match(r'MUTANT (\S+?)/patch\S* (C\d\d) rc=(\d+)', line)
        if m:
            res.setdefault(m.group(1), {})[m.group(2)] = int(m.group(3))
rows = []
for d in sorted(os.listdir(os.path.join(ROOT, 'seeded'))):
    mp = os.path.join(ROOT, 'seeded', d, 'meta.json')
    if not os.path.exists(mp):
        continue
    meta = json.load(open(mp))
    r = res.get(d, {})
    caught = sorted(p for p, rc in r.items() if rc != 0)
    quiet = sorted(p for p, rc in r.items() if rc == 0)
    meta['detected_by'] = {'checks_reporting_violation': caught, 'checks_quiet': quiet,
                           'how': 'tools/mutant_eval.sh on a scratch copy of /repo + patch, quick tier, default seed'}
    json.dump(meta, open(mp, 'w'), indent=1)
    prop = meta.get('breaks_property', d[:3])
    own = 'yes' if prop in caught else ('NO' if prop in quiet else 'not run')
    summary = (meta.get('summary') or '').split('.')[0][:150]
    rows.append(f"| {d} | {prop} | {own} | {', '.join(caught) or '—'} | {', '.join(quiet) or '—'} | {meta.get('needs_to_manifest','')[:160].replace('|','/').replace(chr(10),' ') if isinstance(meta.get('needs_to_manifest'), str) else ''} |")
print('| seeded change | breaks | caught by its own check | checks reporting a violation | other checks run and quiet | needs, to manifest |')
print('|---|---|---|---|---|---|')
print('\n'.join(rows))
