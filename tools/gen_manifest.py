#!/usr/bin/env python3
"""Regenerates /verif/MANIFEST.json from tools/claims/Cxx.json (one file per claimed property) —
keeps the manifest schema-valid while properties are added."""
import json, os
ROOT = os.path.dirname(os.path.dirname(os.path.abspath(__file__)))
claims = {}
cdir = os.path.join(ROOT, 'tools', 'claims')
for fn in sorted(os.listdir(cdir)):
    if fn.endswith('.json'):
        claims[fn[:-5]] = json.load(open(os.path.join(cdir, fn)))
hooks_file = os.path.join(ROOT, 'tools', 'hook_commits.json')
claims['_hook_commits'] = json.load(open(hooks_file)) if os.path.exists(hooks_file) else []
props = [json.loads(l) for l in open(os.path.join(ROOT, 'properties.jsonl'))]
checks, na = [], []
for p in props:
    pid = p['id']
    c = claims.get(pid)
    if c and c.get('claimed'):
        checks.append({
            'property_id': pid,
            'quick_cmd': f'./check {pid} --tier quick',
            'thorough_cmd': f'./check {pid} --tier thorough',
            'evidence_file': f'/verif/evidence/{pid}.json',
            'replay_cmd_template': f'./check {pid} --replay {{path}}',
            'engine': 'lean4-proof+correspondence',
            'level_claimed': {'category': 'proof', 'text': c['text'], 'design_ref': c.get('design_ref', f'DESIGN.md §7 {pid}')},
            'level_note': c['note'],
            'technique': c.get('technique', 'Lean 4 machine-checked refinement/invariant proofs of an executable model + extracted constants + differential correspondence with the real code'),
        })
    else:
        na.append({'property_id': pid, 'reason': (c or {}).get('reason', 'check not built yet in this session (planned, DESIGN.md §9); no claim is made until model, theorems and correspondence exist')})
m = {
    'version': 1,
    'setup_cmd': './check --setup',
    'hooks': {
        'guard': 'tantivy_verif',
        'enable': 'RUSTFLAGS="--cfg tantivy_verif" (set in /verif/harness/.cargo/config.toml; the harness links /repo crates by path)',
        'baseline_off_cmd': 'cd /repo && cargo nextest run --workspace --no-fail-fast --tool-config-file pb:/w/lib/nextest.toml --profile pb --test-threads 8 --offline',
        'source_commits': claims.get('_hook_commits', []),
        'add_only': True,
    },
    'engines': [{
        'name': 'lean4-proof+correspondence',
        'path': '/verif/check',
        'serves_properties': [c['property_id'] for c in checks],
        'kind_free_text': 'Lean 4 model + kernel-checked theorems (lean/), constants regenerated from the Rust sources (extract/), Rust harness linked against /repo driving the compiled model over a line protocol (harness/)',
    }],
    'checks': checks,
    'not_applicable': na,
    'notes': 'All checks rebuild from /repo working tree (extractor + lake + cargo incremental). Known findings: KNOWN_FINDINGS.txt. See DESIGN.md.',
}
json.dump(m, open(os.path.join(ROOT, 'MANIFEST.json'), 'w'), indent=1)
print('claimed', len(checks), 'not claimed', len(na))
