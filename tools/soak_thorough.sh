#!/bin/bash
# soak_thorough.sh "<props>" [parallel]
PROPS="$1"; PAR=${2:-2}
mkdir -p /tmp/soakt; : > /tmp/soakt/summary.txt
run_one() { p=$1; out=/tmp/soakt/$p.txt; /verif/check $p --tier thorough > $out 2>&1; rc=$?; echo "$p rc=$rc $(grep -E "^$p thorough:" $out | tail -1)" >> /tmp/soakt/summary.txt; }
export -f run_one
for p in $PROPS; do echo $p; done | xargs -P $PAR -n 1 bash -c 'run_one "$0"'
echo DONE >> /tmp/soakt/summary.txt
