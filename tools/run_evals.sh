#!/bin/bash
# usage: run_evals.sh "<seeded-dir> <props...>" ...
for spec in "$@"; do
  set -- $spec
  D=$1; shift
  echo "=== $D :: $@" >> ${EVALLOG:-/tmp/mut/eval.log}
  P=/verif/seeded/$D/patch.diff; [ -f /verif/seeded/$D/patch.rebased.diff ] && P=/verif/seeded/$D/patch.rebased.diff; TAIL=6 /verif/tools/mutant_eval.sh $P "$@" 2>&1 | grep -v "^KNOWN-FINDING" >> ${EVALLOG:-/tmp/mut/eval.log}
done
echo ALLDONE >> ${EVALLOG:-/tmp/mut/eval.log}
