#!/usr/bin/env python3
"""wire the theorems about source-translated functions (Proofs/PureFns, Proofs/TinySet) into the
audited property files; idempotent"""
import re, sys, os
ROOT = os.path.dirname(os.path.dirname(os.path.dirname(os.path.abspath(__file__))))
SPEC = {'C13': (['TantivyModel.Proofs.TinySet'], 'C13_src_tinyset_pop_lowest'),
        'C08': (['TantivyModel.Proofs.PureFns'], 'C08_src_zig_zag_bijection'),
        'C07': (['TantivyModel.Proofs.PureFns'], 'C07_src_skip_bitwidth_roundtrip')}
ONLY = set(a.upper() for a in sys.argv[1:])
for p, (imports, marker) in SPEC.items():
    if ONLY and p not in ONLY:
        continue
    f = os.path.join(ROOT, 'lean/TantivyModel/Props', p + '.lean')
    s = open(f).read()
    if marker in s:
        print(p, 'already wired'); continue
    block = open(os.path.join(ROOT, 'tools/wire', p + '.lean.txt')).read()
    for imp in imports:
        if f'import {imp}\n' not in s:
            s = f'import {imp}\n' + s
    end = f'end TantivyModel.{p}'
    i = s.rindex(end)
    s = s[:i] + block.lstrip('\n') + '\n' + s[i:]
    open(f, 'w').write(s)
    print(p, 'wired')

HARNESS = {'c13': 'crate::purefns::check_tinyset(ctx, if ctx.thorough() { 4000 } else { 300 });',
           'c08': 'crate::purefns::check(ctx, &["mono", "bits"], if ctx.thorough() { 4000 } else { 300 });'}
for m, call in HARNESS.items():
    if ONLY and m.upper() not in ONLY:
        continue
    f = os.path.join(ROOT, 'harness/src/props', m + '.rs')
    s = open(f).read()
    if call in s:
        print(m, 'harness already wired'); continue
    head = 'pub fn run(ctx: &mut Ctx) {\n'
    if s.count(head) != 1:
        print(m, 'harness NOT wired: run() not found exactly once'); continue
    s = s.replace(head, head + '    // functions translated from the Rust source (Gen/PureFns): translation vs real code\n    ' + call + '\n')
    open(f, 'w').write(s)
    print(m, 'harness wired')
