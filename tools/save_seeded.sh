#!/bin/bash
# save_seeded.sh <mutant-worktree> <A|B> <slug> "<verified line>" [<letter in seeded/>]
# <A|B> names the sub-directory out/<A|B> of the worktree; the optional 5th argument is the letter
# used in the seeded/ directory name (default: the same). Refuses to save when the patch or the
# demonstration is missing (a round-5 slip lost three verified changes that way).
WT=$1; X=$2; SLUG=$3; VER="$4"; Y=${5:-$X}
P=$(basename $WT)
if [ ! -s $WT/out/$X/patch.diff ] || [ ! -s $WT/out/$X/demo.rs ]; then echo "save_seeded: $WT/out/$X/{patch.diff,demo.rs} missing - nothing saved"; exit 1; fi
D=/verif/seeded/$P-$Y-$SLUG
mkdir -p $D
cp $WT/out/$X/patch.diff $D/patch.diff
cp $WT/out/$X/demo.rs $D/demo.rs
python3 - "$WT/out/$X/meta.json" "$D/meta.json" "$P" "$VER" <<'PY'
import json,sys
src,dst,prop,ver=sys.argv[1:5]
try: m=json.load(open(src))
except Exception as e: m={'note':'original meta.json unreadable: %s'%e}
out={'breaks_property':prop,'summary':m.get('summary'),'needs_to_manifest':m.get('needs_to_manifest'),
     'files_changed':m.get('files_changed'),
     'what_was_run':{'by_author':{'suite_with_change':m.get('suite_result'),'demo_with_patch':m.get('demo_with_patch'),'demo_without_patch':m.get('demo_without_patch')},
                     'confirmed_by_lead':ver,
                     'how':'tools/verify_mutant.sh in a scratch worktree of /repo: demo test passes on the clean tree; full nextest suite passes with the patch applied; demo test fails with the patch applied'},
     'detected_by':None}
json.dump(out,open(dst,'w'),indent=1)
PY
echo saved $D
