#!/bin/bash
# soak.sh "<props>" "<seeds>" [parallel]: runs quick checks for each (prop, seed) on the current tree,
# records non-quiet runs in /tmp/soak/summary.txt and keeps their output.
PROPS="$1"; SEEDS="$2"; PAR=${3:-4}
mkdir -p /tmp/soak
: > /tmp/soak/summary.txt
run_one() {
  p=$1; s=$2
  out=/tmp/soak/${p}_${s}.txt
  VERIF_SEED=$s /verif/check $p --tier quick > $out 2>&1
  rc=$?
  line=$(grep -E "^$p quick:" $out | tail -1)
  echo "$p seed=$s rc=$rc $line" >> /tmp/soak/summary.txt
  if [ $rc -eq 0 ]; then rm -f $out; fi
}
export -f run_one
for s in $SEEDS; do for p in $PROPS; do echo "$p $s"; done; done | xargs -P $PAR -n 2 bash -c 'run_one "$0" "$1"'
echo SOAKDONE >> /tmp/soak/summary.txt
