#!/bin/bash
# mutant_eval.sh <patch.diff> <Cxx> [<Cxx> ...]
# Runs the quick checks of the given properties against (a copy of /repo's working tree + patch)
# WITHOUT touching /repo or /verif: scratch copies under /tmp/me_<pid>, removed afterwards.
# Prints each check's tail and a summary line `MUTANT <patch> <Cxx> rc=<n>`.
PATCH=$(realpath "$1"); shift
W=/tmp/me_$$
mkdir -p $W
trap 'rm -rf $W' EXIT
rsync -a --exclude target /repo/ $W/repo/
if ! git -C $W/repo apply "$PATCH"; then echo "patch does not apply"; exit 2; fi
SRC=$(cd "$(dirname "$0")/.." && pwd)
rsync -a --exclude .git --exclude .claude --exclude replays --exclude seeded $SRC/ $W/verif/
sed -i "s#\"/repo#\"$W/repo#g" $W/verif/harness/Cargo.toml
for P in "$@"; do
  (cd $W/verif && VERIF_REPO=$W/repo timeout 3600 ./check $P --tier ${TIER:-quick} > $W/out_$P.txt 2>&1; RC=$?; echo "MUTANT $(basename $(dirname $PATCH))/$(basename $PATCH) $P rc=$RC" >> $W/summary.txt)
  tail -n ${TAIL:-12} $W/out_$P.txt
  # keep replay files for inspection
  mkdir -p /tmp/me_replays && cp -r $W/verif/replays/$P /tmp/me_replays/ 2>/dev/null
done
cat $W/summary.txt
