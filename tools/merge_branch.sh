#!/bin/bash
# merge_branch.sh <branch>: merge a builder branch; auto-resolve the shared append-only files
B=$1
cd /verif
git merge --no-commit --no-ff $B >/dev/null 2>&1
for f in $(git diff --name-only --diff-filter=U); do
  case $f in
    KNOWN_FINDINGS.txt)
      git show :2:$f > /tmp/kf_ours; git show :3:$f > /tmp/kf_theirs
      cp /tmp/kf_ours $f; grep -vxFf /tmp/kf_ours /tmp/kf_theirs >> $f; git add $f;;
    MANIFEST.json) git checkout --ours $f 2>/dev/null; git add $f;;
    evidence/*) git checkout --theirs $f; git add $f;;
    harness/src/main.rs|harness/Cargo.toml)
      # union merge: keep both sides' added lines
      git show :1:$f > /tmp/mb_base; git show :2:$f > /tmp/mb_ours; git show :3:$f > /tmp/mb_theirs
      git merge-file --union /tmp/mb_ours /tmp/mb_base /tmp/mb_theirs; cp /tmp/mb_ours $f; git add $f;;
    *) echo "UNRESOLVED: $f";;
  esac
done
python3 tools/gen_manifest.py 2>/dev/null; git add MANIFEST.json
git diff --name-only --diff-filter=U
